import LLRP.Model.Probe
import LLRP.Props.C16
import LLRP.Gen.ProbeFacts
/-!
# C17 — Discovery names readers by rule, skips live devices, ends in bounded time

`deviceName`/`devicePrefix` use the *generated* `Gen.driver_HostnamePrefix`, `Gen.drv_Impinj`,
`Gen.drv_defaultDevicePrefix`, `Gen.ID_MAC_EUI64`; `Doc.*` is the README's naming section as data.
`probeRun`, `shouldProbe`, `runTick` are hand-written models tied to `probe`/`ipWorker`/`autoDiscover` by the
correspondence run against scripted loopback hosts.
-/
namespace LLRP.C17
open LLRP LLRP.Discover

/-! ## naming -/

/-- the name is `<prefix>-<id>`: prefix from the vendor/model table; id = last three octets of a MAC-type reader id
in upper-case dash-separated hex when it has at least three octets, otherwise the whole id in lower-case hex -/
theorem name_rule (vendor model idType : Nat) (rid : Bytes) :
    deviceName vendor model idType rid =
      devicePrefix vendor model ++ "-" ++
        (if idType = Gen.ID_MAC_EUI64 ∧ rid.length ≥ 3 then
           upper2 ((rid.drop (rid.length - 3)).getD 0 0) ++ "-" ++ upper2 ((rid.drop (rid.length - 3)).getD 1 0) ++ "-" ++
             upper2 ((rid.drop (rid.length - 3)).getD 2 0)
         else hexOf rid) := rfl

/-- the MAC form spelled out: for a reader id `… a b c` the id part is `AA-BB-CC` -/
theorem name_mac (vendor model : Nat) (pre : Bytes) (a b c : UInt8) :
    deviceName vendor model Gen.ID_MAC_EUI64 (pre ++ [a, b, c]) =
      devicePrefix vendor model ++ "-" ++ (upper2 a ++ "-" ++ upper2 b ++ "-" ++ upper2 c) := by
  have hd : (pre ++ [a, b, c]).drop ((pre ++ [a, b, c]).length - 3) = [a, b, c] := by
    have : (pre ++ [a, b, c]).length - 3 = pre.length := by simp
    rw [this, List.drop_left]
  unfold deviceName deviceSuffix macSuffix
  have hl : (pre ++ [a, b, c]).length ≥ 3 := by simp
  rw [if_pos ⟨rfl, hl⟩]
  simp only [hd]
  rfl

/-- short MAC-type ids and every other id type: the whole id in lower-case hex -/
theorem name_other (vendor model idType : Nat) (rid : Bytes) (h : idType ≠ Gen.ID_MAC_EUI64 ∨ rid.length < 3) :
    deviceName vendor model idType rid = devicePrefix vendor model ++ "-" ++ hexOf rid := by
  unfold deviceName deviceSuffix
  have : ¬ (idType = Gen.ID_MAC_EUI64 ∧ rid.length ≥ 3) := by omega
  rw [if_neg this]

/-- the prefix the code computes (generated from `types.go` and `discover.go`) is the README's table, for every
vendor number and every model number -/
theorem prefix_table (vendor model : Nat) : devicePrefix vendor model = Doc.docPrefix vendor model := by
  unfold devicePrefix Doc.docPrefix
  have hv : Gen.drv_Impinj = Doc.impinjPEN := by decide
  have hd : Gen.drv_defaultDevicePrefix = Doc.defaultPrefix := by decide
  rw [hv, hd]
  by_cases h : vendor = Doc.impinjPEN
  · simp only [h, if_true]
    by_cases m1 : model = 2001009
    · subst m1; decide
    by_cases m2 : model = 2001001
    · subst m2; decide
    by_cases m3 : model = 2001002
    · subst m3; decide
    by_cases m4 : model = 2001052
    · subst m4; decide
    by_cases m5 : model = 2001003
    · subst m5; decide
    by_cases m6 : model = 2001008
    · subst m6; decide
    by_cases m7 : model = 2001007
    · subst m7; decide
    by_cases m8 : model = 2001006
    · subst m8; decide
    by_cases m9 : model = 2001004
    · subst m9; decide
    have i1 : ¬ ((model : Int) = 2001009) := by omega
    have i2 : ¬ ((model : Int) = 2001001) := by omega
    have i3 : ¬ ((model : Int) = 2001002) := by omega
    have i4 : ¬ ((model : Int) = 2001052) := by omega
    have i5 : ¬ ((model : Int) = 2001003) := by omega
    have i6 : ¬ ((model : Int) = 2001008) := by omega
    have i7 : ¬ ((model : Int) = 2001007) := by omega
    have i8 : ¬ ((model : Int) = 2001006) := by omega
    have i9 : ¬ ((model : Int) = 2001004) := by omega
    have n1 : ¬ (2001009 = model) := by omega
    have n2 : ¬ (2001001 = model) := by omega
    have n3 : ¬ (2001002 = model) := by omega
    have n4 : ¬ (2001052 = model) := by omega
    have n5 : ¬ (2001003 = model) := by omega
    have n6 : ¬ (2001008 = model) := by omega
    have n7 : ¬ (2001007 = model) := by omega
    have n8 : ¬ (2001006 = model) := by omega
    have n9 : ¬ (2001004 = model) := by omega
    simp [Gen.driver_HostnamePrefix, Doc.prefixTable, Doc.modelNumber, Gen.impinjModels, Doc.defaultPrefix,
      i1, i2, i3, i4, i5, i6, i7, i8, i9, n1, n2, n3, n4, n5, n6, n7, n8, n9]
  · simp only [h, if_false]

/-- the id part the code computes is the README's, for every id type and every reader id (any length) -/
theorem id_doc (idType : Nat) (rid : Bytes) : deviceSuffix idType rid = Doc.docId idType rid := by
  unfold deviceSuffix Doc.docId
  have : Gen.ID_MAC_EUI64 = 0 := by decide
  rw [this]
  by_cases h : idType = 0 ∧ rid.length ≥ 3
  · have h' : idType = 0 ∧ 3 ≤ rid.length := h
    rw [if_pos h, if_pos h']
    have hl : (rid.drop (rid.length - 3)).length = 3 := by rw [List.length_drop]; omega
    match hm : rid.drop (rid.length - 3), hl with
    | [a, b, c], _ =>
      unfold macSuffix
      simp only [hm]
      rfl
  · have h' : ¬ (idType = 0 ∧ 3 ≤ rid.length) := h
    rw [if_neg h, if_neg h']

/-- names are exactly as documented -/
theorem name_doc (vendor model idType : Nat) (rid : Bytes) :
    deviceName vendor model idType rid = Doc.docName vendor model idType rid := by
  unfold deviceName Doc.docName
  rw [prefix_table, id_doc]

/-- what a report implies (shared by the theorems below) -/
theorem reported_identified (h : Host) (i : Info) (r : (probeRun h).info = some i) :
    (h.dial.good = true ∧ h.hello.good = true ∧ h.version.good = true ∧
      (h.needSetVersion = true → h.setVersion.good = true) ∧ h.config.good = true ∧ h.caps.passes = true) ∧
    ∃ id, h.ident = some id ∧ i.name = deviceName i.vendor i.model id.idType id.rid ∧
      i.vendor = (effectiveCaps h).vendor ∧ i.model = (effectiveCaps h).model ∧ i.fw = (effectiveCaps h).fw := by
  simp only [probeRun, probeInfo] at r
  split at r
  · rename_i hc
    cases hid : h.ident with
    | none => simp [hid] at r
    | some id =>
      simp only [hid, Option.some.injEq] at r
      subst r
      simp only [Bool.and_eq_true, Bool.or_eq_true, Bool.not_eq_true'] at hc
      obtain ⟨⟨⟨⟨⟨h1, h2⟩, h3⟩, h4⟩, h5⟩, h6⟩ := hc
      refine ⟨⟨h1, h2, h3, ?_, h5, h6⟩, id, rfl, rfl, rfl, rfl, rfl⟩
      intro hn
      cases h4 with
      | inl h4 => rw [hn] at h4; cases h4
      | inr h4 => exact h4
  · cases r

/-- the same reader (same identification, same reported vendor and model) always gets the same name: the name of a
reported device is a function of these four values only -/
theorem name_deterministic (h1 h2 : Host) (i1 i2 : Info)
    (r1 : (probeRun h1).info = some i1) (r2 : (probeRun h2).info = some i2)
    (hid : h1.ident = h2.ident) (hv : i1.vendor = i2.vendor) (hm : i1.model = i2.model) : i1.name = i2.name := by
  have key : ∀ (h : Host) (i : Info), (probeRun h).info = some i →
      ∃ id, h.ident = some id ∧ i.name = deviceName i.vendor i.model id.idType id.rid :=
    fun h i r => by
      obtain ⟨_, id, e, n, _⟩ := reported_identified h i r
      exact ⟨id, e, n⟩
  obtain ⟨id1, e1, n1⟩ := key h1 i1 r1
  obtain ⟨id2, e2, n2⟩ := key h2 i2 r2
  rw [hid, e2] at e1
  cases e1
  rw [n1, n2, hv, hm]

/-- a reported device was identified: the host completed the handshake (accepted the connection, sent the
connection-success event, answered the version query) and its reader-configuration reply carried an Identification;
the name is the rule applied to that identification -/
theorem unidentified_not_reported (h : Host) (i : Info) (r : (probeRun h).info = some i) :
    h.dial.good = true ∧ h.hello.good = true ∧ h.version.good = true ∧
    (h.needSetVersion = true → h.setVersion.good = true) ∧ h.config.good = true ∧
    ∃ id, h.ident = some id ∧ i.name = deviceName i.vendor i.model id.idType id.rid := by
  obtain ⟨⟨h1, h2, h3, h4, h5, _⟩, id, e, n, _⟩ := reported_identified h i r
  exact ⟨h1, h2, h3, h4, h5, id, e, n⟩

/-- vendor, model and firmware are reported as received (and as "unknown" = 0, 0, "" when the capabilities reply
did not carry them) -/
theorem metadata_as_received (h : Host) (i : Info) (r : (probeRun h).info = some i) :
    (∀ g, h.caps.good = true → h.gdc = some g → i.vendor = g.vendor ∧ i.model = g.model ∧ i.fw = g.fw) ∧
    ((h.caps.good = false ∨ h.gdc = none) → i.vendor = 0 ∧ i.model = 0 ∧ i.fw = "") := by
  obtain ⟨_, id, _, _, ev, em, ef⟩ := reported_identified h i r
  rw [ev, em, ef]
  constructor
  · intro g hg hgdc
    simp [effectiveCaps, hg, hgdc]
  · intro hno
    cases hno with
    | inl hb => simp [effectiveCaps, hb, unknownVendorID, unknownModelID]
    | inr hn => simp [effectiveCaps, hn, unknownVendorID, unknownModelID]

/-! ## skip rule -/

/-- an address is probed iff it is not that of a registered device in operating state Up -/
theorem skip_rule (registered up : Bool) : shouldProbe registered up = true ↔ ¬ (registered = true ∧ up = true) := by
  cases registered <;> cases up <;> simp [shouldProbe]

/-! ## bounded time -/

/-- every probe returns after at most `probeStages` timeout periods whatever the host does, and the hosts that
never complete the handshake cost at most one -/
theorem probe_bounded (h : Host) : (probeRun h).timeouts ≤ probeStages := by
  have c : ∀ r : Reply, r.cost ≤ 1 := by intro r; cases r <;> decide
  have := c h.dial; have := c h.hello; have := c h.version; have := c h.setVersion
  have := c h.config; have := c h.caps; have := c h.bye
  simp only [probeRun, probeTime, probeStages]
  repeat' split
  all_goals omega

theorem stalling_hosts_bounded :
    probeRun Host.refuse = ⟨none, 1⟩ ∧ probeRun Host.acceptSilent = ⟨none, 1⟩ ∧ probeRun Host.garbage = ⟨none, 1⟩ ∧
    probeRun Host.stallMidHandshake = ⟨none, 1⟩ ∧ (∀ id, probeRun (Host.stallMidExchange id) = ⟨none, 1⟩) ∧
    (∀ g, (probeRun (Host.noIdentification g)).info = none) := by
  refine ⟨by decide, by decide, by decide, by decide, fun id => ?_, fun g => ?_⟩
  · cases id <;> rfl
  · cases g <;> rfl

theorem gen_after_cancel (g : GenSt) (hc : g.cancelled = true) (hg : g.guarded = true) :
    (genAfterCancel g).returned = true := by
  by_cases hr : g.returned = true
  · simp [genAfterCancel, gstep, hr]
  · have hr' : g.returned = false := by simpa using hr
    obtain ⟨⟨_, _, _, hcan⟩, _, _⟩ := C16.cancel_stops g hc hg hr'
    cases htodo : g.todo with
    | nil => simp [genAfterCancel, gstep, hr', htodo]
    | cons x rest =>
      have := hcan (by simp [htodo])
      simp [genAfterCancel, this]

theorem runTicks_gen_returned (n : Nat) (s : RunSt) (h : s.gen.returned = true) : (runTicks n s).gen.returned = true := by
  induction n generalizing s with
  | zero => exact h
  | succ n ih => exact ih (runTick s) (by simp [runTick, h])

theorem runTicks_inflight (n : Nat) (s : RunSt) (h : ∀ r ∈ s.inflight, r ≤ n) :
    (runTicks n s).inflight.all (· == 0) = true := by
  induction n generalizing s with
  | zero =>
    simp only [runTicks, List.all_eq_true, beq_iff_eq]
    intro r hr; have := h r hr; omega
  | succ n ih =>
    apply ih (runTick s)
    intro r hr
    simp only [runTick, List.mem_map, List.mem_filter, decide_eq_true_eq] at hr
    obtain ⟨r0, ⟨hm, _⟩, rfl⟩ := hr
    have := h r0 hm
    omega

/-- once the run's context is cancelled (its maximum duration has passed), `autoDiscover` returns as soon as the
probes in flight have returned: the generator returns in one step (C16.cancel_stops), no new probe is started, and
after `B` further timeout periods — `B` bounding what the probes in flight may still take, `B ≤ probeStages` by
`probe_bounded` — everything has finished -/
theorem run_bounded (s : RunSt) (B : Nat) (hc : s.gen.cancelled = true) (hg : s.gen.guarded = true)
    (hB : ∀ r ∈ s.inflight, r ≤ B) : runFinished (runTicks (B + 1) s) = true := by
  have hgen : (runTick s).gen.returned = true := by
    unfold runTick
    by_cases hr : s.gen.returned = true
    · simp [hr]
    · simp [hr, gen_after_cancel s.gen hc hg]
  have hin : ∀ r ∈ (runTick s).inflight, r ≤ B := by
    intro r hr
    simp only [runTick, List.mem_map, List.mem_filter, decide_eq_true_eq] at hr
    obtain ⟨r0, ⟨hm, _⟩, rfl⟩ := hr
    have := hB r0 hm
    omega
  unfold runFinished
  show ((runTicks B (runTick s)).gen.returned && (runTicks B (runTick s)).inflight.all (· == 0)) = true
  rw [runTicks_gen_returned B _ hgen, runTicks_inflight B _ hin]
  rfl

/-! ## non-vacuity and documentation examples -/
example : deviceName 25882 2001002 0 [0, 0, 0, 0, 0x19, 0xC5, 0xD6] = "SpeedwayR-19-C5-D6" := by decide
example : deviceName 25882 2001008 0 [0xAB, 0xCD, 0xEF] = "xSpan-AB-CD-EF" := by decide
example : deviceName 25882 0x32 1 [0x30, 0x24, 0x11, 0xF9, 0xC9, 0x2D, 0x4F] = "LLRP-302411f9c92d4f" := by decide
example : deviceName 50 2001002 0 [0xFC, 0x4D] = "LLRP-fc4d" := by decide          -- MAC type, fewer than 3 octets
example : deviceName 50 2001002 0 [] = "LLRP-" := by decide
/-- names are *not* injective in the reader id: a short MAC-type id and an EPC-type id with the same bytes collide,
and MAC-type ids that share their last three octets collide -/
example : deviceName 0 0 0 [0x12] = deviceName 0 0 1 [0x12] ∧ deviceName 0 0 0 [1, 2, 3, 4] = deviceName 0 0 0 [9, 2, 3, 4] := by decide
example : (probeRun (Host.correct (some ⟨0, [1, 2, 0xAB, 0xCD, 0xEF]⟩) (some ⟨25882, 2001007, "5.14"⟩))).info
    = some ⟨"xArray-AB-CD-EF", 25882, 2001007, "5.14"⟩ := by decide
example : (probeRun (Host.correct (some ⟨1, [0xAB]⟩) none)).info = some ⟨"LLRP-ab", 0, 0, ""⟩ := by decide
example : runFinished (runTicks 4 ⟨genInit 3232235886 24 4 4 false true true, [3, 0, 2]⟩) = true := by decide
example : runFinished (runTicks 2 ⟨genInit 3232235886 24 4 4 false true true, [3, 0, 2]⟩) = false := by decide

/-! ## what the source relies on beyond the per-message timeout (regenerated from `discover.go` on every run) -/

/-- **probe_limits.** `probe_bounded` counts timeout periods: each stage of a probe ends when its read times out. A host
that keeps the connection busy defeats every single read deadline; what bounds the probe then is the context of the
exchange goroutine, which the source creates with `context.WithTimeout(_, sendTimeout)`; the dial and the client use the
probe timeout; when the final graceful Shutdown fails the client is closed with no further condition (otherwise Connect,
and with it the probe and the run, would never return). -/
theorem probe_limits :
    Gen.probe_ctxKind = "WithTimeout" ∧ Gen.probe_ctxArg = "sendTimeout" ∧
    Gen.probe_clientTimeout = "timeout" ∧ Gen.probe_dialTimeout = "timeout" ∧
    Gen.probe_shutdownErrCond = "err != nil && !errors.Is(err, llrp.ErrClientClosed)" ∧ Gen.probe_forceCloseGuard = "" := by
  decide

/-- **run_bound_sites.** `run_bounded` is about a run started under a context that ends after the configured maximum
duration. In the source every discovery run goes through `Driver.Discover`, which attaches
`context.WithTimeout(MaxDiscoverDurationSeconds)` (when it is positive) before it calls `discover`; `discover` is the only
caller of `autoDiscover`. A run started any other way would not be bounded by the maximum. -/
theorem run_bound_sites :
    Gen.discover_callers = ["Driver.Discover"] ∧ Gen.autoDiscover_callers = ["Driver.discover"] ∧
    Gen.discover_bound = "WithTimeout(time.Duration(maxSeconds) * time.Second) if maxSeconds > 0" := by decide

/-- **skip_cond.** `skip_rule` is about `shouldProbe registered up`; the source decides "up" by the operating state of the
registered device alone (no other attribute, such as the administrative state, takes part). -/
theorem skip_cond : Gen.probe_skipCond = "d.OperatingState == contract.Up" := by decide

end LLRP.C17
