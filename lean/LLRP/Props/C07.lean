import LLRP.Model.AckLTS
import LLRP.Proofs.WriteSide
import LLRP.Gen.Consts
import LLRP.Proofs.SeqWriteLoop
/-!
# C07 — Every keep-alive is acknowledged exactly once

Theorems about the acknowledgement LTS (`LLRP.lstep`: ackHandler's bounded enqueue + the write loop's two-level
select over the write-side fold), for ALL action lists: any placement of keep-alives, any ids (duplicates included),
any concurrent sender activity, version changes (negotiation) at any point. `lrun` ignores actions that are not
enabled, so "for all action lists" is "for all reachable states".

Not exhibited by the model: that the write loop is eventually scheduled and that `conn.Write` returns — that needs a
fair scheduler and a peer that keeps reading (`drain_writes_all` is the logical part: once the loop runs, `q.length`
steps write every queued acknowledgement). The harness samples the real thing.
-/
namespace LLRP.C07
open LLRP

theorem consts : Gen.ackQueueSz = 5 ∧ Gen.msgConsts.lookup "KeepAliveAck" = some tKeepAliveAck ∧
    Gen.msgConsts.lookup "KeepAlive" = some tKeepAlive := by decide

theorem ackOut_wr_nonack (s : WState) (it : WItem) (h : ∀ id, it ≠ .ack id) : (wr s it).ackOut = s.ackOut := by
  rcases stopped_cases s with hs | hs
  · rw [wr_of_stopped hs]
  · cases it with
    | ack id => exact absurd rfl (h id)
    | req c typ payload pid pv w => exact (wr_req hs c typ payload pid pv w).2.2.1
    | bad c typ dl pid w => exact (wr_bad hs c typ dl pid w).2.1
    | setVer v => exact (wr_setVer hs v).2.1

/-- the invariant behind conservation: written ++ queued = accepted (in arrival order: acknowledgements leave in
FIFO order), accepted + dropped = handled, and everything written from the ack queue is a bare KeepAliveAck -/
structure LInv (s : LState) : Prop where
  fifo : s.w.ackOut.map (·.id) ++ s.q = s.accepted
  split : ∀ x, s.accepted.count x + s.dropped.count x = s.handled.count x
  shape : ∀ f ∈ s.w.ackOut, f.typ = tKeepAliveAck ∧ f.payload = []
  bound : s.q.length ≤ Gen.ackQueueSz

theorem linv_init (v : Nat) : LInv (LState.init v) := by
  constructor <;> simp [LState.init, Gen.ackQueueSz]

theorem linv_step (s s' : LState) (a : LAct) (h : LInv s) (hs : lstep s a = some s') : LInv s' := by
  obtain ⟨h1, h2, h3, h4⟩ := h
  cases a with
  | ka id =>
    simp only [lstep] at hs
    split at hs
    · rename_i hlt
      simp only [Option.some.injEq] at hs; subst hs
      exact ⟨by simp [← h1], by intro x; simp only [List.count_append]; have := h2 x; omega, h3, by simp; omega⟩
    · simp only [Option.some.injEq] at hs; subst hs
      exact ⟨h1, by intro x; simp only [List.count_append]; have := h2 x; omega, h3, h4⟩
  | enter =>
    simp only [lstep] at hs
    split at hs
    · simp only [Option.some.injEq] at hs; subst hs; exact ⟨h1, h2, h3, h4⟩
    · cases hs
  | pickAck =>
    simp only [lstep] at hs
    split at hs
    · cases hs
    · rename_i hst
      split at hs
      · cases hs
      · rename_i id rest hq
        simp only [Option.some.injEq] at hs; subst hs
        have hst' : s.w.stopped = false := by simpa using hst
        obtain ⟨_, e2, _⟩ := wr_ack hst' id
        refine ⟨?_, h2, ?_, ?_⟩
        · simp only [e2, List.map_append, List.map_cons, List.map_nil]
          rw [← h1, hq]; simp [ackFrame]
        · simp only [e2]; intro f hf
          rcases List.mem_append.mp hf with hf | hf
          · exact h3 f hf
          · simp at hf; subst hf; exact ⟨rfl, rfl⟩
        · rw [hq] at h4; simp at h4 ⊢; omega
  | pickReq it =>
    simp only [lstep] at hs
    split at hs
    · rename_i hc
      simp only [Option.some.injEq] at hs; subst hs
      have hna : ∀ id, it ≠ .ack id := by
        intro id hid; subst hid; simp [WItem.fromSendQueue] at hc
      have e := ackOut_wr_nonack s.w it hna
      exact ⟨by show (wr s.w it).ackOut.map (·.id) ++ s.q = s.accepted; rw [e]; exact h1, h2,
        by show ∀ f ∈ (wr s.w it).ackOut, f.typ = tKeepAliveAck ∧ f.payload = []; rw [e]; exact h3, h4⟩
    · cases hs
  | setVer v =>
    simp only [lstep, Option.some.injEq] at hs; subst hs
    have e := ackOut_wr_nonack s.w (.setVer v) (by intro id h; cases h)
    exact ⟨by show (wr s.w (.setVer v)).ackOut.map (·.id) ++ s.q = s.accepted; rw [e]; exact h1, h2,
      by show ∀ f ∈ (wr s.w (.setVer v)).ackOut, f.typ = tKeepAliveAck ∧ f.payload = []; rw [e]; exact h3, h4⟩

theorem lrun_cons (s : LState) (a : LAct) (acts : List LAct) :
    lrun s (a :: acts) = lrun ((lstep s a).getD s) acts := rfl

theorem linv_run (acts : List LAct) (s : LState) (h : LInv s) : LInv (lrun s acts) := by
  induction acts generalizing s with
  | nil => exact h
  | cons a acts ih =>
    rw [lrun_cons]
    cases hs : lstep s a with
    | none => exact ih s h
    | some s' => exact ih s' (linv_step s s' a h hs)

/-- in every reachable state, as multisets of ids:
acknowledgements written + acknowledgements queued + acknowledgements dropped = keep-alives handled -/
theorem ack_conservation (v : Nat) (acts : List LAct) (x : Nat) :
    ((lrun (LState.init v) acts).w.ackOut.map (·.id)).count x + (lrun (LState.init v) acts).q.count x +
      (lrun (LState.init v) acts).dropped.count x = (lrun (LState.init v) acts).handled.count x := by
  have h := linv_run acts _ (linv_init v)
  rw [← h.split x, ← h.fifo, List.count_append]

/-- acknowledgements leave in the order the keep-alives were accepted (FIFO), and the queue never exceeds its capacity -/
theorem ack_fifo (v : Nat) (acts : List LAct) :
    (lrun (LState.init v) acts).w.ackOut.map (·.id) ++ (lrun (LState.init v) acts).q = (lrun (LState.init v) acts).accepted ∧
    (lrun (LState.init v) acts).q.length ≤ Gen.ackQueueSz :=
  ⟨(linv_run acts _ (linv_init v)).fifo, (linv_run acts _ (linv_init v)).bound⟩

/-- a keep-alive is dropped exactly when it finds `ackQueueSz` (5) acknowledgements queued; otherwise it is queued -/
theorem ka_outcome (s : LState) (id : Nat) :
    lstep s (.ka id) = some (if s.q.length < Gen.ackQueueSz
      then { s with q := s.q ++ [id], handled := s.handled ++ [id], accepted := s.accepted ++ [id] }
      else { s with handled := s.handled ++ [id], dropped := s.dropped ++ [id] }) := by
  simp only [lstep]; split <;> rfl

theorem noOverflow_dropped (acts : List LAct) (s : LState) (h : noOverflow s acts) :
    (lrun s acts).dropped = s.dropped := by
  induction acts generalizing s with
  | nil => rfl
  | cons a acts ih =>
    obtain ⟨ha, hrest⟩ := h
    rw [lrun_cons, ih _ hrest]
    cases a with
    | ka id => simp only [lstep] at ha ⊢; simp [ha]
    | enter => simp only [lstep]; split <;> rfl
    | pickAck => simp only [lstep]; split; · rfl
                 · split <;> rfl
    | pickReq it => simp only [lstep]; split <;> rfl
    | setVer v => rfl

/-- if no keep-alive arrives while five acknowledgements are queued, nothing is ever dropped: every keep-alive handled
is either acknowledged on the wire or still queued -/
theorem no_drop_within_backlog (v : Nat) (acts : List LAct) (h : noOverflow (LState.init v) acts) :
    (lrun (LState.init v) acts).dropped = [] ∧
    ∀ x, ((lrun (LState.init v) acts).w.ackOut.map (·.id)).count x + (lrun (LState.init v) acts).q.count x =
      (lrun (LState.init v) acts).handled.count x := by
  have hd := noOverflow_dropped acts _ h
  refine ⟨by simpa [LState.init] using hd, ?_⟩
  intro x
  have := ack_conservation v acts x
  rw [hd] at this
  simpa [LState.init] using this

/-- every acknowledgement written from the ack queue is a KeepAliveAck with empty payload whose id arrived in a
keep-alive, and an id is acknowledged at most as often as it arrived (at most one ack per keep-alive) -/
theorem only_acks_for_keepalives (v : Nat) (acts : List LAct) :
    ∀ f ∈ (lrun (LState.init v) acts).w.ackOut,
      f.typ = tKeepAliveAck ∧ f.payload = [] ∧ f.id ∈ (lrun (LState.init v) acts).handled ∧
      ((lrun (LState.init v) acts).w.ackOut.map (·.id)).count f.id ≤ (lrun (LState.init v) acts).handled.count f.id := by
  intro f hf
  have h := linv_run acts _ (linv_init v)
  have hc := ack_conservation v acts f.id
  have hle : ((lrun (LState.init v) acts).w.ackOut.map (·.id)).count f.id ≤ (lrun (LState.init v) acts).handled.count f.id := by omega
  refine ⟨(h.shape f hf).1, (h.shape f hf).2, ?_, hle⟩
  have hpos : 0 < ((lrun (LState.init v) acts).w.ackOut.map (·.id)).count f.id :=
    List.count_pos_iff.mpr (List.mem_map.mpr ⟨f, hf, rfl⟩)
  exact List.count_pos_iff.mp (by omega)

def reqsOK (acts : List LAct) : Prop := ∀ it, LAct.pickReq it ∈ acts → it.notAckTyp

/-- when no caller sends a KeepAliveAck itself, the type-72 frames on the wire are exactly those written from the
ack queue — so the client never acknowledges any other message -/
theorem ack_frames_are_acks (v : Nat) (acts : List LAct) (h : reqsOK acts) :
    (lrun (LState.init v) acts).w.out.filter (fun f => f.typ == tKeepAliveAck) = (lrun (LState.init v) acts).w.ackOut := by
  suffices ∀ s : LState, PartInv s.w → PartInv (lrun s acts).w from (this _ ⟨by simp [LState.init], by simp [LState.init]⟩).2
  induction acts with
  | nil => intro s hs; exact hs
  | cons a acts ih =>
    intro s hs
    have ih' := ih (fun it hit => h it (List.mem_cons_of_mem _ hit))
    rw [lrun_cons]
    cases hst : lstep s a with
    | none => exact ih' s hs
    | some s' =>
      apply ih'
      cases a with
      | ka id => simp only [lstep] at hst; split at hst <;> (simp only [Option.some.injEq] at hst; subst hst; exact hs)
      | enter => simp only [lstep] at hst; split at hst
                 · simp only [Option.some.injEq] at hst; subst hst; exact hs
                 · cases hst
      | pickAck =>
        simp only [lstep] at hst
        split at hst
        · cases hst
        · split at hst
          · cases hst
          · simp only [Option.some.injEq] at hst; subst hst
            exact partInv_step s.w _ trivial hs
      | pickReq it =>
        simp only [lstep] at hst
        split at hst
        · simp only [Option.some.injEq] at hst; subst hst
          exact partInv_step s.w it (h it List.mem_cons_self) hs
        · cases hst
      | setVer x =>
        simp only [lstep, Option.some.injEq] at hst; subst hst
        exact partInv_step s.w (.setVer x) trivial hs

/-- acknowledgements have priority: when the ack queue is non-empty and the write loop is at its (outer) select, the
acknowledgement of the oldest queued keep-alive is writable, and EVERY enabled action either writes nothing (a
keep-alive arriving, a version change) or is that acknowledgement — no request can be written first. The statement
does not mention senders, the await map (`s.w.awaiting`) or negotiation: none of them can disable or delay it. -/
theorem ack_priority (s : LState) (id : Nat) (rest : List Nat)
    (hpc : s.pc = .top) (hq : s.q = id :: rest) (hst : s.w.stopped = false) :
    (∃ s', lstep s .pickAck = some s' ∧ s'.w.out = s.w.out ++ [⟨stamp s.w.version tKeepAliveAck, tKeepAliveAck, id, []⟩]) ∧
    ∀ a s', lstep s a = some s' →
      s'.w.out = s.w.out ∨
      (a = .pickAck ∧ s'.w.out = s.w.out ++ [⟨stamp s.w.version tKeepAliveAck, tKeepAliveAck, id, []⟩]) := by
  have hpick : lstep s .pickAck = some { s with w := wr s.w (.ack id), q := rest, pc := .top } := by
    simp [lstep, hst, hq]
  have hout : (wr s.w (.ack id)).out = s.w.out ++ [⟨stamp s.w.version tKeepAliveAck, tKeepAliveAck, id, []⟩] :=
    (wr_ack hst id).1
  refine ⟨⟨_, hpick, hout⟩, ?_⟩
  intro a s' hs
  cases a with
  | ka x => left; simp only [lstep] at hs; split at hs <;> (simp only [Option.some.injEq] at hs; subst hs; rfl)
  | enter => simp [lstep, hq] at hs
  | pickAck => right; rw [hpick] at hs; simp only [Option.some.injEq] at hs; subst hs; exact ⟨rfl, hout⟩
  | pickReq it => simp [lstep, hpc] at hs
  | setVer v =>
    left; simp only [lstep, Option.some.injEq] at hs; subst hs
    exact (wr_setVer hst v).1

/-- after any request the loop is back at the outer select, where a queued acknowledgement goes first: at most one
request frame can precede an acknowledgement that was queued while the loop waited in the inner select -/
theorem pickReq_returns_to_top (s s' : LState) (it : WItem) (h : lstep s (.pickReq it) = some s') : s'.pc = .top := by
  simp only [lstep] at h
  split at h
  · simp only [Option.some.injEq] at h; subst h; rfl
  · cases h

/-- the logical part of "eventually written": once the loop takes acknowledgements, `q.length` steps empty the queue
and write every queued acknowledgement, in order (fairness and a reading peer give the steps) -/
theorem drain_writes_all (s : LState) (hst : s.w.stopped = false) :
    (lrun s (List.replicate s.q.length .pickAck)).q = [] ∧
    (lrun s (List.replicate s.q.length .pickAck)).w.ackOut.map (·.id) = s.w.ackOut.map (·.id) ++ s.q := by
  generalize hq : s.q = q
  induction q generalizing s with
  | nil => simp [lrun, hq]
  | cons id rest ih =>
    have hpick : lstep s .pickAck = some { s with w := wr s.w (.ack id), q := rest, pc := .top } := by
      simp [lstep, hst, hq]
    obtain ⟨_, e2, _, _, _, _, e7, e8, _⟩ := wr_ack hst id
    have hst' : (wr s.w (.ack id)).stopped = false := by simp [WState.stopped, e7, e8]
    simp only [List.length_cons, List.replicate_succ, lrun_cons, hpick, Option.getD_some]
    obtain ⟨h1, h2⟩ := ih { s with w := wr s.w (.ack id), q := rest, pc := .top } hst' rfl
    refine ⟨h1, ?_⟩
    rw [h2]; simp [e2, ackFrame]

/-! ## non-vacuity and the documented drop, on concrete runs -/

/-- five keep-alives while the loop cannot run are all queued; a sixth is dropped; conservation 0 + 5 + 1 = 6 -/
example : (lrun (LState.init 1) [.ka 1, .ka 2, .ka 3, .ka 4, .ka 5, .ka 6]).q = [1, 2, 3, 4, 5] ∧
    (lrun (LState.init 1) [.ka 1, .ka 2, .ka 3, .ka 4, .ka 5, .ka 6]).dropped = [6] := by decide
example : noOverflow (LState.init 1) [.ka 1, .ka 2, .ka 3, .ka 4, .ka 5] := by
  simp [noOverflow, lstep, LState.init, Gen.ackQueueSz]
example : ¬ noOverflow (LState.init 1) [.ka 1, .ka 2, .ka 3, .ka 4, .ka 5, .ka 6] := by
  simp [noOverflow, lstep, LState.init, Gen.ackQueueSz]
/-- with 3 requests written and unanswered, a keep-alive is acknowledged next (same id, empty payload) -/
example : ((lrun (LState.init 2) [.enter, .pickReq (.req 1 2 [0] 0 1 true), .enter, .pickReq (.req 2 2 [0] 0 1 true),
    .ka 4294967295, .pickReq (.req 3 2 [0] 0 1 true), .pickAck]).w.out.map fun f => (f.typ, f.id, f.payload)) =
    [(2, 0, [0]), (2, 1, [0]), (72, 4294967295, [])] := by decide
/-- duplicates are acknowledged as often as they arrive -/
example : (lrun (LState.init 1) [.ka 7, .ka 7, .pickAck, .pickAck, .pickAck]).w.ackOut.map (·.id) = [7, 7] := by decide
/-- the scheduler used for the scripted runs: a burst of 7 while the peer stalls its reads — the first acknowledgement
is in flight, five are queued, the seventh is dropped -/
example : (schedule 1 [.stall, .ka 1, .ka 2, .ka 3, .ka 4, .ka 5, .ka 6, .ka 7, .resume]).s.w.ackOut.map (·.id) = [1, 2, 3, 4, 5, 6] ∧
    (schedule 1 [.stall, .ka 1, .ka 2, .ka 3, .ka 4, .ka 5, .ka 6, .ka 7, .resume]).s.dropped = [7] := by decide

/-! ## acknowledgements at the level of the translated write loop

`Gen.llrp_Client_handleOutgoing` is the go2seq translation of the write loop (regenerated from `reader.go` on every run);
`SeqWrite.woEnv O` is an environment whose every choice (which `select` case proceeds, the ids in the ack queue, the
requests in the send queue, failing writes, `c.ver()`, the timeout) is read from the oracle `O`, and which logs what the
loop does; `SeqWrite.mrun` is the monitor over that log (`SeqWrite.mstep` states the rules). The theorem holds for every
oracle and every number of iterations. -/

/-- an id taken from the ack queue is followed by exactly the header (KeepAliveAck, that id, no payload) before
anything else is dequeued (`mstep`, cases `ackDeq`, `reqDeq`, `hdr` with `ackOK`) — whatever the environment does -/
theorem src_acks (O : SeqWrite.Oracle) (fuel : Nat) (w' : SeqWrite.WW) (e : GoSeq.GoErr)
    (h : Gen.llrp_Client_handleOutgoing (SeqWrite.woEnv O) fuel {} = some (w', e)) : (SeqWrite.mrun w'.log).ok = true :=
  SeqWrite.src_write_loop_monitor O fuel w' e h

end LLRP.C07
