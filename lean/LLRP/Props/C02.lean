import LLRP.Model.Layout
import LLRP.Gen.Schema
import LLRP.Gen.Consts
import LLRP.Gen.Funcs
import LLRP.Pinned.Schema
/-!
# C02 — Encoded bytes follow the LLRP binary layout; every length field is exact

`Layout.layout` is the declarative reference (independent of `encode`), instantiated with the pinned table. The
regenerated table must equal the pinned one; parameter constants and the TV/TLV split come from the source.
-/
namespace LLRP.C02
open LLRP

/-- the table the code is generated from is the pinned LLRP layout table -/
theorem table_unchanged : Gen.schema = Pinned.schema := by rfl

/-- every `Param…` constant of params.go equals the table's type id -/
theorem param_consts :
    ∀ p ∈ Gen.schema.params, Gen.paramConsts.lookup p.name = some p.typeId := by decide +kernel

/-- TV type codes are exactly 1…127 and TLV type codes exactly 128…2047 (`IsTV`/`IsTLV` translated from params.go) -/
theorem tv_tlv_ranges (t : Nat) :
    (Gen.llrp_ParamType_IsTV t = true ↔ (1 ≤ t ∧ t ≤ 127)) ∧
    (Gen.llrp_ParamType_IsTLV t = true ↔ (128 ≤ t ∧ t ≤ 2047)) := by
  unfold Gen.llrp_ParamType_IsTV Gen.llrp_ParamType_IsTLV
  simp only [Bool.and_eq_true, decide_eq_true_eq]
  omega

/-- the encoder's TV/TLV decision (type id ≥ 128) agrees with `IsTV`/`IsTLV` for every parameter of the table -/
theorem header_kind :
    ∀ p ∈ Gen.schema.params, (p.isTLV = Gen.llrp_ParamType_IsTLV p.typeId) ∧
      ((!p.isTLV) = Gen.llrp_ParamType_IsTV p.typeId) := by decide +kernel

/-- a TV parameter has no length field, so its size must be fixed by the table -/
theorem tv_params_fixed :
    ∀ p ∈ Gen.schema.params, p.typeId < 128 → fixedSize Gen.schema p = true := by decide +kernel

/-- every TLV written by the layout declares exactly the number of bytes it occupies (header included) -/
theorem tlv_length_exact (S : Schema) (fuel : Nat) (ty : String) (c : Container) (fs : List FVal)
    (subs : List (List Val)) (hc : S.param? ty = some c) (htlv : c.typeId ≥ 128) :
    ∃ body, Layout.param S (fuel + 1) ty (.node fs subs) =
        Layout.beBytes 2 c.typeId ++ Layout.beBytes 2 (4 + body.length) ++ body ∧
      (Layout.param S (fuel + 1) ty (.node fs subs)).length = 4 + body.length := by
  refine ⟨Layout.fields c.fields fs 0 ++ Layout.slots S fuel c.slots subs none, ?_, ?_⟩
  · simp [Layout.param, hc, htlv]
  · simp [Layout.param, hc, htlv, Layout.beBytes]; omega

/-- a TV parameter is its type code with the top bit set, followed by its body -/
theorem tv_header (S : Schema) (fuel : Nat) (ty : String) (c : Container) (fs : List FVal)
    (subs : List (List Val)) (hc : S.param? ty = some c) (htv : c.typeId < 128) :
    ∃ body, Layout.param S (fuel + 1) ty (.node fs subs) = byte (128 + c.typeId) :: body := by
  refine ⟨Layout.fields c.fields fs 0 ++ Layout.slots S fuel c.slots subs none, ?_⟩
  have : ¬ c.typeId ≥ 128 := by omega
  simp [Layout.param, hc, this]

example : Gen.schema.params.length = 123 ∧ Gen.schema.msgs.length = 46 := by decide +kernel

end LLRP.C02
