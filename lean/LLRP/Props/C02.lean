import LLRP.Model.Layout
import LLRP.Gen.Schema
import LLRP.Gen.Consts
import LLRP.Gen.Funcs
import LLRP.Pinned.Schema
import LLRP.Proofs.LayoutBlocks
/-!
# C02 — Encoded bytes follow the LLRP binary layout; every length field is exact

`Layout.layout` is the declarative reference (independent of `encode`), instantiated with the pinned table. The
regenerated table must equal the pinned one; parameter constants and the TV/TLV split come from the source.
-/
namespace LLRP.C02
open LLRP

/-- the table the code is generated from is the pinned LLRP layout table -/
theorem table_unchanged : Gen.schema = Pinned.schema := by rfl

/-- every `Param…` constant of params.go equals the table's type id -/
theorem param_consts :
    ∀ p ∈ Gen.schema.params, Gen.paramConsts.lookup p.name = some p.typeId := by decide +kernel

/-- TV type codes are exactly 1…127 and TLV type codes exactly 128…2047 (`IsTV`/`IsTLV` translated from params.go) -/
theorem tv_tlv_ranges (t : Nat) :
    (Gen.llrp_ParamType_IsTV t = true ↔ (1 ≤ t ∧ t ≤ 127)) ∧
    (Gen.llrp_ParamType_IsTLV t = true ↔ (128 ≤ t ∧ t ≤ 2047)) := by
  unfold Gen.llrp_ParamType_IsTV Gen.llrp_ParamType_IsTLV
  constructor <;> go_bool_arith

/-- the encoder's TV/TLV decision (type id ≥ 128) agrees with `IsTV`/`IsTLV` for every parameter of the table -/
theorem header_kind :
    ∀ p ∈ Gen.schema.params, (p.isTLV = Gen.llrp_ParamType_IsTLV p.typeId) ∧
      ((!p.isTLV) = Gen.llrp_ParamType_IsTV p.typeId) := by decide +kernel

/-- a TV parameter has no length field, so its size must be fixed by the table -/
theorem tv_params_fixed :
    ∀ p ∈ Gen.schema.params, p.typeId < 128 → fixedSize Gen.schema p = true := by decide +kernel

/-- every TLV written by the layout declares exactly the number of bytes it occupies (header included) -/
theorem tlv_length_exact (S : Schema) (fuel : Nat) (ty : String) (c : Container) (fs : List FVal)
    (subs : List (List Val)) (hc : S.param? ty = some c) (htlv : c.typeId ≥ 128) :
    ∃ body, Layout.param S (fuel + 1) ty (.node fs subs) =
        Layout.beBytes 2 c.typeId ++ Layout.beBytes 2 (4 + body.length) ++ body ∧
      (Layout.param S (fuel + 1) ty (.node fs subs)).length = 4 + body.length := by
  refine ⟨Layout.fields c.fields fs 0 ++ Layout.slots S fuel c.slots subs none, ?_, ?_⟩
  · simp [Layout.param, hc, htlv]
  · simp [Layout.param, hc, htlv, Layout.beBytes]; omega

/-- a TV parameter is its type code with the top bit set, followed by its body -/
theorem tv_header (S : Schema) (fuel : Nat) (ty : String) (c : Container) (fs : List FVal)
    (subs : List (List Val)) (hc : S.param? ty = some c) (htv : c.typeId < 128) :
    ∃ body, Layout.param S (fuel + 1) ty (.node fs subs) = byte (128 + c.typeId) :: body := by
  refine ⟨Layout.fields c.fields fs 0 ++ Layout.slots S fuel c.slots subs none, ?_⟩
  have : ¬ c.typeId ≥ 128 := by omega
  simp [Layout.param, hc, this]

/-! ## the encoder is the layout -/

/-- the regenerated table packs its sub-byte fields without overlap (`LLRP.Model.LayoutWF`): the one condition on the
table under which `acc | byte(v) << shift` is the declared bit placement -/
theorem layout_wf : layoutWF Gen.schema = true := by decide +kernel

/-- **the bytes `MarshalBinary` writes are the declarative layout**, for every table whose bit fields do not overlap,
every container and every well-formed value: field bytes (network order, two's complement, bit positions), slot
order, choice groups, TV/TLV headers and every TLV length field (`getHeader`'s 16-bit sum = 4 + body length) -/
theorem encode_eq_layout (S : Schema) (c : Container) (v : Val) (hS : layoutWF S = true)
    (hc : c.layoutWF = true) (hv : fits S c v = true) : encode S c v = Layout.layout S c v := by
  cases v with
  | node fs subs =>
    simp only [fits, Bool.and_eq_true] at hv
    simp only [encode, Layout.layout]
    rw [encFields_eq_layout c.fields fs 0 0 hc hv.1 (by simp),
      (encSlots_layout S hS _ c.slots subs none none hv.2).1]

/-- … in particular for the table the code is generated from -/
theorem encode_eq_layout_gen (c : Container) (hc : c ∈ Gen.schema) (v : Val) (hv : fits Gen.schema c v = true) :
    encode Gen.schema c v = Layout.layout Gen.schema c v :=
  encode_eq_layout Gen.schema c v layout_wf (layoutWF_of_mem layout_wf hc) hv

/-- the table condition is needed: with two overlapping bit fields `|` and the declared placement differ -/
def overlapping : Container :=
  { name := "X", typeId := 900, isMsg := true,
    fields := [⟨"a", .scalar 1 4 0 true false false⟩, ⟨"b", .scalar 1 4 2 false false false⟩],
    slots := [],
    responseTo := none }
example : fits [] overlapping (.node [.num 15, .num 15] []) = true ∧ overlapping.layoutWF = false ∧
    encode [] overlapping (.node [.num 15, .num 15] []) = [252] ∧
    Layout.layout [] overlapping (.node [.num 15, .num 15] []) = [44] := by decide +kernel

/-- a nested message: ROAccessReport ⊃ TagReportData ⊃ {EPC96 (TV), AntennaID (TV), C1G2PC (TV, four packed bit
fields), Custom (TLV with a rest field)} — non-vacuity of `fits` and of the theorems below -/
def sampleTag : Val :=
  .node [] ([[], [.node [.bytes (List.replicate 12 0xAB)] []], [], [], [], [.node [.num 3] []]] ++ List.replicate 7 [] ++
    [[.node [.num 21, .num 1, .num 0, .num 1, .num 0x30] []]] ++ List.replicate 14 [] ++
    [[.node [.num 9, .num 1, .bytes [1, 2, 3]] []]])
def sampleReport : Val := .node [] [[sampleTag, sampleTag], [], []]

example : fits Gen.schema Gen.m_ROAccessReport sampleReport = true := by decide +kernel
example : Gen.m_ROAccessReport ∈ Gen.schema := by decide +kernel
example : (encode Gen.schema Gen.m_ROAccessReport sampleReport).take 22 =
    [0, 240, 0, 38, 0x8d, 0xAB, 0xAB, 0xAB, 0xAB, 0xAB, 0xAB, 0xAB, 0xAB, 0xAB, 0xAB, 0xAB, 0xAB, 0x81, 0, 3, 0x8c, 0xad] := by
  decide +kernel

/-! ## `paramHeader.sz` -/

/-- **`paramHeader.sz` is the true length**: the size `getHeader` computes for a well-formed parameter (16-bit
additions of 16-bit sub-sizes, every variable-length field sized in uint16) is exactly the number of bytes
`EncodeParams`/`EncodeFields` write for it — so the TLV length field written from it is exact -/
theorem implSize_exact (S : Schema) (hS : layoutWF S = true) (fuel : Nat) (ty : String) (v : Val)
    (hv : fitsParam S fuel ty v = true) :
    szParam S fuel ty v = (encParam S fuel ty v).length :=
  (encParam_layout S hS fuel ty v hv).2

/-- `getHeader`'s result always fits 16 bits (it is computed in uint16) … -/
theorem implSize_lt (S : Schema) (fuel : Nat) (ty : String) (v : Val) : szParam S fuel ty v < 65536 := by
  cases fuel with
  | zero => simp [szParam]
  | succ fuel =>
    cases v with
    | node fs subs =>
      simp only [szParam]
      split
      · omega
      · simp only [wrap16]; omega

/-- … hence a well-formed parameter is always shorter than 2^16 bytes -/
theorem fits_length_lt (S : Schema) (hS : layoutWF S = true) (fuel : Nat) (ty : String) (v : Val)
    (hv : fitsParam S fuel ty v = true) : (encParam S fuel ty v).length < 65536 := by
  rw [← implSize_exact S hS fuel ty v hv]; exact implSize_lt S fuel ty v

/-- the weaker form that is all the encoder itself relies on: equality modulo 2^16 -/
theorem implSize_mod (S : Schema) (hS : layoutWF S = true) (fuel : Nat) (ty : String) (v : Val)
    (hv : fitsParam S fuel ty v = true) :
    szParam S fuel ty v = (encParam S fuel ty v).length % 65536 := by
  have := fits_length_lt S hS fuel ty v hv
  rw [implSize_exact S hS fuel ty v hv]; omega

/-- without the shape part of `fits` not even that holds: `getHeader` sizes a fixed array by the table, not by the
slice it is given (EPC96 with an empty EPC: size 13, one byte written) -/
example : szParam Gen.schema 3 "EPC96" (.node [.bytes []] []) = 13 ∧
    (encParam Gen.schema 3 "EPC96" (.node [.bytes []] [])).length = 1 := by decide +kernel

/-- values that a 16-bit size cannot describe are not `fits`: a Custom parameter with 70000 bytes of data would be
written as 70012 bytes while `getHeader` declares 4476 (16-bit wrap of the data length) -/
theorem oversized_rejected (b : Bytes) (hb : b.length = 70000) :
    fitsParam Gen.schema 2 "Custom" (.node [.num 1, .num 2, .bytes b] []) = false ∧
    szParam Gen.schema 2 "Custom" (.node [.num 1, .num 2, .bytes b] []) = 4476 ∧
    (encParam Gen.schema 2 "Custom" (.node [.num 1, .num 2, .bytes b] [])).length = 70012 := by
  have hc : Gen.schema.param? "Custom" = some Gen.p_Custom := by decide +kernel
  simp [fitsParam, szParam, encParam, hc, Gen.p_Custom, fitsFields, FKind.fitsVal, fieldsSz, encFields,
    szSlots, encSlots, Container.headerSize, Container.isTLV, wrap16, hb, length_putInt, put16]

example : fitsParam Gen.schema 40 "TagReportData" sampleTag = true ∧
    (encParam Gen.schema 40 "TagReportData" sampleTag).length = 38 := by decide +kernel

/-! ## every length field, at every nesting level -/

/-- **every TLV block inside the layout declares exactly its own length**, recursively: the layout of a message
shorter than 2^16 bytes is its field bytes followed by complete parameter blocks (`LLRP.Block`: type code, for a TLV
the 16-bit length equal to the block's byte count, body = field bytes ++ blocks of the container's slot types, each
well-formed in turn) -/
theorem tlv_lengths_exact (S : Schema) (c : Container) (v : Val) (h : (Layout.layout S c v).length < 65536) :
    ∃ (fb : Bytes) (sb : List (String × Bytes)), Layout.layout S c v = fb ++ (sb.map (·.2)).flatten ∧
      ∀ p ∈ sb, p.1 ∈ c.slots.map (·.ty) ∧ Block S p.1 p.2 := by
  cases v with
  | node fs subs =>
    simp only [Layout.layout, List.length_append] at h ⊢
    obtain ⟨sb, hsb, hall⟩ := slots_blocks S (3 * (Val.node fs subs).size + 3) c.slots subs none (by omega)
    exact ⟨_, sb, by rw [hsb], hall⟩

/-- the same for one parameter: what the layout writes for it is one well-formed block (or nothing, for an unknown
type) -/
theorem tlv_lengths_exact_param (S : Schema) (fuel : Nat) (ty : String) (v : Val)
    (h : (Layout.param S fuel ty v).length < 65536) :
    Layout.param S fuel ty v = [] ∨ Block S ty (Layout.param S fuel ty v) :=
  param_blocks S fuel ty v h

/-- and therefore the same for what the encoder writes -/
theorem tlv_lengths_exact_encode (c : Container) (hc : c ∈ Gen.schema) (v : Val) (hv : fits Gen.schema c v = true)
    (h : (encode Gen.schema c v).length < 65536) :
    ∃ (fb : Bytes) (sb : List (String × Bytes)), encode Gen.schema c v = fb ++ (sb.map (·.2)).flatten ∧
      ∀ p ∈ sb, p.1 ∈ c.slots.map (·.ty) ∧ Block Gen.schema p.1 p.2 := by
  rw [encode_eq_layout_gen c hc v hv] at h ⊢
  exact tlv_lengths_exact Gen.schema c v h

/-- **for every well-formed value, whatever its total size**: the layout (= the encoding) of a `fits` value is its
field bytes followed by complete well-formed blocks — every TLV at every nesting level declares exactly its length -/
theorem tlv_lengths_exact_fits (S : Schema) (c : Container) (v : Val) (hS : layoutWF S = true)
    (hv : fits S c v = true) :
    ∃ (fb : Bytes) (sb : List (String × Bytes)), Layout.layout S c v = fb ++ (sb.map (·.2)).flatten ∧
      ∀ p ∈ sb, p.1 ∈ c.slots.map (·.ty) ∧ Block S p.1 p.2 := by
  cases v with
  | node fs subs =>
    simp only [fits, Bool.and_eq_true] at hv
    simp only [Layout.layout]
    obtain ⟨sb, hsb, hall⟩ := slots_blocks_fits S hS (3 * (Val.node fs subs).size + 3) c.slots subs none none hv.2
    exact ⟨_, sb, by rw [hsb], hall⟩

/-- a well-formed parameter is laid out (= encoded) as exactly one well-formed block -/
theorem tlv_lengths_exact_fits_param (S : Schema) (hS : layoutWF S = true) (fuel : Nat) (ty : String) (v : Val)
    (hv : fitsParam S fuel ty v = true) :
    Block S ty (Layout.param S fuel ty v) ∧ Block S ty (encParam S fuel ty v) := by
  have := param_block_fits S hS fuel ty v hv
  exact ⟨this, by rw [(encParam_layout S hS fuel ty v hv).1]; exact this⟩

example : (Layout.layout Gen.schema Gen.m_ROAccessReport sampleReport).length = 76 := by decide +kernel

/-! ## decoding a conformant encoding -/

/-- decoding the layout of a value yields the value it denotes — a corollary of the round-trip theorem
(`LLRP.C01.decode_encode`, proved separately), taken here as a hypothesis -/
theorem decode_layout_of_roundtrip (S : Schema) (c : Container) (v : Val) (hS : layoutWF S = true)
    (hc : c.layoutWF = true) (hv : fits S c v = true) (hrt : decode S c (encode S c v) = some v) :
    decode S c (Layout.layout S c v) = some v := by
  rw [← encode_eq_layout S c v hS hc hv]; exact hrt

example : Gen.schema.params.length = 123 ∧ Gen.schema.msgs.length = 46 := by decide +kernel

end LLRP.C02
