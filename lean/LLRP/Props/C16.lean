import LLRP.Model.Discover
import LLRP.Proofs.Discover
import LLRP.Gen.Funcs
import LLRP.Proofs.SeqDiscover
/-!
# C16 — Discovery enumerates exactly the host addresses of each configured subnet

`hosts a len` is the sequence `ipGenerator` sends for the network `a/len` as `net.ParseCIDR` delivers it
(`Model.Discover`, same bit operations as the source; proved to be what the go2seq translation of `ipGenerator` sends —
`src_ipGenerator`, `src_hosts` — and additionally tied to the code by the differential correspondence).
`Gen.driver_computeNetSz` is the mechanical translation of `computeNetSz`. All theorems are for every 32-bit
address (aligned or not) and every prefix length in the stated range.
-/
namespace LLRP.C16
open LLRP LLRP.Discover LLRP.GoInt

/-- 2 ≤ len ≤ 30: exactly the addresses strictly between network and broadcast address -/
theorem hosts_exact {a len x : Nat} (ha : a < 4294967296) (h2 : 2 ≤ len) (h30 : len ≤ 30) :
    x ∈ hosts a len ↔ netId a len < x ∧ x < bcast a len := by
  rw [hosts_closed ha h2 h30, bcast_eq ha (by omega), List.mem_range'_1]
  have := blk_ge4 h30
  omega

/-- the arithmetic reading of the two bounds: `netId = a − a mod 2^(32−len)`, `bcast = netId + 2^(32−len) − 1` -/
theorem bounds_arith {a len : Nat} (ha : a < 4294967296) (h : len ≤ 32) :
    netId a len = a - a % 2 ^ (32 - len) ∧ bcast a len = netId a len + 2 ^ (32 - len) - 1 ∧
    netId a len ≤ a ∧ a ≤ bcast a len ∧ bcast a len < 4294967296 := by
  have h1 := netId_eq ha h
  have h2 := bcast_eq ha h
  have hb := blk_pos len
  have hm := Nat.mod_lt a hb
  have hx := netId_of_mem (x := netId a len + (blk len - 1)) ha h (by omega) (by omega)
  unfold blk at *
  refine ⟨h1, by omega, by omega, by omega, ?_⟩
  -- bcast < 2^32: it is a 32-bit value because netId + blk ≤ 2^32
  have hs := two_pow_split h
  have hd := netId_dvd ha h
  unfold blk at hs hd
  have e : netId a len = 2 ^ (32 - len) * (netId a len / 2 ^ (32 - len)) := by
    have := Nat.div_add_mod (netId a len) (2 ^ (32 - len)); omega
  have hq : netId a len / 2 ^ (32 - len) < 2 ^ len := by
    apply Nat.div_lt_of_lt_mul
    rw [Nat.mul_comm, hs]; omega
  have : 2 ^ (32 - len) * (netId a len / 2 ^ (32 - len) + 1) ≤ 2 ^ (32 - len) * 2 ^ len := Nat.mul_le_mul_left _ hq
  rw [Nat.mul_add, Nat.mul_one, ← e, Nat.mul_comm, hs] at this
  omega

/-- each address is enumerated exactly once -/
theorem hosts_nodup {a len : Nat} (ha : a < 4294967296) (h : len ≤ 32) : (hosts a len).Nodup := by
  by_cases c1 : len ≤ 1
  · have : hosts a len = [] := by unfold hosts gen; simp [c1]
    rw [this]; exact List.nodup_nil
  · by_cases c2 : 31 ≤ len
    · rw [hosts_hi c2]; simp
    · rw [hosts_closed ha (by omega) (by omega)]
      exact List.nodup_range'

/-- no address outside the network: every enumerated address has the network's id under the mask
(and is a 32-bit value) -/
theorem hosts_inside {a len x : Nat} (ha : a < 4294967296) (h : len ≤ 32) (hx : x ∈ hosts a len) :
    x &&& mask len = netId a len ∧ x < 4294967296 := by
  have hb := bounds_arith ha h
  by_cases c1 : len ≤ 1
  · have : hosts a len = [] := by unfold hosts gen; simp [c1]
    rw [this] at hx; cases hx
  · by_cases c2 : 31 ≤ len
    · rw [hosts_hi c2] at hx
      simp at hx
      subst hx
      exact ⟨netId_idem ha h, by omega⟩
    · have hx' := (hosts_exact ha (by omega) (by omega)).mp hx
      have := netId_of_mem (x := x) ha h (by omega) (by have := bcast_eq ha h; omega)
      exact ⟨this, by omega⟩

/-- /31 and /32: the single network address -/
theorem hosts_31_32 {a len : Nat} (h31 : 31 ≤ len) : hosts a len = [netId a len] := hosts_hi h31

/-- prefix lengths 0 and 1 are skipped altogether (the code's `maskSz <= 1` branch) -/
theorem hosts_0_1 {a len : Nat} (h : len ≤ 1) : hosts a len = [] := by
  unfold hosts gen; simp [h]

/-- value of the translated `computeNetSz` on 2…30, one `decide` over the 29 lengths (it has no address argument) -/
theorem netsz_table : ∀ len : Nat, len < 31 → 2 ≤ len →
    Gen.driver_computeNetSz (len : Int) = ((2 ^ (32 - len) - 2 : Nat) : Int) := by
  decide

/-- the probe-count estimate (`computeNetSz`, translated from the source) equals the number of addresses
enumerated, for every address and every prefix length 2…32 -/
theorem estimate_exact {a len : Nat} (ha : a < 4294967296) (h2 : 2 ≤ len) (h32 : len ≤ 32) :
    ((hosts a len).length : Int) = Gen.driver_computeNetSz (len : Int) := by
  by_cases c2 : 31 ≤ len
  · rw [hosts_hi c2]
    unfold Gen.driver_computeNetSz
    have : decide ((len : Int) ≥ 31) = true := by simp; omega
    simp [this]
  · rw [netsz_table len (by omega) h2, hosts_closed ha h2 (by omega), List.length_range']
    rfl

/-- the closed forms the oracle uses for nets too large to enumerate are the model's own values -/
theorem slice_count_sound {a len : Nat} (ha : a < 4294967296) (h32 : len ≤ 32) (i k : Nat) :
    hostsSlice a len i k = ((hosts a len).drop i).take k ∧ hostsCount a len = (hosts a len).length :=
  ⟨hostsSlice_eq ha h32 i k, hostsCount_eq ha h32⟩

/-! ## cancellation -/

/-- Cancelling stops the enumeration instead of blocking. For every generator state whose pending send is guarded
by the `select` (every state of the repaired code), once the context is cancelled:
1. while addresses remain, the return step is enabled and leads to `returned` in one step — never blocked,
   whatever the channel's occupancy and whether or not a receiver exists;
2. if the channel is full and nobody receives, *every* enabled step returns (≤ 1 step);
3. every step is either the return or one more send, and a send consumes an address, so any run has at most
   `todo.length + 1` steps; without a receiver at most `free + 1`. -/
theorem cancel_stops (s : GenSt) (hc : s.cancelled = true) (hg : s.guarded = true) (hr : s.returned = false) :
    (∃ c s', gstep s c = some s' ∧ (s.todo ≠ [] → gstep s .onCancel = some { s with returned := true })) ∧
    (s.free = 0 → s.recv = false → ∀ c s', gstep s c = some s' → s'.returned = true) ∧
    (∀ cs s', grun s cs = some s' → cs.length ≤ s.todo.length + 1 ∧ (s.recv = false → cs.length ≤ s.free + 1)) := by
  refine ⟨?_, ?_, ?_⟩
  · cases htodo : s.todo with
    | nil =>
      refine ⟨.finish, { s with returned := true }, ?_, fun h => absurd rfl h⟩
      simp [gstep, hr, htodo]
    | cons x rest =>
      refine ⟨.onCancel, { s with returned := true }, ?_, fun _ => ?_⟩ <;>
        simp [gstep, hr, hc, hg, htodo]
  · intro hf hrecv c s' hstep
    cases c with
    | finish =>
      simp [gstep, hr] at hstep
      rw [← hstep.2]
    | onCancel =>
      simp [gstep, hr] at hstep
      rw [← hstep.2]
    | send =>
      simp only [gstep, hr] at hstep
      cases htodo : s.todo with
      | nil => simp [htodo] at hstep
      | cons x rest => simp [htodo, hrecv, hf] at hstep
  · intro cs
    -- generalise over the state: the bound holds from every state (cancelled or not)
    have key : ∀ (cs : List GenChoice) (s s' : GenSt), grun s cs = some s' →
        cs.length ≤ (if s.returned then 0 else s.todo.length + 1) ∧
        (s.recv = false → cs.length ≤ (if s.returned then 0 else s.free + 1)) := by
      intro cs
      induction cs with
      | nil => intro s s' _; simp
      | cons c cs ih =>
        intro s s' hrun
        simp only [grun] at hrun
        cases hstep : gstep s c with
        | none => simp [hstep] at hrun
        | some s1 =>
          rw [hstep] at hrun
          have ih1 := ih s1 s' hrun
          by_cases hret : s.returned = true
          · simp [gstep, hret] at hstep
          · have hret' : s.returned = false := by simpa using hret
            simp only [hret', Bool.false_eq_true, if_false, List.length_cons]
            cases c with
            | finish =>
              simp [gstep, hret'] at hstep
              rw [← hstep.2] at ih1
              have h0 : cs.length ≤ 0 := by simpa using ih1.1
              omega
            | onCancel =>
              simp [gstep, hret'] at hstep
              rw [← hstep.2] at ih1
              have h0 : cs.length ≤ 0 := by simpa using ih1.1
              omega
            | send =>
              simp only [gstep, hret', Bool.false_eq_true, if_false] at hstep
              cases htodo : s.todo with
              | nil => simp [htodo] at hstep
              | cons x rest =>
                simp only [htodo] at hstep
                by_cases hrecv : s.recv = true
                · simp [hrecv] at hstep; subst hstep
                  simp [hrecv] at ih1 ⊢
                  omega
                · have hrecv' : s.recv = false := by simpa using hrecv
                  by_cases hfree : s.free > 0
                  · simp [hrecv', hfree] at hstep; subst hstep
                    simp [hrecv'] at ih1 ⊢
                    omega
                  · simp [hrecv', hfree] at hstep
    intro s' hrun
    have := key cs s s' hrun
    simpa [hr] using this

/-- the unrepaired /31,/32 branch (single send outside any `select`): with a full channel, no receiver and a
cancelled context no step is enabled — the generator is blocked. This is the defect the check reports on the
unchanged tree; it documents that `hg` in `cancel_stops` is necessary. -/
theorem unguarded_send_blocks (x : Nat) :
    ∀ c, gstep { todo := [x], free := 0, recv := false, cancelled := true, guarded := false, returned := false } c = none := by
  intro c; cases c <;> rfl

/-! ## non-vacuity -/
example : hosts 3232235886 28 = List.range' 3232235873 14 := by decide          -- 192.168.1.110/28 → .97 … .110
example : hosts 3232235886 30 = [3232235885, 3232235886] := by decide            -- 192.168.1.108/30 → .109, .110
example : hosts 3232235886 32 = [3232235886] ∧ hosts 3232235797 31 = [3232235796] := by decide
example : netId 3232235886 24 = 3232235776 ∧ bcast 3232235886 24 = 3232236031 := by decide
example : (hosts 4294967295 2).length = 1073741822 := by
  rw [← (slice_count_sound (by decide) (by decide) 0 0).2]; decide
example : Gen.driver_computeNetSz 24 = 254 ∧ Gen.driver_computeNetSz 2 = 1073741822 := by decide
example : allReturn 8 (genInit 3232235886 32 0 0 false true true) = true := by decide
example : allReturn 8 (genInit 3232235886 32 0 0 false true false) = false := by decide   -- unrepaired code: blocked
example : allReturn 8 (genInit 3232235886 24 4 4 false true true) = true := by decide
example : allReturn 8 (genInit 3232235886 24 4 4 false false true) = false := by decide   -- not cancelled, nobody receives

/-! ## the model is the source

`Gen.driver_ipGenerator` is the go2seq translation of `ipGenerator` (regenerated from `discover.go` on every run; the
`for` loop is a recursion on a fuel argument, each `select` asks the environment which case proceeds).
`SeqGlue.genEnv a len stop` is the `*net.IPNet` with address `a` and the mask of prefix length `len`; a send appends to
the World's `sent` list; the context is seen to have ended when `stop k` holds after `k` sends. -/

/-- **Source = model**, every address, every prefix length, every cancellation point: with fuel for a whole /2 the
translated `ipGenerator` returns, having sent `gen a len` in order up to the point where the context ended. -/
theorem src_ipGenerator (a len : Nat) (ha : a < 4294967296) (hl : len ≤ 32) (stop : Nat → Bool)
    (fuel : Nat) (hf : 4294967296 ≤ fuel) :
    Gen.driver_ipGenerator (SeqGlue.genEnv a len stop) fuel ⟨[]⟩ () () ()
      = some ⟨SeqGlue.sendAll stop [] ((gen a len).map Int.ofNat)⟩ :=
  SeqGlue.src_ipGenerator_run a len ha hl stop fuel hf

/-- never cancelled, on the network `net.ParseCIDR` delivers for `a/len` (its IP is the masked address): the translated
source sends exactly `hosts a len`, each once, in order — `hosts_exact`, `hosts_nodup`, `hosts_inside`, `hosts_31_32`
and `estimate_exact` are statements about that list. -/
theorem src_hosts (a len : Nat) (ha : a < 4294967296) (hl : len ≤ 32) (fuel : Nat) (hf : 4294967296 ≤ fuel) :
    Gen.driver_ipGenerator (SeqGlue.genEnv (netId a len) len (fun _ => false)) fuel ⟨[]⟩ () () ()
      = some ⟨(hosts a len).map Int.ofNat⟩ := by
  have hn : netId a len < 4294967296 := Nat.lt_of_le_of_lt (netId_le a len ha hl) ha
  rw [src_ipGenerator (netId a len) len hn hl _ fuel hf, SeqGlue.sendAll_never _ (fun _ => rfl)]
  simp [hosts]

/-- cancelling stops the enumeration: when the context is first seen to have ended after `k` sends, the translated
source returns having sent exactly the first `k` addresses (none when it was cancelled from the start). -/
theorem src_cancel_stops (a len : Nat) (ha : a < 4294967296) (hl : len ≤ 32) (stop : Nat → Bool) (k : Nat)
    (hk : stop k = true) (hj : ∀ j, j < k → stop j = false) (fuel : Nat) (hf : 4294967296 ≤ fuel) :
    Gen.driver_ipGenerator (SeqGlue.genEnv a len stop) fuel ⟨[]⟩ () () ()
      = some ⟨((gen a len).take k).map Int.ofNat⟩ := by
  rw [src_ipGenerator a len ha hl stop fuel hf,
    SeqGlue.sendAll_stops stop _ [] k (by simpa using hk) (by simpa using hj)]
  simp [List.map_take]

/-- the translated source run on 192.168.1.108/30 (unmasked address .110): sends .109 and .110; cancelled after one
send: only .109 -/
example : (Gen.driver_ipGenerator (SeqGlue.genEnv 3232235886 30 (fun _ => false)) 10 ⟨[]⟩ () () ()).map SeqGlue.GWorld.sent
    = some [3232235885, 3232235886] := by decide
example : (Gen.driver_ipGenerator (SeqGlue.genEnv 3232235886 30 (fun k => k == 1)) 10 ⟨[]⟩ () () ()).map SeqGlue.GWorld.sent
    = some [3232235885] := by decide

end LLRP.C16
