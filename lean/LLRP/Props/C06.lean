import LLRP.Model.Negotiate
import LLRP.Proofs.WriteSide
import LLRP.Gen.Schema
import LLRP.Gen.Consts
import LLRP.Proofs.SeqNegotiate
import LLRP.Proofs.SeqWriteLoop
/-!
# C06 — Version negotiation settles on min(client max, reader max) and sticks to it

Theorems are about the negotiation model (`LLRP.negotiate`; proved equal to go2seq's translation of `Client.negotiate` /
`getSupportedVersion` / `isResponseTo` from reader.go and messages.go — `src_negotiate` — and tied to the real code by the
scripted-peer correspondence) composed with the write-side fold `wr` (header versions),
and about the codec model over the table regenerated from `messages.yaml` (`Gen.schema`): the one-byte payload the
hand-written `negotiate()` puts into SetProtocolVersion must denote the negotiated version under the generated codec,
and a reader's reply carrying the version numbers as unsigned bytes (LLRP 1.1) must be read as those numbers.
-/
namespace LLRP.C06
open LLRP

/-- the type codes and constants the model uses are the regenerated ones -/
theorem consts :
    Gen.msgConsts.lookup "GetSupportedVersion" = some tGetSupportedVersion ∧
    Gen.msgConsts.lookup "SetProtocolVersion" = some tSetProtocolVersion ∧
    Gen.msgConsts.lookup "GetSupportedVersionResponse" = some tGetSupportedVersionResponse ∧
    Gen.msgConsts.lookup "SetProtocolVersionResponse" = some tSetProtocolVersionResponse ∧
    Gen.msgConsts.lookup "ErrorMessage" = some tErrorMessage ∧
    Gen.msgConsts.lookup "KeepAliveAck" = some tKeepAliveAck ∧
    Gen.Version1_0_1 = 1 ∧ Gen.Version1_1 = 2 ∧ Gen.VersionMin = 1 ∧ Gen.VersionMax = 2 ∧
    Gen.StatusMsgVerUnsupported = 110 ∧ Gen.StatusSuccess = 0 := by decide

/-- **The source is the model.** `Gen.llrp_Client_negotiate`, `Gen.llrp_Client_getSupportedVersion` and
`Gen.llrp_Message_isResponseTo` are the three functions as go2seq translates them from the source on this run; `SeqGlue.negEnv`
says what the calls they make mean (the write loop takes a request: an item is appended; the reader reacts to
GetSupportedVersion with `r1` and to SetProtocolVersion with `r2`; `Converse` is the regenerated `mirrorType` table).
For every configured maximum above 1.0.1, every client timeout and every pair of reader reactions, the translated source
returns nil exactly when the model succeeds, hands the write loop exactly the model's items in the model's order
(GetSupportedVersion, the version change, SetProtocolVersion only when the model sends it) and leaves `Client.version`
at the model's value — so every theorem below is a statement about the translated source. -/
theorem src_negotiate (clientMax : Nat) (timeout : Int) (r1 r2 : Reply) (hc : Gen.Version1_0_1 < clientMax)
    (hw1 : SeqGlue.ReplyWF r1) (hw2 : SeqGlue.ReplyWF r2) :
    ((Gen.llrp_Client_negotiate SeqGlue.negEnv (SeqGlue.nInit clientMax timeout r1 r2)).2 == GoSeq.GoErr.nil)
        = (negotiate clientMax r1 r2).result.isSome ∧
    (Gen.llrp_Client_negotiate SeqGlue.negEnv (SeqGlue.nInit clientMax timeout r1 r2)).1.items = (negotiate clientMax r1 r2).items ∧
    (Gen.llrp_Client_negotiate SeqGlue.negEnv (SeqGlue.nInit clientMax timeout r1 r2)).1.ver = (negotiate clientMax r1 r2).version :=
  SeqGlue.src_negotiate clientMax timeout r1 r2 hc hw1 hw2

/-- the classes fed to the model by the classification of raw replies satisfy `src_negotiate`'s side condition -/
theorem src_classes_wf (step typ : Nat) (payload : Bytes) : SeqGlue.ReplyWF (classify Gen.schema step typ payload) :=
  SeqGlue.classify_wf _ _ _ _

/-- stated about the translated source alone: with a reader that reports (current, max), the translated `negotiate`
leaves `Client.version = min(client max, reader max)`, and puts SetProtocolVersion in the write queue iff the reader is
not already running that version -/
theorem src_picks_min (clientMax : Nat) (timeout : Int) (cur max : Nat) (r2 : Reply) (hc : Gen.Version1_0_1 < clientMax)
    (hw2 : SeqGlue.ReplyWF r2) :
    let out := (Gen.llrp_Client_negotiate SeqGlue.negEnv (SeqGlue.nInit clientMax timeout (.ok cur max) r2)).1
    out.ver = min clientMax max ∧ (spvItem (min clientMax max) ∈ out.items ↔ cur ≠ min clientMax max) := by
  have h := src_negotiate clientMax timeout (.ok cur max) r2 hc trivial hw2
  have hc' : ¬ clientMax ≤ Gen.Version1_0_1 := by omega
  simp only [h.2.1, h.2.2]
  unfold negotiate supported
  simp only [hc', if_false]
  by_cases h1 : clientMax > max
  · have hmin : min clientMax max = max := by omega
    simp only [h1, if_true, hmin]
    by_cases h2 : cur = max
    · simp [h2, gsvItem, spvItem, tGetSupportedVersion, tSetProtocolVersion]
    · by_cases h3 : accepted r2 = true <;> simp [h2, h3, gsvItem, spvItem, tGetSupportedVersion, tSetProtocolVersion]
  · have hmin : min clientMax max = clientMax := by omega
    simp only [h1, if_false, hmin]
    by_cases h2 : cur = clientMax
    · simp [h2, gsvItem, spvItem, tGetSupportedVersion, tSetProtocolVersion]
    · by_cases h3 : accepted r2 = true <;> simp [h2, h3, gsvItem, spvItem, tGetSupportedVersion, tSetProtocolVersion]

/-- the GetSupportedVersion frame: version 1.1, first id of the connection, empty payload -/
def gsvFrame : Frame := ⟨Gen.Version1_1, tGetSupportedVersion, 0, []⟩
/-- the SetProtocolVersion frame for target version `v`: version 1.1, second id, one byte -/
def spvFrame (v : Nat) : Frame := ⟨Gen.Version1_1, tSetProtocolVersion, 1, [byte v]⟩

/-- closed form of everything negotiation does -/
theorem frames_eq (clientMax : Nat) (r1 r2 : Reply) :
    (negotiate clientMax r1 r2).frames clientMax =
      if clientMax ≤ 1 then [] else
      match supported r1 with
      | none => [gsvFrame]
      | some (cur, max) => if cur = min clientMax max then [gsvFrame] else [gsvFrame, spvFrame (min clientMax max)] := by
  unfold negotiate NegOut.frames
  simp only [Gen.Version1_0_1]
  by_cases h1 : clientMax ≤ 1
  · simp [h1, run, WState.init]
  · simp only [h1, if_false]
    cases hs : supported r1 with
    | none => simp [run, wr, WState.init, WState.stopped, gsvItem, gsvFrame, stamp, assignId, bumpId, register, emit,
        tGetSupportedVersion, tCloseConnection]
    | some cm =>
      obtain ⟨cur, max⟩ := cm
      have hmin : (if clientMax > max then max else clientMax) = min clientMax max := by
        simp only [Nat.min_def]; split <;> split <;> omega
      simp only [hmin]
      by_cases hgt : clientMax > max <;> by_cases hc : cur = min clientMax max <;> by_cases ha : accepted r2 = true <;>
        simp [hgt, hc, ha, run, wr, WState.init, WState.stopped, gsvItem, spvItem, gsvFrame, spvFrame, stamp, assignId,
          bumpId, register, emit, tGetSupportedVersion, tSetProtocolVersion, tCloseConnection, idMod, negCaller]

/-- a client limited to 1.0.1 sends no negotiation message and keeps its version -/
theorem no_negotiation (clientMax : Nat) (r1 r2 : Reply) (h : clientMax ≤ Gen.Version1_0_1) :
    (negotiate clientMax r1 r2).frames clientMax = [] ∧ (negotiate clientMax r1 r2).items = [] ∧
    (negotiate clientMax r1 r2).result = some clientMax := by
  have h' : clientMax ≤ 1 := h
  refine ⟨by rw [frames_eq]; simp [h'], ?_, ?_⟩ <;> simp [negotiate, h]

/-- with a usable answer (cur, max) the client's version becomes min(clientMax, max) — whether or not the switch
then succeeds — and a successful negotiation returns exactly that version -/
theorem picks_min (clientMax : Nat) (r1 r2 : Reply) (cur max : Nat) (hc : Gen.Version1_0_1 < clientMax)
    (h : supported r1 = some (cur, max)) :
    (negotiate clientMax r1 r2).version = min clientMax max ∧
    ∀ v, (negotiate clientMax r1 r2).result = some v → v = min clientMax max := by
  have hmin : (if clientMax > max then max else clientMax) = min clientMax max := by
    simp only [Nat.min_def]; split <;> split <;> omega
  have hc' : ¬ clientMax ≤ Gen.Version1_0_1 := by omega
  unfold negotiate
  simp only [hc', if_false, h, hmin]
  by_cases h1 : cur = min clientMax max
  · simp [h1]
  · by_cases h2 : accepted r2 = true <;> simp [h1, h2]

/-- in particular for a GetSupportedVersionResponse with status Success -/
theorem picks_min_ok (clientMax cur max : Nat) (r2 : Reply) (hc : Gen.Version1_0_1 < clientMax) :
    (negotiate clientMax (.ok cur max) r2).version = min clientMax max :=
  (picks_min clientMax (.ok cur max) r2 cur max hc rfl).1

/-- a reader that rejects the query as an unsupported version is a 1.0.1 reader: the client settles on 1.0.1, sends
nothing but the query, and the connection proceeds -/
theorem unsupported_is_1_0_1 (clientMax : Nat) (r2 : Reply) (hc : Gen.Version1_0_1 < clientMax) :
    (negotiate clientMax (.errorMsg Gen.StatusMsgVerUnsupported) r2).result = some Gen.Version1_0_1 ∧
    (negotiate clientMax (.errorMsg Gen.StatusMsgVerUnsupported) r2).version = Gen.Version1_0_1 ∧
    (negotiate clientMax (.errorMsg Gen.StatusMsgVerUnsupported) r2).frames clientMax = [gsvFrame] := by
  have hc1 : ¬ clientMax ≤ 1 := by simp [Gen.Version1_0_1] at hc; omega
  have hm : min clientMax 1 = 1 := by simp [Gen.Version1_0_1] at hc; omega
  refine ⟨?_, ?_, ?_⟩
  · simp [negotiate, supported, Gen.Version1_0_1, hc1]
  · simp [negotiate, supported, Gen.Version1_0_1, hc1]
  · rw [frames_eq]; simp [hc1, supported, Gen.Version1_0_1, hm]

/-- SetProtocolVersion is sent exactly when the reader gave a usable answer and is not already using the chosen version -/
theorem set_only_if_needed (clientMax : Nat) (r1 r2 : Reply) :
    (∃ f ∈ (negotiate clientMax r1 r2).frames clientMax, f.typ = tSetProtocolVersion) ↔
    (Gen.Version1_0_1 < clientMax ∧ ∃ cur max, supported r1 = some (cur, max) ∧ cur ≠ min clientMax max) := by
  rw [frames_eq]
  simp only [Gen.Version1_0_1]
  by_cases h1 : clientMax ≤ 1
  · simp [h1]; omega
  · have h1' : 1 < clientMax := by omega
    simp only [h1, if_false]
    cases hs : supported r1 with
    | none => simp [gsvFrame, tGetSupportedVersion, tSetProtocolVersion]
    | some cm =>
      obtain ⟨cur, max⟩ := cm
      by_cases hc : cur = min clientMax max
      · simp [hc, gsvFrame, tGetSupportedVersion, tSetProtocolVersion]
      · simp only [hc, if_false, h1', true_and]
        constructor
        · intro _; exact ⟨cur, max, rfl, hc⟩
        · intro _; exact ⟨spvFrame (min clientMax max), by simp, rfl⟩

/-- both negotiation messages carry version 1.1 in their headers, and negotiation sends nothing else -/
theorem negotiation_frames_v1_1 (clientMax : Nat) (r1 r2 : Reply) :
    ∀ f ∈ (negotiate clientMax r1 r2).frames clientMax,
      f.ver = Gen.Version1_1 ∧ (f.typ = tGetSupportedVersion ∨ f.typ = tSetProtocolVersion) := by
  rw [frames_eq]
  intro f hf
  by_cases h1 : clientMax ≤ 1
  · simp [h1] at hf
  · simp only [h1, if_false] at hf
    cases hs : supported r1 with
    | none => simp [hs] at hf; subst hf; simp [gsvFrame]
    | some cm =>
      obtain ⟨cur, max⟩ := cm
      simp only [hs] at hf
      by_cases hc : cur = min clientMax max
      · simp [hc] at hf; subst hf; simp [gsvFrame]
      · simp [hc] at hf; rcases hf with hf | hf <;> subst hf <;> simp [gsvFrame, spvFrame]

/-- TargetVersion of a decoded SetProtocolVersion value -/
def targetVersion : Option Val → Option Nat
  | some (.node [.num n] []) => some n.toNat
  | _ => none

/-- the payload the hand-written `negotiate()` writes denotes the negotiated version under the codec generated from
the table: decoding it as SetProtocolVersion gives TargetVersion = the client's new version -/
theorem set_payload_denotes_version (clientMax : Nat) (r1 r2 : Reply) (hmax : clientMax ≤ Gen.VersionMax) :
    ∀ f ∈ (negotiate clientMax r1 r2).frames clientMax, f.typ = tSetProtocolVersion →
      (Gen.schema.msg? "SetProtocolVersion").map (fun c => targetVersion (decode Gen.schema c f.payload)) =
        some (some (negotiate clientMax r1 r2).version) := by
  have key : ∀ v, v ≤ 2 → (Gen.schema.msg? "SetProtocolVersion").map (fun c => targetVersion (decode Gen.schema c [byte v])) = some (some v) := by
    intro v hv
    have : v = 0 ∨ v = 1 ∨ v = 2 := by omega
    rcases this with h | h | h <;> subst h <;> decide +kernel
  intro f hf ht
  rw [frames_eq] at hf
  have hmax' : clientMax ≤ 2 := hmax
  by_cases h1 : clientMax ≤ 1
  · simp [h1] at hf
  · simp only [h1, if_false] at hf
    cases hs : supported r1 with
    | none => simp [hs] at hf; subst hf; simp [gsvFrame, tGetSupportedVersion, tSetProtocolVersion] at ht
    | some cm =>
      obtain ⟨cur, max⟩ := cm
      have hv := (picks_min clientMax r1 r2 cur max (by simp [Gen.Version1_0_1]; omega) hs).1
      simp only [hs] at hf
      by_cases hc : cur = min clientMax max
      · simp [hc] at hf; subst hf; simp [gsvFrame, tGetSupportedVersion, tSetProtocolVersion] at ht
      · simp [hc] at hf
        rcases hf with hf | hf
        · subst hf; simp [gsvFrame, tGetSupportedVersion, tSetProtocolVersion] at ht
        · subst hf
          rw [hv]
          exact key _ (by omega)

/-- status Success as an LLRPStatus parameter: TLV 287, length 8, code 0, empty description -/
def okStatus : Bytes := [0x01, 0x1f, 0x00, 0x08, 0x00, 0x00, 0x00, 0x00]

/-- a GetSupportedVersionResponse that carries the version numbers as unsigned bytes (LLRP 1.1, 17.1.44) is read as
those numbers, for every version the 3-bit header field can hold -/
theorem supported_reply_decodes :
    ∀ cur ∈ List.range 8, ∀ max ∈ List.range 8,
      classify Gen.schema 1 tGetSupportedVersionResponse ([byte cur, byte max] ++ okStatus) = .ok cur max := by
  decide +kernel

/-- any error reply to the query other than "unsupported version", a refused or unanswered switch, and every
malformed/oversize/wrong reply fail the connection attempt -/
theorem failures_fail (clientMax : Nat) (r1 r2 : Reply) (hc : Gen.Version1_0_1 < clientMax) :
    (supported r1 = none → (negotiate clientMax r1 r2).result = none) ∧
    (∀ cur max, supported r1 = some (cur, max) → cur ≠ min clientMax max → accepted r2 = false →
      (negotiate clientMax r1 r2).result = none) := by
  have hmin : ∀ max, (if clientMax > max then max else clientMax) = min clientMax max := by
    intro max; simp only [Nat.min_def]; split <;> split <;> omega
  have hc' : ¬ clientMax ≤ Gen.Version1_0_1 := by omega
  constructor
  · intro h; simp [negotiate, hc', h]
  · intro cur max h hne ha
    simp [negotiate, hc', h, hmin, hne, ha]

/-- which replies are failures of the first step: every ERROR_MESSAGE other than "unsupported version" — also one that
carries status Success — is one -/
theorem supported_none_iff (r : Reply) :
    supported r = none ↔
      ((∃ c, r = .refused c) ∨ (∃ c, r = .errorMsg c ∧ c ≠ Gen.StatusMsgVerUnsupported) ∨
       r = .wrongType ∨ r = .undecodable ∨ r = .oversize ∨ r = .lost) := by
  cases r <;> simp [supported]

/-- which replies refuse the switch -/
theorem accepted_false_iff (r : Reply) : accepted r = false ↔ ∀ a b, r ≠ .ok a b := by
  cases r <;> simp [accepted]

/-- the write loop's view of the client's version after negotiation is the negotiated version -/
theorem after_version (clientMax : Nat) (r1 r2 : Reply) :
    ((negotiate clientMax r1 r2).after clientMax).version = (negotiate clientMax r1 r2).version := by
  unfold negotiate NegOut.after
  by_cases hc : clientMax ≤ Gen.Version1_0_1
  · simp [hc, run, WState.init]
  · simp only [hc, if_false]
    cases hs : supported r1 with
    | none => simp [run, wr, WState.init, WState.stopped, gsvItem, bumpId, register, emit, tGetSupportedVersion,
        tCloseConnection]
    | some cm =>
      obtain ⟨cur, max⟩ := cm
      simp only []
      by_cases hcv : cur = (if clientMax > max then max else clientMax)
      · rw [if_pos hcv]
        by_cases hgt : clientMax > max <;>
          simp [hgt, run, wr, WState.init, WState.stopped, gsvItem, spvItem, bumpId, register, emit,
            tGetSupportedVersion, tSetProtocolVersion, tCloseConnection]
      · rw [if_neg hcv]
        by_cases ha : accepted r2 = true
        · rw [if_pos ha]
          by_cases hgt : clientMax > max <;>
            simp [hgt, run, wr, WState.init, WState.stopped, gsvItem, spvItem, bumpId, register, emit,
              tGetSupportedVersion, tSetProtocolVersion, tCloseConnection]
        · rw [if_neg ha]
          by_cases hgt : clientMax > max <;>
            simp [hgt, run, wr, WState.init, WState.stopped, gsvItem, spvItem, bumpId, register, emit,
              tGetSupportedVersion, tSetProtocolVersion, tCloseConnection]

theorem result_version (clientMax : Nat) (r1 r2 : Reply) (v : Nat)
    (hr : (negotiate clientMax r1 r2).result = some v) : (negotiate clientMax r1 r2).version = v := by
  unfold negotiate at *
  by_cases hc : clientMax ≤ Gen.Version1_0_1
  · simp [hc] at hr ⊢; exact hr
  · simp only [hc, if_false] at hr ⊢
    cases hs : supported r1 with
    | none => simp [hs] at hr
    | some cm =>
      obtain ⟨cur, max⟩ := cm
      simp only [hs] at hr ⊢
      by_cases hcv : cur = (if clientMax > max then max else clientMax) <;> by_cases ha : accepted r2 = true <;>
        simp [hcv, ha] at hr ⊢ <;> exact hr

/-- every frame written after a successful negotiation — requests and acknowledgements alike, whatever version the
caller preset — carries the negotiated version, except the two negotiation message types (always 1.1) -/
theorem stamped_after (clientMax : Nat) (r1 r2 : Reply) (v : Nat)
    (hr : (negotiate clientMax r1 r2).result = some v)
    (later : List WItem) (hl : ∀ it ∈ later, ∀ x, it ≠ .setVer x) :
    ∃ extra, (run ((negotiate clientMax r1 r2).after clientMax) later).out =
               (negotiate clientMax r1 r2).frames clientMax ++ extra ∧
      ∀ f ∈ extra, f.typ ≠ tGetSupportedVersion → f.typ ≠ tSetProtocolVersion → f.ver = v := by
  obtain ⟨extra, h1, _, h3⟩ := run_stamped later hl ((negotiate clientMax r1 r2).after clientMax)
  refine ⟨extra, h1, ?_⟩
  intro f hf n1 n2
  have hver : ((negotiate clientMax r1 r2).after clientMax).version = v := by
    rw [after_version]; exact result_version clientMax r1 r2 v hr
  rw [h3 f hf, hver]
  simp [stamp, n1, n2]

/-! ## non-vacuity -/
example : (negotiate 2 (.ok 1 2) (.ok 0 0)).result = some 2 := by decide
example : (negotiate 2 (.ok 1 2) (.ok 0 0)).frames 2 = [gsvFrame, spvFrame 2] := by decide
example : (negotiate 2 (.ok 2 2) .lost).frames 2 = [gsvFrame] := by decide
example : (negotiate 2 (.ok 2 1) (.refused 1)).result = none := by decide
example : supported (.errorMsg 110) = some (1, 1) := by decide
example : supported (.errorMsg 101) = none := by decide
/-- after negotiating 1.1 a request whose Message was preset to 1.0.1 and a keep-alive acknowledgement both go out as 1.1 -/
example : ((run ((negotiate 2 (.ok 1 2) (.ok 0 0)).after 2) [.req 7 2 [0] 0 1 true, .ack 9]).out.drop 2).map (·.ver) = [2, 2] := by
  decide
/-- and after settling on 1.0.1 both go out as 1.0.1 -/
example : ((run ((negotiate 2 (.errorMsg 110) .lost).after 2) [.req 7 2 [0] 0 1 true, .ack 9]).out.drop 1).map (·.ver) = [1, 1] := by
  decide

/-! ## the stamping rule at the level of the translated write loop

`Gen.llrp_Client_handleOutgoing` is the go2seq translation of the write loop (regenerated from `reader.go` on every run);
`SeqWrite.woEnv O` is an environment whose every choice (which `select` case proceeds, the ids in the ack queue, the
requests in the send queue, failing writes, `c.ver()`, the timeout) is read from the oracle `O`, and which logs what the
loop does; `SeqWrite.mrun` is the monitor over that log (`SeqWrite.mstep` states the rules). The theorem holds for every
oracle and every number of iterations. -/

/-- every header the translated write loop writes is stamped 1.1 when it is a negotiation message (GetSupportedVersion,
SetProtocolVersion) and otherwise with the value `c.ver()` returned for that very message (`mstep`, case `hdr`,
`stampOK`) — whatever the environment does -/
theorem src_stamping (O : SeqWrite.Oracle) (fuel : Nat) (w' : SeqWrite.WW) (e : GoSeq.GoErr)
    (h : Gen.llrp_Client_handleOutgoing (SeqWrite.woEnv O) fuel {} = some (w', e)) : (SeqWrite.mrun w'.log).ok = true :=
  SeqWrite.src_write_loop_monitor O fuel w' e h

end LLRP.C06
