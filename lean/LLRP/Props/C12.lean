import LLRP.Model.SendFor
import LLRP.Gen.Schema
import LLRP.Gen.MsgTables
import LLRP.Gen.Consts
import LLRP.Proofs.SeqSendFor
/-!
# C12 — LLRP status codes become errors faithfully

Theorems about `sendFor` (LLRP.Model.SendFor), the model of how `Client.SendFor` turns a reply into success, a status
error, or another error. The payload decoder is the verified codec model over the regenerated table. The tie to
reader.go is the differential correspondence (scripted peer answering real `SendFor` calls).
-/
namespace LLRP.C12
open LLRP

/-- **The source is the model.** `Gen.llrp_Client_SendFor` and `Gen.llrp_LLRPStatus_Err` are `Client.SendFor` (reader.go) and
`LLRPStatus.Err` (params.go) as go2seq translates them on this run; `SeqGlue.sfEnv` says what the calls they make mean
(`SendMessage` returns the reader's reply, the caller's value decodes with the codec model of its table entry, `Status()`
is the decoded LLRPStatus parameter). For every table, expected type, reply type and payload, the class of the error the
translated source returns — nil / a `*StatusError` with the reader's status code reachable through `errors.As` / another
error — is the class of the model's outcome. -/
theorem src_sendFor (S : Schema) (exp : Container) (replyT : Nat) (payload : Bytes) :
    SeqGlue.classOf (Gen.llrp_Client_SendFor (SeqGlue.sfEnvFor exp.statusable) ⟨S, exp, replyT, payload, none⟩ () () ()).2
      = SeqGlue.outcomeClass (sendFor S exp replyT payload) :=
  SeqGlue.src_sendFor S exp replyT payload

/-- … and the caller's response value is left as the model says: decoded on success and on a status carried by the
expected type, untouched for an ERROR_MESSAGE or any other type -/
theorem src_sendFor_value (S : Schema) (exp : Container) (replyT : Nat) (payload : Bytes)
    (hne : sendFor S exp replyT payload ≠ .decodeErr) :
    (Gen.llrp_Client_SendFor (SeqGlue.sfEnvFor exp.statusable) ⟨S, exp, replyT, payload, none⟩ () () ()).1.inVal
      = SeqGlue.outcomeVal (sendFor S exp replyT payload) :=
  SeqGlue.src_sendFor_value S exp replyT payload hne

/-- the translated `LLRPStatus.Err`: nil exactly for status Success, otherwise a `*StatusError` carrying the code -/
theorem src_status_err (st : Val) :
    (Gen.llrp_LLRPStatus_Err SeqGlue.errEnv () st).2 =
      if SeqGlue.codeOf st = 0 then GoSeq.GoErr.nil else GoSeq.GoErr.status (SeqGlue.codeOf st) :=
  SeqGlue.err_spec st

/-- success exactly when the reply has the expected type, decodes, and (for responses that carry one) its status is
Success -/
theorem success_iff (S : Schema) (exp : Container) (replyT : Nat) (payload : Bytes) (v : Val) :
    sendFor S exp replyT payload = .success v ↔
      (replyT = exp.typeId ∧ decode S exp payload = some v ∧
        (exp.statusable = true → ∃ st, llrpStatusOf exp v = some st ∧ statusCode st = some 0)) := by
  unfold sendFor
  by_cases ht : replyT = exp.typeId
  · simp only [ht, if_true, true_and]
    cases hd : decode S exp payload with
    | none => simp
    | some w =>
      simp only []
      by_cases hs : exp.statusable = true
      · simp only [hs, if_true]
        cases hst : llrpStatusOf exp w with
        | none =>
          constructor
          · intro h; cases h
          · rintro ⟨hw, h⟩
            cases hw
            obtain ⟨st, h1, _⟩ := h trivial
            rw [hst] at h1; cases h1
        | some st =>
          simp only []
          by_cases h0 : statusCode st = some 0
          · simp only [h0, if_true]
            constructor
            · intro h; cases h; exact ⟨rfl, fun _ => ⟨st, hst, h0⟩⟩
            · rintro ⟨hw, _⟩; cases hw; rfl
          · simp only [h0, if_false]
            constructor
            · intro h; cases h
            · rintro ⟨hw, h⟩
              cases hw
              obtain ⟨st', h1, h2⟩ := h trivial
              rw [hst] at h1; cases h1; exact absurd h2 h0
      · simp only [hs]
        constructor
        · intro h; cases h; exact ⟨rfl, fun h => by simp_all⟩
        · rintro ⟨hw, _⟩; cases hw; rfl
  · simp only [ht, if_false, false_and, iff_false]
    split
    · split
      · intro h; cases h
      · split
        · intro h; cases h
        · split <;> (intro h; cases h)
    · intro h; cases h

/-- a reply of the expected type with any other status yields an error exposing the reader's whole LLRPStatus —
status code, description and nested FieldError/ParameterError — and the decoded response -/
theorem status_exposed (S : Schema) (exp : Container) (payload : Bytes) (v st : Val)
    (hd : decode S exp payload = some v) (hs : exp.statusable = true)
    (hst : llrpStatusOf exp v = some st) (hne : statusCode st ≠ some 0) :
    sendFor S exp exp.typeId payload = .status st (some v) := by
  simp [sendFor, hd, hs, hst, hne]

/-- an ERROR_MESSAGE reply yields an error exposing its status, for every status code (0 included) -/
theorem error_message (S : Schema) (exp em : Container) (payload : Bytes) (e st : Val)
    (hne : errorMessageType ≠ exp.typeId) (hem : S.msg? "ErrorMessage" = some em)
    (hd : decode S em payload = some e) (hst : llrpStatusOf em e = some st) :
    sendFor S exp errorMessageType payload = .status st none := by
  simp [sendFor, hne, hem, hd, hst]

/-- a reply of any other type is an error and the caller's response value is not decoded into -/
theorem other_type (S : Schema) (exp : Container) (replyT : Nat) (payload : Bytes)
    (h1 : replyT ≠ exp.typeId) (h2 : replyT ≠ errorMessageType) :
    sendFor S exp replyT payload = .typeErr := by
  simp [sendFor, h1, h2]

/-- never a success for a wrong type or an undecodable reply -/
theorem no_success_on_wrong_type (S : Schema) (exp : Container) (replyT : Nat) (payload : Bytes) (v : Val)
    (h : replyT ≠ exp.typeId) : sendFor S exp replyT payload ≠ .success v := by
  intro hs
  exact h ((success_iff S exp replyT payload v).mp hs).1

/-- the messages the library treats as carrying a status (`Status()` methods, regenerated from the source) are
exactly the table's messages with an LLRPStatus parameter -/
theorem statusable_complete :
    ∀ m ∈ Gen.schema.msgs, m.statusable = Gen.statusMethods.contains m.name := by decide +kernel

/-- ERROR_MESSAGE is message type 100 in the table and in the source -/
theorem error_message_type :
    (Gen.schema.msg? "ErrorMessage").map (·.typeId) = some errorMessageType ∧
    Gen.msgConsts.lookup "ErrorMessage" = some errorMessageType := by decide +kernel

/-! non-vacuity: a concrete DeleteROSpecResponse with status 101 (M_FieldError) and a nested FieldError -/
example :
    (match sendFor Gen.schema Gen.m_DeleteROSpecResponse 31
        [0x01, 0x1f, 0x00, 0x12, 0x00, 0x65, 0x00, 0x02, 0x68, 0x69, 0x01, 0x20, 0x00, 0x08, 0x00, 0x03, 0x01, 0x2c] with
      | .status st (some _) => statusCode st == some 101
      | _ => false) = true := by decide +kernel

end LLRP.C12
