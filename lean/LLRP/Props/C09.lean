import LLRP.Proofs.ClientLive
import LLRP.Gen.Chans
import LLRP.Proofs.SeqSend
import LLRP.Proofs.SeqReadLoop
import LLRP.Proofs.SeqWriteLoop
/-!
# C09 — close, shutdown, failure and cancellation never leave a caller stuck

Safety formulation of liveness: *enabledness plus a variant*. The theorems are about the client LTS `LLRP.LTS`;
`Reachable s` = closure of `step` from `init` under ANY action list. What the model cannot exhibit (fairness of the Go
scheduler, `net.Conn` unblocking a blocked read when the connection ends, timers) is listed in checks/c09.py.
-/
namespace LLRP.C09
open LLRP LLRP.LTS
set_option linter.unusedVariables false

def callerProgress (s : St) (c : Nat) (a : Act) : Prop :=
  actor a = .caller c ∧ enabled s a = true ∧ rank ((step s a).callers c).pc < rank (s.callers c).pc

/-- In every state with `done` closed, every caller that has been issued and has not returned has an enabled step of
its own that makes progress. -/
theorem closed_callers_enabled (s : St) (hd : s.done = true) (c : Nat)
    (hi : (s.callers c).pc ≠ .idle) (hr : ∀ r, (s.callers c).pc ≠ .done r) : ∃ a, callerProgress s c a := by
  cases hp : (s.callers c).pc with
  | idle => exact absurd hp hi
  | done r => exact absurd hp (hr r)
  | waitReady =>
    refine ⟨.callSeeDone c, rfl, by simp [enabled, hd, hp, canLeave], ?_⟩
    simp [step, enabled, hd, hp, canLeave, eff, leave_pc, rank]
  | queued =>
    refine ⟨.callSeeDone c, rfl, by simp [enabled, hd, hp, canLeave], ?_⟩
    simp [step, enabled, hd, hp, canLeave, eff, leave_pc, rank]
  | waitReply id =>
    refine ⟨.callSeeDone c, rfl, by simp [enabled, hd, hp, canLeave], ?_⟩
    simp [step, enabled, hd, hp, canLeave, eff, leave_pc, rank]
  | waitToken id =>
    refine ⟨.callToken c, rfl, by simp [enabled, hp], ?_⟩
    simp [step, enabled, hp, eff, setC, rank]

/-- … and likewise once the caller's own context is cancelled. -/
theorem cancelled_caller_enabled (s : St) (c : Nat) (hc : (s.callers c).cancelled = true)
    (hi : (s.callers c).pc ≠ .idle) (hr : ∀ r, (s.callers c).pc ≠ .done r) : ∃ a, callerProgress s c a := by
  cases hp : (s.callers c).pc with
  | idle => exact absurd hp hi
  | done r => exact absurd hp (hr r)
  | waitReady =>
    refine ⟨.callSeeCtx c, rfl, by simp [enabled, hc, hp, canLeave], ?_⟩
    simp [step, enabled, hc, hp, canLeave, eff, leave_pc, rank]
  | queued =>
    refine ⟨.callSeeCtx c, rfl, by simp [enabled, hc, hp, canLeave], ?_⟩
    simp [step, enabled, hc, hp, canLeave, eff, leave_pc, rank]
  | waitReply id =>
    refine ⟨.callSeeCtx c, rfl, by simp [enabled, hc, hp, canLeave], ?_⟩
    simp [step, enabled, hc, hp, canLeave, eff, leave_pc, rank]
  | waitToken id =>
    refine ⟨.callToken c, rfl, by simp [enabled, hp], ?_⟩
    simp [step, enabled, hp, eff, setC, rank]


/-- number of enabled steps of caller `c` itself along a run -/
def ownSteps (c : Nat) : St → List Act → Nat
  | _, [] => 0
  | s, a :: as => (if actor a = .caller c ∧ enabled s a = true then 1 else 0) + ownSteps c (step s a) as

/-- **Variant.** Along ANY run (whatever the other actors do), the steps a caller takes itself plus its remaining rank
never exceed its rank at the start: an issued call (rank ≤ 4) returns after at most 4 steps of its own. Together with
`closed_callers_enabled` / `cancelled_caller_enabled` (an own step is enabled whenever `done` is closed or the caller's
context is cancelled) this is the liveness skeleton of "every blocked caller returns". -/
theorem caller_variant (s : St) (c : Nat) (hi : (s.callers c).pc ≠ .idle) (as : List Act) :
    ownSteps c s as + rank ((run s as).callers c).pc ≤ rank (s.callers c).pc := by
  induction as generalizing s with
  | nil => simp [ownSteps, run]
  | cons a as ih =>
    have ih' := ih (step s a) (not_idle_step s a c hi)
    simp only [ownSteps, run, List.foldl_cons] at ih' ⊢
    by_cases ho : actor a = .caller c ∧ enabled s a = true
    · have := own_step_decreases s a c ho.1 ho.2
      rw [if_pos ho]; omega
    · have := rank_mono s a c hi
      rw [if_neg ho]; omega

theorem caller_bound (s : St) (c : Nat) (hi : (s.callers c).pc ≠ .idle) (as : List Act) : ownSteps c s as ≤ 4 := by
  have := caller_variant s c hi as
  have : rank (s.callers c).pc ≤ 4 := by
    revert hi; cases (s.callers c).pc <;> simp [rank]
  omega

/-! ## Connect -/

def connProgress (s : St) (a : Act) : Prop :=
  actor a = .conn ∧ enabled s a = true ∧ connRank (step s a).conn < connRank s.conn

/-- **Connect returns.** In every reachable state in which both loops have exited, Connect — in whatever phase it is,
negotiation included — has returned or has an enabled step of its own that brings it closer to returning. -/
theorem connect_returns {s : St} (h : Reachable s) (hr : s.rd.isExited = true) (hw : s.wr.isExited = true) :
    (∃ e, s.conn = .returned e) ∨ ∃ a, connProgress s a := by
  have L := (all_reachable h).life
  have hacc : s.accepted = true := by
    cases ha : s.accepted
    · have := (L.notAcc ha).1; rw [this] at hr; simp [Rd.isExited] at hr
    · rfl
  have herrs : connLive s.conn = true → s.errs ≠ [] := by
    intro hl he
    have := L.errsCount hl
    simp [exitedCount, hr, hw, he] at this
  cases hc : s.conn with
  | off => have := L.setup (by simp [hc, connSetup]); rw [hacc] at this; cases this
  | initial => have := L.setup (by simp [hc, connSetup]); rw [hacc] at this; cases this
  | rejected => have := L.setup (by simp [hc, connSetup]); rw [hacc] at this; cases this
  | returned e => exact Or.inl ⟨e, rfl⟩
  | negIdle b =>
    have he : enabled s .connNegErrs = true := by
      have := herrs (by simp [hc, connLive]); simp [enabled, hc, this]
    exact Or.inr ⟨.connNegErrs, rfl, he, hc ▸ connect_variant s _ rfl he⟩
  | negotiating c b =>
    have he : enabled s .connNegErrs = true := by
      have := herrs (by simp [hc, connLive]); simp [enabled, hc, this]
    exact Or.inr ⟨.connNegErrs, rfl, he, hc ▸ connect_variant s _ rfl he⟩
  | readying =>
    have he : enabled s .connReady = true := by simp [enabled, hc]
    exact Or.inr ⟨.connReady, rfl, he, hc ▸ connect_variant s _ rfl he⟩
  | serving =>
    have he : enabled s .connServeErr = true := by
      have := herrs (by simp [hc, connLive]); simp [enabled, hc, this]
    exact Or.inr ⟨.connServeErr, rfl, he, hc ▸ connect_variant s _ rfl he⟩
  | waitLoops e =>
    have he : enabled s .connReturn = true := by simp [enabled, hc, hr, hw]
    exact Or.inr ⟨.connReturn, rfl, he, hc ▸ connect_variant s _ rfl he⟩
  | failing e =>
    have he : enabled s .connFailReturn = true := by simp [enabled, hc]
    exact Or.inr ⟨.connFailReturn, rfl, he, hc ▸ connect_variant s _ rfl he⟩

/-- the phases of a failed setup need no loop to make progress: after a rejected first message or a failed negotiation
Connect always has an enabled step (it does not wait for the loops) -/
theorem connect_setup_returns (s : St) (hc : s.conn = .rejected ∨ (∃ e, s.conn = .failing e) ∨ s.conn = .readying) :
    ∃ a, connProgress s a := by
  rcases hc with hc | ⟨e, hc⟩ | hc
  · have he : enabled s .connRejectReady = true := by simp [enabled, hc]
    exact ⟨_, rfl, he, connect_variant s _ rfl he⟩
  · have he : enabled s .connFailReturn = true := by simp [enabled, hc]
    exact ⟨_, rfl, he, connect_variant s _ rfl he⟩
  · have he : enabled s .connReady = true := by simp [enabled, hc]
    exact ⟨_, rfl, he, connect_variant s _ rfl he⟩

/-- **Connect's result.** At the final `select` (phase `serving`) the result is `closed` only if `done` is closed and the
first pending loop error otherwise; when exactly one of the two is pending the result is determined; when both are
pending either may be chosen (the code's `select` is a coin flip there). For every reachable state: a `closed` result
means that `Close` was called (directly or by a successful `Shutdown`); a non-closed result of an established
(negotiated) connection means that the connection failed (read or write error, EOF). -/
theorem connect_result {s : St} (h : Reachable s) :
    (s.conn = .serving → ∀ a, actor a = .conn → enabled s a = true →
      ((step s a).conn = .waitLoops .closed ∧ s.done = true) ∨ (∃ e rest, s.errs = e :: rest ∧ (step s a).conn = .waitLoops e)) ∧
    (s.conn = .serving → s.done = true → s.errs = [] → ∀ a, actor a = .conn → enabled s a = true → (step s a).conn = .waitLoops .closed) ∧
    (s.conn = .serving → s.done = false → ∀ e rest, s.errs = e :: rest → ∀ a, actor a = .conn → enabled s a = true →
      (step s a).conn = .waitLoops e) ∧
    (s.conn = .returned .closed → s.closedLocally = true) ∧
    (s.conn = .returned .fail → s.negotiated = true → s.broken = true) := by
  have O := (all_reachable h).outcome
  refine ⟨?_, ?_, ?_, fun hc => O.resClosed (Or.inr (Or.inl hc)), O.resFail⟩
  · intro hc a ha he
    unfold step; rw [if_pos he]
    cases a <;> simp [actor] at ha <;> simp [enabled, hc] at he <;> simp only [eff]
    · split
      · rename_i e rest hq; exact Or.inr ⟨e, rest, hq, rfl⟩
      · rename_i hq; simp [hq] at he
    · exact Or.inl (by simp [he])
  · intro hc hd hq a ha he
    unfold step; rw [if_pos he]
    cases a <;> simp [actor] at ha <;> simp [enabled, hc, hq] at he <;> simp only [eff]
  · intro hc hd e rest hq a ha he
    unfold step; rw [if_pos he]
    cases a <;> simp [actor] at ha <;> simp [enabled, hc, hq, hd] at he <;> simp only [eff, hq]

/-! ## late sends, second close, nothing after CloseConnection -/

/-- **Late sends fail.** Once `done` is closed, a call that has not yet been accepted by the write loop (not issued,
waiting for `ready`, or queued) can — along any continuation — only stay where it is or return the closed error (or its
own context error); its request is never given an id and never reaches the wire. -/
theorem late_sends_fail {s : St} (h : Reachable s) (hd : s.done = true) (c : Nat)
    (hp : (s.callers c).pc = .idle ∨ (s.callers c).pc = .waitReady ∨ (s.callers c).pc = .queued) (as : List Act) :
    unserved ((run s as).callers c).pc = true ∧ ((run s as).callers c).wid = none ∧
    (∀ w ∈ (run s as).written, ∀ i, w.origin ≠ .caller c i) ∧ enabled (run s as) (.wrPickReq c) = false := by
  have A := all_reachable h
  have hns : started (s.callers c).pc = false := by rcases hp with e | e | e <;> simp [e, started]
  have hl : lateInv s c := ⟨hd, (A.corr.fresh c hns).2.2, by rcases hp with e | e | e <;> simp [e, unserved]⟩
  have hl' := lateInv_run s c hl as
  refine ⟨hl'.2.2, hl'.2.1, ?_, by simp [enabled, hl'.1]⟩
  intro w hw i ho
  have := (all_reachable (reachable_run h as)).wire.wW w hw c i ho
  rw [hl'.2.1] at this; cases this

/-- a call that begins after `done` is closed returns the closed error with its first own step that looks at `done` -/
theorem late_send_first_step (s : St) (hd : s.done = true) (c : Nat)
    (hp : (s.callers c).pc = .waitReady ∨ (s.callers c).pc = .queued) :
    enabled s (.callSeeDone c) = true ∧ ((step s (.callSeeDone c)).callers c).pc = .done .closed := by
  have he : enabled s (.callSeeDone c) = true := by rcases hp with e | e <;> simp [enabled, hd, e, canLeave]
  exact ⟨he, by simp [step, he, eff, leave_pc]⟩

/-- **Second close.** `Close` on a closed client reports "already closed" (`false` in the log) and changes nothing
else; on an open client it reports nil and closes `done`; it never panics (see `no_panic`). -/
theorem second_close (s : St) :
    (s.done = true → (step s .close).closeLog = s.closeLog ++ [false] ∧ (step s .close).done = true ∧
      (step s .close).panicked = s.panicked ∧ (step s .close).callers = s.callers ∧ (step s .close).awaiting = s.awaiting) ∧
    (s.done = false → (step s .close).closeLog = s.closeLog ++ [true] ∧ (step s .close).done = true) := by
  constructor <;> intro hd <;> simp [step, enabled, eff, hd]

theorem no_panic {s : St} (h : Reachable s) : s.panicked = false :=
  (all_reachable h).corr.noPanic

/-- **Nothing after CloseConnection.** In every reachable state the CloseConnection frame, if it is on the wire, is the
last frame on the wire; and once it is there no action writes anything more. -/
theorem nothing_after_close {s : St} (h : Reachable s) :
    (∀ pre w post, s.written = pre ++ w :: post → w.f.typ = tCloseConnection → post = []) ∧
    ((∃ w ∈ s.written, w.f.typ = tCloseConnection) → ∀ a, (step s a).written = s.written) := by
  have L := (all_reachable h).life
  constructor
  · intro pre w post hs ht
    cases hp : post with
    | nil => rfl
    | cons x l =>
      exfalso
      have hm := mem_dropLast_of_split pre post w (by simp [hp])
      rw [← hs] at hm
      exact L.closeLast w hm ht
  · intro hex a
    have hw := L.closePark hex
    unfold step; split
    · rename_i he
      cases a <;> (try simp [enabled] at he) <;> (simp only [eff, leave]; repeat' split) <;> (try simp only [setC]) <;>
        grind [Wr.isExited]
    · rfl

/-! ## cancellation is isolated -/

/-- **Cancellation is isolated.** A caller that returns because its context ended (or because `done` was closed)
changes no other caller's record, ends in `done ctx`, and leaves no entry of its own in `awaiting`. Cancelling a
context (`cancel c`) itself touches nothing but `c`'s flag. -/
theorem cancel_isolated {s : St} (h : Reachable s) (c : Nat) :
    (∀ c', c' ≠ c → (step s (.callSeeCtx c)).callers c' = s.callers c') ∧
    (enabled s (.callSeeCtx c) = true → ((step s (.callSeeCtx c)).callers c).pc = .done .ctx ∧
      ∀ id, (id, c) ∉ (step s (.callSeeCtx c)).awaiting) ∧
    (∀ c', c' ≠ c → (step s (.cancel c)).callers c' = s.callers c') ∧
    (step s (.cancel c)).awaiting = s.awaiting ∧ (step s (.cancel c)).rd = s.rd ∧ (step s (.cancel c)).wr = s.wr := by
  have A := (all_reachable h).corr
  refine ⟨?_, ?_, ?_, ?_, ?_, ?_⟩
  · intro c' hne
    unfold step; split
    · simp only [eff, leave]
      split
      · rename_i id hp
        split
        · rename_i c'' hl
          have ho := A.owner id c'' (lookup_mem hl)
          have : c'' = c := A.widInj c'' c id (A.waitWid c'' id ho.1) (A.waitWid c id (Or.inr hp))
          subst this
          simp [ho.2.2, setC, hne]
        · simp [setC, hne]
      · simp [setC, hne]
    · rfl
  · intro he
    have hleft := A.owner
    refine ⟨by simp [step, he, eff, leave_pc], ?_⟩
    intro id hm
    have hc := corr_of_step (.callSeeCtx c) A
    have ho := hc.owner id c hm
    have hpc : ((step s (.callSeeCtx c)).callers c).pc = .done .ctx := by simp [step, he, eff, leave_pc]
    rcases ho.1 with e | e <;> rw [hpc] at e <;> cases e
  · intro c' hne; simp [step, enabled, eff, setC, hne]
  · simp [step, enabled, eff, setC]
  · simp [step, enabled, eff, setC]
  · simp [step, enabled, eff, setC]

/-- **A reply that arrives for a caller that has left is treated as unsolicited.** If caller `c` has returned and a frame
with the id of `c`'s request is read, the dispatch finds nothing in `awaiting`: the frame goes to the handler path, no
caller and no registration is touched, and the read loop returns to `idle` (the stream stays aligned). -/
theorem cancelled_reply_unsolicited {s : St} (h : Reachable s) (c : Nat) (r : Res) (f : Frame)
    (hp : (s.callers c).pc = .done r) (hw : (s.callers c).wid = some f.id) (hr : s.rd = .hdr f) :
    (∀ c', (f.id, c') ∉ s.awaiting) ∧ (step s .rdDispatch).rd = .handle f ∧ (step s .rdDispatch).callers = s.callers ∧
    (step s .rdDispatch).awaiting = s.awaiting ∧ (step (step s .rdDispatch) .rdHandle).rd = .idle := by
  have A := (all_reachable h).corr
  have hno : ∀ c', (f.id, c') ∉ s.awaiting := by
    intro c' hm
    have ho := A.owner f.id c' hm
    have : c' = c := A.widInj c' c f.id (A.waitWid c' f.id ho.1) hw
    subst this
    rcases ho.1 with e | e <;> rw [hp] at e <;> cases e
  have hl : lookup f.id s.awaiting = none := by
    cases hq : lookup f.id s.awaiting with
    | none => rfl
    | some c' => exact absurd (lookup_mem hq) (hno c')
  have hd : step s .rdDispatch = { s with rd := .handle f } := by
    simp only [step, enabled, hr, if_true, eff]
    split <;> simp [hl]
  refine ⟨hno, by rw [hd], by rw [hd], by rw [hd], ?_⟩
  rw [hd]; simp [step, enabled, eff]

/-! ## channel capacities: the facts of the source the step function relies on -/

/-- capacities of every creation of a channel with this element type (the channels of the client are told apart by what
they carry, not by the name of the variable or of the function that creates them, so that moving the `make` into a
helper does not change the table's meaning) -/
def capsOfElem (e : String) : List Nat := (Gen.chanMakes.filter (·.elem == e)).map (·.cap)

/-- **Channel capacities.** The `make(chan …)` expressions of the source (regenerated into `Gen.chanMakes` on every run)
have exactly the capacities the model's step function uses: the per-request reply channel 1 (`replyCap`), the token
channel 1, Connect's error channels 2 (`errsCap`, for the two loops) and 1 (negotiation), `sendQueue` 0 (rendezvous),
`ackQueue` `ackQueueSz`; each is created at one place only. -/
theorem chan_caps :
    capsOfElem "Message" = [replyCap] ∧
    capsOfElem "sendToken" = [tokenCap] ∧
    capsOfElem "request" = [sendQueueCap] ∧
    capsOfElem "messageID" = [Gen.ackQueueSz] ∧
    (Gen.chanMakes.filter (fun c => c.func == "Client.Connect" && c.elem == "error")).map (·.cap) = [errsCap, 1] := by
  decide

/-- **The hand-over of a reply never blocks.** Whenever the read loop is about to put a frame on a caller's reply
channel (`rd = deliver f c`: the entry was looked up and deleted, the payload is being read), that channel is open and
EMPTY, so the send on a channel of capacity `replyCap` = 1 is enabled — whether or not the caller is still there
(it may have left through `callSeeCtx` / `callSeeDone` in between: its `cancel()` found nothing to close). This is the
invariant `Corr.rdDel`; with an unbuffered channel the step would need the caller as a partner and the read loop would
be stuck for ever once the caller has left. -/
theorem deliver_never_blocks {s : St} (h : Reachable s) (f : Frame) (c : Nat) (hr : s.rd = .deliver f c) :
    (s.callers c).chanLen = 0 ∧ (s.callers c).chanClosed = false ∧ enabled s .rdDeliver = true ∧
    (step s .rdDeliver).rd = .handle f ∧ (step s .rdDeliver).panicked = false := by
  have A := (all_reachable h).corr
  have hd := A.rdDel f c hr
  have hl : (s.callers c).chanLen = 0 := by simp [Caller.chanLen, hd.1]
  have he : enabled s .rdDeliver = true := by simp [enabled, hr, hl, replyCap]
  refine ⟨hl, hd.2.1, he, ?_, ?_⟩
  · simp [step, he, eff, hr, hd.2.1]
  · simp [step, he, eff, hr, hd.2.1, setC, A.noPanic]

/-- … in particular after the awaiting caller has been cancelled between the lookup and the hand-over: the caller is
gone, the read loop still has its enabled step and returns to `idle` within two steps of its own. -/
theorem deliver_after_cancel {s : St} (h : Reachable s) (f : Frame) (c : Nat) (hr : s.rd = .deliver f c) :
    let s1 := step s (.callSeeCtx c)
    s1.rd = .deliver f c ∧ enabled s1 .rdDeliver = true ∧ (step (step s1 .rdDeliver) .rdHandle).rd = .idle := by
  have h1 : Reachable (step s (.callSeeCtx c)) := Reachable.step _ h
  have hrd : (step s (.callSeeCtx c)).rd = .deliver f c := by
    unfold step; split
    · simp only [eff, leave]; (repeat' split) <;> simp [setC, hr]
    · exact hr
  obtain ⟨_, _, he, hh, _⟩ := deliver_never_blocks h1 f c hrd
  refine ⟨hrd, he, ?_⟩
  generalize step (step s (.callSeeCtx c)) .rdDeliver = s2 at hh
  simp [step, enabled, hh, eff]

/-- **The loops' reports never block.** The reports queued in `errs` never outnumber the loops that have exited, and
there are two loops: a loop that exits always finds room in a channel of capacity `errsCap` = 2, also when Connect has
already returned and nobody listens. -/
theorem errs_never_full {s : St} (h : Reachable s) :
    s.errs.length ≤ exitedCount s ∧ exitedCount s ≤ errsCap ∧
    (s.rd.isExited = false ∨ s.wr.isExited = false → s.errs.length < errsCap) := by
  have hi := errsInv_reachable h
  unfold ErrsInv at hi
  refine ⟨hi, ?_, ?_⟩
  · simp only [exitedCount, errsCap]; split <;> split <;> omega
  · intro hx
    simp only [exitedCount, errsCap] at hi ⊢
    rcases hx with hx | hx <;> simp [hx] at hi <;> split at hi <;> omega

/-! ## the session monitor is sound -/

/-- `check-c09` accepts the observation of every reachable state of the model in which an established (negotiated)
connection has ended — Connect has returned — and the observed callers have returned. (That they *do* return is the
variant + enabledness part; the monitor's `caller-stuck` / `connect-stuck` clauses catch the real client when it does not.) -/
theorem monitor_sound {s : St} (h : Reachable s) (cs : List Nat) (hn : s.negotiated = true)
    (hret : ∃ e, s.conn = .returned e) (hcs : ∀ c ∈ cs, ∃ r, (s.callers c).pc = .done r) :
    check09 (obs09Of s cs) = none := by
  have A := all_reachable h
  obtain ⟨e, hc⟩ := hret
  have hrob : ∀ c ∈ cs, robsOf (s.callers c).pc ≠ .timeout ∧ robsOf (s.callers c).pc ≠ .panic ∧
      robsOf (s.callers c).pc ≠ .other ∧ (robsOf (s.callers c).pc = .ctx → (s.callers c).cancelled = true) := by
    intro c hm
    obtain ⟨r, hr⟩ := hcs c hm
    have hz := A.corr.noZero c
    have hx := A.outcome.callCtx c
    rw [hr] at hz hx ⊢
    cases r <;> simp [robsOf] at hz hx ⊢
    exact hx
  have h1 : (obs09Of s cs).callers.any (fun c => c.2 == .timeout) = false := by
    simp only [obs09Of, List.any_map, List.any_eq_false]
    intro c hm; simpa using (hrob c hm).1
  have h2 : (obs09Of s cs).callers.any (fun c => c.2 == .panic) = false := by
    simp only [obs09Of, List.any_map, List.any_eq_false]
    intro c hm; simpa using (hrob c hm).2.1
  have h3 : (obs09Of s cs).callers.any (fun c => c.2 == .ctx && !c.1) = false := by
    simp only [obs09Of, List.any_map, List.any_eq_false]
    intro c hm
    have := (hrob c hm).2.2.2
    simp only [Function.comp]
    cases hq : robsOf (s.callers c).pc <;> simp
    exact this hq
  have h4 : (obs09Of s cs).callers.any (fun c => c.2 == .other) = false := by
    simp only [obs09Of, List.any_map, List.any_eq_false]
    intro c hm; simpa using (hrob c hm).2.2.1
  have h5 : (obs09Of s cs).connect = some e := by simp [obs09Of, hc]
  have h6 : afterClose (obs09Of s cs).wire = true := afterClose_of A.life.closeLast
  unfold check09
  rw [h1, h2, h3, h4, h5]
  cases e with
  | closed =>
    have := A.outcome.resClosed (Or.inr (Or.inl hc))
    simp [obs09Of, this] at h6 ⊢; exact h6
  | fail =>
    have := A.outcome.resFail hc hn
    simp [obs09Of, this] at h6 ⊢; exact h6

/-! ## non-vacuity -/

/-- the design-phase history: the peer closes during negotiation; both loops exit, Connect returns the failure and the
early caller is released with the closed error -/
def demoNegFail : List Act :=
  [.callIssue 1 2 1001 false, .connStart, .peerSend { typ := 63, id := 0 }, .connInitial true true,
   .connNegSend 900 46 0, .wrPickReq 900, .wrWrite, .callToken 900, .peerClose, .rdEof,
   .connNegErrs, .connFailReturn, .callSeeDone 1, .callSeeDone 900, .wrSeeDone]

example : (run init demoNegFail).conn = .returned .fail ∧ ((run init demoNegFail).callers 1).pc = .done .closed ∧
    (run init demoNegFail).rd.isExited = true ∧ (run init demoNegFail).wr.isExited = true := by decide

/-- a state with both loops exited in which Connect is still negotiating: `connect_returns` gives it a step -/
def demoMid : List Act := demoNegFail.take 10 ++ [.close, .wrSeeDone]
example : (run init demoMid).conn = .negotiating 900 false ∧ (run init demoMid).rd.isExited = true ∧
    (run init demoMid).wr.isExited = true ∧ enabled (run init demoMid) .connNegErrs = true := by decide
example : Reachable (run init demoMid) := reachable_run .init _

/-- a graceful session: request/reply, Shutdown (CloseConnection, reply, Close), loops exit, Connect returns closed -/
def demoShutdown : List Act :=
  [.connStart, .peerSend { typ := 63, id := 0 }, .connInitial true false, .connReady,
   .callIssue 1 14 0 false, .callReady 1, .wrPickReq 1, .wrWrite, .callToken 1,
   .peerSend { typ := 4, id := 0 }, .rdHeader, .rdDispatch, .rdDeliver, .rdHandle, .callGetReply 1, .close,
   .peerClose, .rdEof, .rdWaitDone, .wrParkedDone, .connServeDone, .connReturn, .close]

example : (run init demoShutdown).conn = .returned .closed ∧ (run init demoShutdown).closeLog = [true, false] ∧
    (run init demoShutdown).negotiated = true := by decide
example : check09 (obs09Of (run init demoShutdown) [1]) = none := by decide
example : check09 ⟨[(false, .timeout)], none, false, true, [46]⟩ = some "caller-stuck" := by decide

/-- a KeepAlive crosses the CloseConnection: its ack is queued when the write loop parks, and stays unwritten -/
def demoCrossing : List Act :=
  [.connStart, .peerSend { typ := 63, id := 0 }, .connInitial true false, .connReady,
   .callIssue 1 14 0 false, .callReady 1, .wrPickReq 1,
   .peerSend { typ := 62, id := 70 }, .rdHeader, .rdDispatch, .rdHandle, .wrWrite]
example : (run init demoCrossing).wr = .parked ∧ (run init demoCrossing).ackQ = [70] ∧
    (run init demoCrossing).written.map (·.f.typ) = [14] ∧ enabled (run init demoCrossing) .wrPickAck = false := by decide
example : Reachable (run init demoCrossing) := reachable_run .init _

/-- the caller is cancelled between the lookup of its reply and the hand-over: the read loop is not blocked -/
def demoCancelMid : List Act :=
  [.connStart, .peerSend { typ := 63, id := 0 }, .connInitial true false, .connReady,
   .callIssue 1 2 1001 false, .callReady 1, .wrPickReq 1, .wrWrite, .callToken 1,
   .peerSend { typ := 12, id := 0, pay := 5 }, .rdHeader, .rdDispatch, .cancel 1, .callSeeCtx 1]
example : (run init demoCancelMid).rd = .deliver { typ := 12, id := 0, pay := 5 } 1 ∧
    ((run init demoCancelMid).callers 1).pc = .done .ctx ∧ enabled (run init demoCancelMid) .rdDeliver = true ∧
    (run init (demoCancelMid ++ [.rdDeliver, .rdHandle])).rd = .idle := by decide

/-- the end of the stream is the orderly end only after a CloseConnectionResponse to a CloseConnection **this client
wrote**: if none was written (e.g. a `Shutdown` that gave up before its request reached the write loop), the read loop
ends with a failure even though a CloseConnectionResponse was received, so `Connect` returns instead of waiting -/
theorem unrequested_close_response_fails (s : St) (h : closeSent s = false) :
    (eff s .rdEof).rd = .exited .fail ∧ (eff s .rdEof).broken = true := by
  simp [eff, h]

/-! ## `send` and the read loop as translated from the source (go2seq), for every environment -/

/-- a sender that finds the client closed before its request is accepted gets an error identifying the closed client -/
theorem src_send_closed (E : Gen.Env_llrp_Client_send) (w : E.World) (ctx : E.context_Context) (m : E.Message)
    (hsel : (E.select_1 (E.context_Context_Done_1 (E.make_Chan_sendToken w 1).1 ctx).1
              (E.Client_done (E.context_Context_Done_1 (E.make_Chan_sendToken w 1).1 ctx).1)
              (E.context_Context_Done_1 (E.make_Chan_sendToken w 1).1 ctx).2
              (E.Client_sendQueue (E.context_Context_Done_1 (E.make_Chan_sendToken w 1).1 ctx).1)
              (E.set_request_tokenChan (E.set_request_msg E.zero_request m) (E.make_Chan_sendToken w 1).2)).2 = 0) :
    GoSeq.GoErr.is (Gen.llrp_Client_send E w ctx m).2.2 (.global "ErrClientClosed") = true :=
  SeqClient.send_closed_before E w ctx m hsel

/-- `send` reports success only with a reply received from the reply channel of its own token -/
theorem src_send_success_only_by_reply (E : Gen.Env_llrp_Client_send) (w : E.World) (ctx : E.context_Context) (m : E.Message)
    (hctx1 : ∀ w c, (E.context_Context_Err_1 w c).2 ≠ .nil) (hctx2 : ∀ w c, (E.context_Context_Err_2 w c).2 ≠ .nil)
    (h : (Gen.llrp_Client_send E w ctx m).2.2 = .nil) :
    ∃ w1 tok w2, (Gen.llrp_Client_send E w ctx m).2.1 = (E.selrecv_2_2 w2 (E.get_sendToken_replyChan tok)).2.1 ∧
      (E.recv_Chan_sendToken w1 (E.make_Chan_sendToken w 1).2).2.1 = tok :=
  SeqClient.send_success_only_by_reply E w ctx m hctx1 hctx2 h

/-- closure requested locally on a healthy connection: the read loop, finding `done` closed at the top of an iteration,
returns `ErrClientClosed` without reading -/
theorem src_read_loop_done (E : Gen.Env_llrp_Client_handleIncoming) (fuel : Nat) (w : E.World) (rc : Bool)
    (hsel : (E.select_1 w (E.Client_done w)).2 = 0) :
    Gen.llrp_Client_handleIncoming_loop1 E (fuel + 1) w rc
      = some ((E.select_1 w (E.Client_done w)).1, .global "ErrClientClosed") :=
  SeqClient.handleIncoming_done E fuel w rc hsel

/-- the connection failed first: a failing read (no CloseConnectionResponse seen) ends the read loop with the failure,
not with `ErrClientClosed` -/
theorem src_read_loop_failure (E : Gen.Env_llrp_Client_handleIncoming) (fuel : Nat) (w : E.World)
    (hsel : (E.select_1 w (E.Client_done w)).2 ≠ 0)
    (herr : (E.Client_readHeader_1 (E.select_1 w (E.Client_done w)).1).2.2 ≠ .nil) :
    Gen.llrp_Client_handleIncoming_loop1 E (fuel + 1) w false
      = some ((E.Client_readHeader_1 (E.select_1 w (E.Client_done w)).1).1, .new "failed to get next message: %v") :=
  SeqClient.handleIncoming_read_error E fuel w hsel herr

/-! ## the write loop as translated from the source

`Gen.llrp_Client_handleOutgoing` is the go2seq translation of the write loop (regenerated from `reader.go` on every run);
`SeqWrite.woEnv O` is an environment whose every choice (which `select` case proceeds, the ids in the ack queue, the
requests in the send queue, failing writes, `c.ver()`, the timeout) is read from the oracle `O`, and which logs what the
loop does; `SeqWrite.mrun` is the monitor over that log (`SeqWrite.mstep` states the rules). The theorem holds for every
oracle and every number of iterations. -/

/-- once a CloseConnection header is written the translated write loop dequeues, registers and writes nothing more,
and it waits for `done` only then (`mstep`: every case requires `!closed`; `waitDone` requires `closed`) -/
theorem src_parks_after_close (O : SeqWrite.Oracle) (fuel : Nat) (w' : SeqWrite.WW) (e : GoSeq.GoErr)
    (h : Gen.llrp_Client_handleOutgoing (SeqWrite.woEnv O) fuel {} = some (w', e)) : (SeqWrite.mrun w'.log).ok = true :=
  SeqWrite.src_write_loop_monitor O fuel w' e h

/-- the write loop never returns success, for every environment structure -/
theorem src_write_loop_never_nil (E : Gen.Env_llrp_Client_handleOutgoing) (fuel : Nat) (w : E.World) (next : Int)
    (w' : E.World) (e : GoSeq.GoErr) (h : Gen.llrp_Client_handleOutgoing_loop1 E fuel w next = some (w', e)) : e ≠ .nil :=
  SeqWrite.write_loop_never_nil E fuel w next w' e h

end LLRP.C09
