import LLRP.Model.ClientLTS
import LLRP.Model.ClientMon
/-! # C09 — close, shutdown, failure and cancellation never leave a caller stuck (work in progress) -/
namespace LLRP.C09
open LLRP LLRP.LTS

theorem placeholder : True := trivial

end LLRP.C09
