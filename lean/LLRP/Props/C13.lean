import LLRP.Model.Forward
/-!
# C13 — Every tag report and reader event reaches EdgeX exactly once

Theorems about `Forward.forward`: readings are exactly the publishable frames, per device, whatever the interleaving
of the devices' streams; an undecodable message contributes nothing and does not disturb later ones. The tie to
device.go is the differential run against real `LLRPDevice`s fed by scripted readers (multiset comparison, because the
service hands readings to EdgeX from separate goroutines).
-/
namespace LLRP.C13
open LLRP LLRP.Forward

/-- exactly once: the number of readings is the number of publishable frames -/
theorem count_exact (S : Schema) (evs : List Event) :
    (forward S evs).length = (evs.filter fun e => (publish S e.2.1 e.2.2).isSome).length := by
  induction evs with
  | nil => rfl
  | cons e es ih =>
    unfold forward at *
    cases h : publish S e.2.1 e.2.2 <;> simp [List.filterMap_cons, List.filter_cons, h, ih]

/-- per device, readings depend only on that device's own stream: other devices' traffic neither adds, removes nor
reorders them (any interleaving) -/
theorem per_device (S : Schema) (evs : List Event) (d : Nat) :
    (forward S evs).filter (fun r => r.dev = d) = forward S (evs.filter fun e => e.1 = d) := by
  induction evs with
  | nil => rfl
  | cons e es ih =>
    unfold forward at *
    by_cases hd : e.1 = d
    · cases h : publish S e.2.1 e.2.2 <;> simp [List.filterMap_cons, List.filter_cons, h, hd, ih]
    · cases h : publish S e.2.1 e.2.2 <;> simp [List.filterMap_cons, List.filter_cons, h, hd, ih]

/-- the readings of an interleaving are a permutation-invariant function of the events: two interleavings of the same
per-device streams publish the same multiset -/
theorem interleaving_irrelevant (S : Schema) (evs evs' : List Event) (h : evs.Perm evs') :
    (forward S evs).Perm (forward S evs') := by
  unfold forward
  exact h.filterMap _

/-- attribution and content: every reading comes from a frame received on that device's connection, carries the
resource name of that frame's type, and its content is the decoded message -/
theorem attribution (S : Schema) (evs : List Event) (r : Reading) (hr : r ∈ forward S evs) :
    ∃ e ∈ evs, e.1 = r.dev ∧ publish S e.2.1 e.2.2 = some (r.resource, r.content) := by
  unfold forward at hr
  rw [List.mem_filterMap] at hr
  obtain ⟨e, he, hm⟩ := hr
  cases hp : publish S e.2.1 e.2.2 with
  | none => simp [hp] at hm
  | some rc =>
    simp only [hp, Option.map_some, Option.some.injEq] at hm
    subst hm
    exact ⟨e, he, rfl, by rw [hp]⟩

theorem content_is_decoded (S : Schema) (typ : Nat) (payload : Bytes) (res : String) (content : Bytes)
    (h : publish S typ payload = some (res, content)) :
    ∃ name c v, resourceOf typ = some (res, name) ∧ S.msg? name = some c ∧ decode S c payload = some v ∧
      content = encode S c v := by
  unfold publish at h
  cases hr : resourceOf typ with
  | none => simp [hr] at h
  | some rn =>
    obtain ⟨res', name⟩ := rn
    simp only [hr] at h
    cases hc : S.msg? name with
    | none => simp [hc] at h
    | some c =>
      simp only [hc, Option.map_eq_some_iff] at h
      obtain ⟨v, hv, heq⟩ := h
      simp only [Prod.mk.injEq] at heq
      exact ⟨name, c, v, by rw [heq.1], hc, hv, heq.2.symm⟩

/-- only tag reports and reader events are published, under the documented resource names -/
theorem only_reports_and_events (S : Schema) (typ : Nat) (payload : Bytes) (res : String) (content : Bytes)
    (h : publish S typ payload = some (res, content)) :
    (typ = 61 ∧ res = "ROAccessReport") ∨ (typ = 63 ∧ res = "ReaderEventNotification") := by
  obtain ⟨name, c, v, hr, _⟩ := content_is_decoded S typ payload res content h
  unfold resourceOf msgROAccessReport msgReaderEventNotification at hr
  by_cases h1 : typ = 61
  · simp [h1, Gen.drv_ResourceROAccessReport] at hr; exact Or.inl ⟨h1, hr.1.symm⟩
  · by_cases h2 : typ = 63
    · simp [h2, Gen.drv_ResourceReaderNotification] at hr; exact Or.inr ⟨h2, hr.1.symm⟩
    · simp [h1, h2] at hr

/-- a message that fails to decode (or is of another type) is dropped without affecting the others -/
theorem bad_message_skipped (S : Schema) (before after : List Event) (e : Event)
    (h : publish S e.2.1 e.2.2 = none) :
    forward S (before ++ e :: after) = forward S before ++ forward S after := by
  unfold forward
  simp [List.filterMap_append, List.filterMap_cons, h]

/-- the message type codes used by the model are the library's constants -/
theorem type_codes :
    Gen.msgConsts.lookup "ROAccessReport" = some msgROAccessReport ∧
    Gen.msgConsts.lookup "ReaderEventNotification" = some msgReaderEventNotification := by decide +kernel

/-! non-vacuity: a greeting event on device 0, garbage on device 1, a keep-alive, an empty report on device 1 -/
example :
    (forward Gen.schema [(0, 63, [0x00, 0xf6, 0x00, 0x16, 0x00, 0x80, 0x00, 0x0c, 0, 5, 0xab, 0xcd, 0xef, 1, 2, 3, 0x01, 0x00, 0x00, 0x06, 0, 0]),
                         (1, 61, [0xff, 0xff]), (1, 62, []), (1, 61, [])]).map (fun r => (r.dev, r.resource)) =
      [(0, "ReaderEventNotification"), (1, "ROAccessReport")] := by decide +kernel

end LLRP.C13
