import LLRP.Model.Header
import LLRP.Proofs.Bytes
import LLRP.Proofs.HeaderGen
import LLRP.Gen.MsgTables
import LLRP.Gen.Schema
/-!
# C19 — Message header codec and message-type tables are exact and consistent

Header theorems are about the hand-written `Header` model (tied to `messages.go`/`reader.go` by the exhaustive
correspondence) and the go2lean translation of `validateHeader`/`IsValid`. Table theorems are `decide`d over the
tables regenerated from the source on every run (`Gen.mirrorType`, `Gen.newInstance`, `Gen.typeMethods`,
`Gen.schema`).
-/
namespace LLRP.C19
open LLRP

/-! ## header decode -/

/-- Every header of at least 10 bytes decodes to: version = bits 3–5 of byte 0, type = low 10 bits of the first
two bytes, payload length = 32-bit length − 10, id = last four bytes; lengths below 10 are rejected. -/
theorem hdr_decode (b0 b1 l0 l1 l2 l3 i0 i1 i2 i3 : UInt8) (rest : Bytes) :
    Header.unmarshal (b0 :: b1 :: l0 :: l1 :: l2 :: l3 :: i0 :: i1 :: i2 :: i3 :: rest) =
      if be32 l0 l1 l2 l3 < 10 then none
      else some { version := ((b0 >>> 2) &&& 7).toNat,
                  typ := ((b0 &&& 3).toNat * 256 + b1.toNat),
                  payloadLen := be32 l0 l1 l2 l3 - 10,
                  id := be32 i0 i1 i2 i3 } := by
  have hv : ((b0 >>> 2) &&& 7).toNat = (b0.toNat / 4) % 8 := by
    rw [UInt8.toNat_and, UInt8.toNat_shiftRight]
    have : (7 : UInt8).toNat = 2 ^ 3 - 1 := by decide
    rw [this, Nat.and_two_pow_sub_one_eq_mod]
    simp [Nat.shiftRight_eq_div_pow]
  have ht : (b0 &&& 3).toNat * 256 + b1.toNat = be16 b0 b1 % 1024 := by
    rw [UInt8.toNat_and]
    have : (3 : UInt8).toNat = 2 ^ 2 - 1 := by decide
    rw [this, Nat.and_two_pow_sub_one_eq_mod]
    have h1 := b1.toNat_lt
    unfold be16
    omega
  simp only [Header.unmarshal, Gen.HeaderSz, hv, ht]
  by_cases h : be32 l0 l1 l2 l3 < 10 <;> simp [h]

/-- fewer than 10 bytes never decode -/
theorem hdr_short (b : Bytes) (h : b.length < 10) : Header.unmarshal b = none := by
  match b with
  | [] | [_] | [_,_] | [_,_,_] | [_,_,_,_] | [_,_,_,_,_] | [_,_,_,_,_,_] | [_,_,_,_,_,_,_]
  | [_,_,_,_,_,_,_,_] | [_,_,_,_,_,_,_,_,_] => rfl
  | _ :: _ :: _ :: _ :: _ :: _ :: _ :: _ :: _ :: _ :: _ => simp at h; omega


/-! ## header encode -/

/-- `validateHeader` (translated from the source) accepts exactly: type ≤ 1023, not reserved 900–999,
payload length ≤ 2^32 − 11 -/
theorem validate_iff (len typ : Nat) :
    Gen.llrp_validateHeader len typ = true ↔ typ ≤ 1023 ∧ ¬ (900 ≤ typ ∧ typ ≤ 999) ∧ len ≤ 4294967285 := by
  unfold Gen.llrp_validateHeader
  go_bool_arith

/-- encoding refuses exactly the reserved / out-of-range types and over-long payloads -/
theorem marshal_refuses (h : Header) :
    h.marshal = none ↔ (h.typ > 1023 ∨ (900 ≤ h.typ ∧ h.typ ≤ 999) ∨ h.payloadLen > 4294967285) := by
  have hv := validate_iff h.payloadLen h.typ
  unfold Header.marshal
  by_cases hc : Gen.llrp_validateHeader h.payloadLen h.typ = true
  · simp only [hc, if_true]
    have := hv.mp hc
    constructor
    · intro x; cases x
    · omega
  · simp only [hc]
    have : ¬ (h.typ ≤ 1023 ∧ ¬ (900 ≤ h.typ ∧ h.typ ≤ 999) ∧ h.payloadLen ≤ 4294967285) := fun x => hc (hv.mpr x)
    constructor
    · intro _; omega
    · intro _; rfl

theorem marshal_of_valid (h : Header) (hv : h.Valid) : h.marshal = some h.put := by
  obtain ⟨_, h2, h3, h4, _⟩ := hv
  unfold Header.marshal
  rw [if_pos ((validate_iff _ _).mpr ⟨h2, h3, h4⟩)]

/-- the bytes written for a valid header: `version<<10 | type`, `payloadLen + 10`, id, all big-endian -/
theorem put_of_valid (h : Header) (hv : h.Valid) :
    h.put = put16 (h.version * 1024 + h.typ) ++ put32 (h.payloadLen + 10) ++ put32 h.id := by
  obtain ⟨h1, h2, _, h4, _⟩ := hv
  unfold Header.put
  have e1 : (h.version * 1024) % 65536 = h.version * 1024 := by omega
  have e2 : (h.payloadLen + Gen.HeaderSz) % 4294967296 = h.payloadLen + 10 := by
    simp only [Gen.HeaderSz]; omega
  rw [e1, e2, shl10_or _ _ (by omega)]

/-- decoding is the exact inverse of encoding: all valid headers round-trip -/
theorem hdr_encode_decode (h : Header) (hv : h.Valid) :
    h.marshal.bind Header.unmarshal = some h := by
  rw [marshal_of_valid h hv, put_of_valid h hv]
  obtain ⟨h1, h2, h3, h4, h5⟩ := hv
  simp only [Option.bind_some, put16, put32, List.cons_append, List.nil_append, Header.unmarshal, be32_put32,
    be16_put16, byte_toNat, Gen.HeaderSz]
  have e : ¬ ((h.payloadLen + 10) % 4294967296 < 10) := by omega
  rw [if_neg e]
  cases h with
  | mk v t p i =>
    simp only [Option.some.injEq, Header.mk.injEq] at *
    refine ⟨by omega, by omega, by omega, by omega⟩

/-- `Client.writeHeader` (no validation) writes the same bytes as `Header.MarshalBinary` for every header the
latter accepts — the two hand-written copies agree -/
theorem writeHeader_eq_marshal (h : Header) (hv : h.Valid) : some (writeHeader h) = h.marshal := by
  rw [marshal_of_valid h hv]; rfl

/-- encode after decode gives the original 10 bytes with the three reserved bits cleared
(when the decoded header is one the encoder accepts) -/
theorem hdr_decode_encode (b0 b1 l0 l1 l2 l3 i0 i1 i2 i3 : UInt8) (rest : Bytes) (h : Header)
    (hd : Header.unmarshal (b0 :: b1 :: l0 :: l1 :: l2 :: l3 :: i0 :: i1 :: i2 :: i3 :: rest) = some h)
    (hok : ¬ (900 ≤ h.typ ∧ h.typ ≤ 999)) :
    h.marshal = some [byte (b0.toNat % 32), b1, l0, l1, l2, l3, i0, i1, i2, i3] := by
  have hl := be32_lt l0 l1 l2 l3
  have hi := be32_lt i0 i1 i2 i3
  simp only [Header.unmarshal, Gen.HeaderSz] at hd
  by_cases hlen : be32 l0 l1 l2 l3 < 10
  · simp [hlen] at hd
  · simp only [hlen, if_false, Option.some.injEq] at hd
    subst hd
    have hvalid : Header.Valid ⟨b0.toNat / 4 % 8, be16 b0 b1 % 1024, be32 l0 l1 l2 l3 - 10, be32 i0 i1 i2 i3⟩ := by
      refine ⟨by simp only; omega, by simp only; omega, hok, by simp only; omega, hi⟩
    rw [marshal_of_valid _ hvalid, put_of_valid _ hvalid]
    have b0lt := b0.toNat_lt; have b1lt := b1.toNat_lt
    have l0lt := l0.toNat_lt; have l1lt := l1.toNat_lt; have l2lt := l2.toNat_lt; have l3lt := l3.toNat_lt
    have i0lt := i0.toNat_lt; have i1lt := i1.toNat_lt; have i2lt := i2.toNat_lt; have i3lt := i3.toNat_lt
    simp only [put16, put32, List.cons_append, List.nil_append, Option.some.injEq, List.cons.injEq, and_true]
    have hb : ∀ (n : Nat) (b : UInt8), n % 256 = b.toNat → byte n = b := by
      intro n b hn
      rw [← byte_of_toNat b]
      apply UInt8.toNat_inj.mp
      simp only [byte_toNat]; omega
    have hlen' : be32 l0 l1 l2 l3 - 10 + 10 = be32 l0 l1 l2 l3 := by omega
    rw [hlen']
    unfold be16 be32 at *
    refine ⟨?_, hb _ _ ?_, hb _ _ ?_, hb _ _ ?_, hb _ _ ?_, hb _ _ ?_, hb _ _ ?_, hb _ _ ?_, hb _ _ ?_, hb _ _ ?_⟩
    · apply UInt8.toNat_inj.mp; simp only [byte_toNat]; omega
    all_goals omega

/-! ## the source itself: go2lean's translation of the four hand-written header functions equals the model

`Gen.llrp_Header_UnmarshalBinary`, `Gen.llrp_Header_MarshalBinary`, `Gen.llrp_Header_WriteTo` and
`Gen.llrp_Client_writeHeader` are regenerated from messages.go / reader.go on every run; these theorems carry every
statement above (and C05's use of `writeHeader`) over to the translated source. -/

theorem src_unmarshal (b : Bytes) :
    Gen.llrp_Header_UnmarshalBinary (ints b) = (Header.unmarshal b).map fieldsOf := gen_unmarshal_eq b

theorem src_marshal (h : Header) (hr : h.InRange) :
    Gen.llrp_Header_MarshalBinary h.payloadLen h.id h.typ h.version = intsOpt h.marshal := gen_marshal_eq h hr

theorem src_writeTo (h : Header) (hr : h.InRange) :
    Gen.llrp_Header_WriteTo h.payloadLen h.id h.typ h.version = intsOpt h.marshal := gen_writeTo_eq h hr

theorem src_writeHeader (h : Header) (hr : h.InRange) :
    Gen.llrp_Client_writeHeader h.payloadLen h.id h.typ h.version = some (ints (writeHeader h)) :=
  gen_writeHeader_eq h hr

/-- round trip stated purely about the translated source: what `MarshalBinary` produces, `UnmarshalBinary` reads back -/
theorem src_round_trip (h : Header) (hv : h.Valid) (b : Bytes)
    (hm : Gen.llrp_Header_MarshalBinary h.payloadLen h.id h.typ h.version = some (ints b)) (hb : h.marshal = some b) :
    Gen.llrp_Header_UnmarshalBinary (ints b) = some (fieldsOf h) := by
  have := hdr_encode_decode h hv
  rw [hb] at this
  simp only [Option.bind_some] at this
  rw [src_unmarshal, this]
  rfl

/-! ## non-vacuity -/
example : (⟨1, 63, 17, 0xDEADBEEF⟩ : Header).Valid := by decide
example : Header.unmarshal ((⟨2, 1023, 655360, 7⟩ : Header).put) = some ⟨2, 1023, 655360, 7⟩ := by decide
example : (⟨1, 950, 0, 0⟩ : Header).marshal = none := by decide

/-! ## message-type tables (regenerated from the source on every run) -/

def typeOfStruct (s : String) : Option Nat :=
  (Gen.typeMethods.find? (·.1 == s)).map (·.2)

/-- every message type the library can instantiate reports that same type code -/
theorem newInstance_type :
    ∀ e ∈ Gen.newInstance, typeOfStruct e.2 = some e.1 := by decide

/-- `NewInstance` covers every message of the table, under its table type id and struct name -/
theorem newInstance_total :
    ∀ m ∈ Gen.schema.msgs, lookup m.typeId Gen.newInstance = some m.name := by decide

/-- every `Msg…` constant equals the table's type id (constants vs yaml) -/
theorem msg_consts :
    ∀ m ∈ Gen.schema.msgs, Gen.msgConsts.lookup m.name = some m.typeId := by decide

/-- the pairing has no duplicate keys (it is a function) … -/
theorem mirror_functional : (Gen.mirrorType.map (·.1)).Nodup := by decide
/-- … is symmetric … -/
theorem mirror_symm : ∀ e ∈ Gen.mirrorType, lookup e.2 Gen.mirrorType = some e.1 := by decide
/-- … one-to-one … -/
theorem mirror_injective : (Gen.mirrorType.map (·.2)).Nodup := by decide
/-- … and covers every request that has a response: each message `XResponse` is paired with `X`
(`Header.mirrorGaps` lists the table's messages for which that fails; it is also what the oracle prints as witness) -/
theorem mirror_covers_table : mirrorGaps Gen.schema Gen.mirrorType = [] := by decide

theorem mirror_covers :
    ∀ m ∈ Gen.schema.msgs, ∀ r, requestOf Gen.schema m = some r →
      lookup r Gen.mirrorType = some m.typeId ∧ lookup m.typeId Gen.mirrorType = some r :=
  mirrorGaps_nil Gen.schema Gen.mirrorType mirror_covers_table

/-- all paired type codes are valid message types (`IsValid` translated from the source) -/
theorem mirror_valid : ∀ e ∈ Gen.mirrorType, Gen.llrp_MessageType_IsValid e.1 = true := by decide

/-- `IsValid` is exactly: 1 ≤ t ≤ 1023 and not reserved -/
theorem isValid_iff (t : Nat) :
    Gen.llrp_MessageType_IsValid t = true ↔ (1 ≤ t ∧ t ≤ 1023 ∧ ¬ (900 ≤ t ∧ t ≤ 999)) := by
  unfold Gen.llrp_MessageType_IsValid
  go_bool_arith

example : lookup 20 Gen.mirrorType = some 30 := by decide
example : (specPairs Gen.schema).length = 38 := by decide

end LLRP.C19
