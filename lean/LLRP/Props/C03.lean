import LLRP.Model.ClientLTS
import LLRP.Model.ClientMon
import LLRP.Gen.Consts
/-! # C03 — replies are delivered to the request that caused them, and only to it (work in progress) -/
namespace LLRP.C03
open LLRP LLRP.LTS

/-- the literals of the model are the constants of the source -/
theorem type_codes :
    Gen.msgConsts.lookup "KeepAlive" = some tKeepAlive ∧ Gen.msgConsts.lookup "ROAccessReport" = some tROAccessReport ∧
    Gen.msgConsts.lookup "ReaderEventNotification" = some tReaderEventNotification ∧
    Gen.msgConsts.lookup "KeepAliveAck" = some tKeepAliveAck ∧ Gen.msgConsts.lookup "CloseConnection" = some tCloseConnection ∧
    Gen.msgConsts.lookup "CloseConnectionResponse" = some tCloseConnectionResponse := by
  decide

end LLRP.C03
