import LLRP.Proofs.ClientLTS2
import LLRP.Gen.Consts
import LLRP.Proofs.SeqDispatch
/-!
# C03 — replies are delivered to the request that caused them, and only to it

All theorems are about the client LTS `LLRP.LTS` (Model/ClientLTS.lean): `Reachable s` is the closure of `step` from
`init` under ANY action list — any number of callers, any schedule of callers / read loop / write loop / Connect, any
peer (frames of any type and id at any time, in any order), any cancellations and closes.
-/
namespace LLRP.C03
open LLRP LLRP.LTS

/-- the literals of the model are the constants of the source -/
theorem type_codes :
    Gen.msgConsts.lookup "KeepAlive" = some tKeepAlive ∧ Gen.msgConsts.lookup "ROAccessReport" = some tROAccessReport ∧
    Gen.msgConsts.lookup "ReaderEventNotification" = some tReaderEventNotification ∧
    Gen.msgConsts.lookup "KeepAliveAck" = some tKeepAliveAck ∧ Gen.msgConsts.lookup "CloseConnection" = some tCloseConnection ∧
    Gen.msgConsts.lookup "CloseConnectionResponse" = some tCloseConnectionResponse := by
  decide

theorem mem_of_getElem? {α} {l : List α} {i : Nat} {a : α} (h : l[i]? = some a) : a ∈ l :=
  List.mem_of_getElem? h

/-- A caller that is done with a reply frame `f`: `f.id` is the id the write loop put into the caller's own request,
the peer sent `f`, and `f` is not a KeepAlive / ROAccessReport / ReaderEventNotification. -/
theorem reply_matches {s : St} (h : Reachable s) (c : Nat) (f : Frame) (i : Nat)
    (hd : (s.callers c).pc = .done (.reply f i)) :
    (s.callers c).wid = some f.id ∧ f ∈ s.peerSent ∧ unsolicited f.typ = false := by
  have A := all_reachable h
  obtain ⟨h1, h2, h3, _⟩ := A.corr.gotOk c f i hd
  refine ⟨h1, ?_, h2⟩
  have : f ∈ s.received ++ s.inbox := List.mem_append_left _ (mem_of_getElem? h3)
  exact A.hist.sub.subset this

/-- Every frame on the wire that stems from caller `c` carries the id recorded for `c` (`wid`): "the ID its own request
carried on the wire". -/
theorem wire_id {s : St} (h : Reachable s) (w : WFrame) (hw : w ∈ s.written) (c : Nat) (i : Bool)
    (ho : w.origin = .caller c i) : (s.callers c).wid = some w.f.id :=
  (all_reachable h).wire.wW w hw c i ho

/-- No received frame is put on two reply channels (`delivered` holds (caller, index of the received frame)). -/
theorem no_double_delivery {s : St} (h : Reachable s) : (s.delivered.map (·.2)).Nodup :=
  (all_reachable h).corr.delNodup

/-- A delivery (c, f) implies that `f` was received, that the write loop had given `c`'s request the id `f.id`
(assignment and registration precede the lookup that found `c`), and that `f` is not of an unsolicited type.
(The design's "written … before `f` was read" is not a property of the code against an arbitrary peer: ids are
predictable, and a frame with the id of a request that is registered but still being written is matched.) -/
theorem only_to_owner {s : St} (h : Reachable s) (c i : Nat) (hm : (c, i) ∈ s.delivered) :
    ∃ f, s.received[i]? = some f ∧ (s.callers c).wid = some f.id ∧ unsolicited f.typ = false :=
  (all_reachable h).corr.delOk c i hm

/-- A KeepAlive, ROAccessReport or ReaderEventNotification is never put on a reply channel, never sits in one and is
never returned to a caller — whatever its id. -/
theorem unsolicited_never_delivered {s : St} (h : Reachable s) (f : Frame) (hu : unsolicited f.typ = true) :
    (∀ c i, (c, i) ∈ s.delivered → s.received[i]? ≠ some f) ∧
    (∀ c i, (s.callers c).chan ≠ some (f, i)) ∧
    (∀ c i, (s.callers c).pc ≠ .done (.reply f i)) ∧
    (∀ c, s.rd ≠ .deliver f c) := by
  have A := (all_reachable h).corr
  refine ⟨?_, ?_, ?_, ?_⟩
  · intro c i hm he
    obtain ⟨g, hg, _, hgu⟩ := A.delOk c i hm
    rw [he] at hg; cases hg; rw [hu] at hgu; cases hgu
  · intro c i hc
    have := (A.chanOk c f i hc).2.2.1; rw [hu] at this; cases this
  · intro c i hc
    have := (A.gotOk c f i hc).2.1; rw [hu] at this; cases this
  · intro c hc
    have := (A.rdDel f c hc).2.2.2.1; rw [hu] at this; cases this

/-- No caller ever receives the zero `Message` of a reply channel closed without a value: a reply is always a frame
the peer sent. -/
theorem no_fabricated_reply {s : St} (h : Reachable s) (c : Nat) : (s.callers c).pc ≠ .done .zero :=
  (all_reachable h).corr.noZero c

theorem snd_inj_of_nodup {l : List (Nat × Nat)} (hn : (l.map (·.2)).Nodup) {c c' i : Nat}
    (h1 : (c, i) ∈ l) (h2 : (c', i) ∈ l) : c = c' := by
  induction l with
  | nil => cases h1
  | cons e l ih =>
    simp only [List.map_cons, List.nodup_cons] at hn
    rcases List.mem_cons.mp h1 with e1 | m1 <;> rcases List.mem_cons.mp h2 with e2 | m2
    · rw [← e1] at e2; exact (Prod.mk.inj e2).1.symm
    · exfalso; apply hn.1; rw [← e1]; exact List.mem_map.mpr ⟨(c', i), m2, rfl⟩
    · exfalso; apply hn.1; rw [← e2]; exact List.mem_map.mpr ⟨(c, i), m1, rfl⟩
    · exact ih hn.2 m1 m2

/-- Two different callers never hold the same received frame as their replies. -/
theorem distinct_callers_distinct_frames {s : St} (h : Reachable s) (c c' : Nat) (f f' : Frame) (i i' : Nat)
    (hne : c ≠ c') (hd : (s.callers c).pc = .done (.reply f i)) (hd' : (s.callers c').pc = .done (.reply f' i')) :
    i ≠ i' := by
  have A := (all_reachable h).corr
  intro e; subst e
  exact hne (snd_inj_of_nodup A.delNodup (A.gotOk c f i hd).2.2.2 (A.gotOk c' f' i hd').2.2.2)

/-- No Go-level fault (send on a closed reply channel, double close of a reply channel) is reachable. -/
theorem no_panic {s : St} (h : Reachable s) : s.panicked = false :=
  (all_reachable h).corr.noPanic

/-! ## the monitor is sound: every reachable state of the model is accepted -/

theorem nodupB_iff (l : List Nat) : nodupB l = true ↔ l.Nodup := by
  induction l with
  | nil => simp [nodupB]
  | cons x l ih => simp [nodupB, ih, List.nodup_cons]

theorem nodup_filterMap {α β} (g : α → Option β) (l : List α) (hl : l.Nodup)
    (hinj : ∀ a ∈ l, ∀ a' ∈ l, ∀ b, g a = some b → g a' = some b → a = a') : (l.filterMap g).Nodup := by
  induction l with
  | nil => simp
  | cons a l ih =>
    have hl' := List.nodup_cons.mp hl
    have ih' := ih hl'.2 (fun x hx y hy b => hinj x (List.mem_cons_of_mem _ hx) y (List.mem_cons_of_mem _ hy) b)
    cases hg : g a with
    | none => rw [List.filterMap_cons_none hg]; exact ih'
    | some b =>
      rw [List.filterMap_cons_some hg]
      refine List.nodup_cons.mpr ⟨?_, ih'⟩
      intro hm
      obtain ⟨a', ha', hga'⟩ := List.mem_filterMap.mp hm
      have := hinj a List.mem_cons_self a' (List.mem_cons_of_mem _ ha') b hg hga'
      exact hl'.1 (this ▸ ha')

theorem idx_inj_of_nodup_map {α β} (g : α → β) {l : List α} (hn : (l.map g).Nodup) {i j : Nat} {a b : α}
    (hi : l[i]? = some a) (hj : l[j]? = some b) (hg : g a = g b) : i = j := by
  induction l generalizing i j with
  | nil => simp at hi
  | cons x l ih =>
    simp only [List.map_cons, List.nodup_cons] at hn
    cases i with
    | zero =>
      cases j with
      | zero => rfl
      | succ j =>
        simp at hi hj; subst hi
        exfalso; apply hn.1; rw [hg]; exact List.mem_map.mpr ⟨b, List.mem_of_getElem? hj, rfl⟩
    | succ i =>
      cases j with
      | zero =>
        simp at hi hj; subst hj
        exfalso; apply hn.1; rw [← hg]; exact List.mem_map.mpr ⟨a, List.mem_of_getElem? hi, rfl⟩
      | succ j =>
        simp at hi hj
        rw [ih hn.2 hi hj]

/-- `check-c03` accepts the observation of every reachable state of the model, for any list of distinct callers,
provided the peer's payload tokens are pairwise distinct (the monitor rejects observations where they are not). -/
theorem monitor_sound {s : St} (h : Reachable s) (cs : List Nat) (hcs : cs.Nodup)
    (htok : (s.peerSent.map (·.pay)).Nodup) : check03 (obsOf s cs) = none := by
  have A := all_reachable h
  have hsub : (s.received.map (·.pay)).Nodup :=
    List.Nodup.sublist (List.Sublist.map _ (List.Sublist.trans (List.sublist_append_left _ _) A.hist.sub)) htok
  have h1 : nodupB ((obsOf s cs).peer.map (·.pay)) = true := (nodupB_iff _).mpr htok
  have h2 : (obsOf s cs).callers.all (replyOk (obsOf s cs).peer) = true := by
    simp only [obsOf, List.all_map, List.all_eq_true]
    intro c _
    simp only [Function.comp, replyOk, cobsOf]
    cases hp : (s.callers c).pc with
    | done r =>
      cases r with
      | reply f i =>
        obtain ⟨hw, hf, hu⟩ := reply_matches h c f i hp
        simp only [List.any_eq_true]
        exact ⟨f, hf, by simp [hw, hu]⟩
      | _ => rfl
    | _ => rfl
  have h3 : nodupB (replyPays (obsOf s cs).callers) = true := by
    rw [nodupB_iff]
    simp only [obsOf, replyPays, List.filterMap_map]
    apply nodup_filterMap _ cs hcs
    intro c _ c' _ b hb hb'
    simp only [Function.comp, cobsOf] at hb hb'
    cases hp : (s.callers c).pc with
    | done r =>
      cases r with
      | reply f i =>
        cases hp' : (s.callers c').pc with
        | done r' =>
          cases r' with
          | reply f' i' =>
            rw [hp] at hb; rw [hp'] at hb'
            simp at hb hb'
            by_cases hcc : c = c'
            · exact hcc
            · exfalso
              have hne := distinct_callers_distinct_frames h c c' f f' i i' hcc hp hp'
              have g1 := (A.corr.gotOk c f i hp).2.2.1
              have g2 := (A.corr.gotOk c' f' i' hp').2.2.1
              exact hne (idx_inj_of_nodup_map (·.pay) hsub g1 g2 (by simp [hb, hb']))
          | _ => rw [hp'] at hb'; simp at hb'
        | _ => rw [hp'] at hb'; simp at hb'
      | _ => rw [hp] at hb; simp at hb
    | _ => rw [hp] at hb; simp at hb
  simp [check03, h1, h2, h3]

/-! ## non-vacuity: a reachable state in which a colliding KeepAlive went to the handler and the reply to its owner -/

def demo : List Act :=
  [.connStart, .peerSend { typ := 63, id := 0 }, .connInitial true false, .connReady,
   .callIssue 1 2 1001 false, .callReady 1, .wrPickReq 1, .wrWrite, .callToken 1,
   .peerSend { typ := 62, id := 0, pay := 5 }, .rdHeader, .rdDispatch, .rdHandle,
   .peerSend { typ := 12, id := 0, pay := 6 }, .rdHeader, .rdDispatch, .rdDeliver, .rdHandle, .callGetReply 1]

example : ((run init demo).callers 1).pc = .done (.reply { typ := 12, id := 0, pay := 6 } 1) := by decide
example : Reachable (run init demo) := reachable_run .init demo
example : (run init demo).ackQ = [0] ∧ (run init demo).delivered = [(1, 1)] := by decide
example : check03 (obsOf (run init demo) [1]) = none := by decide
/-- the monitor rejects the observation of the unrepaired client (the KeepAlive returned as the reply) -/
example : check03 ⟨[{ typ := 62, id := 0, pay := 5 }, { typ := 12, id := 0, pay := 6 }], [⟨some 0, some (62, 5)⟩]⟩
    = some "reply-not-own" := by decide

/-! ## the dispatcher as translated from the source

`Gen.llrp_Client_passToHandler` is the go2seq translation of `Client.passToHandler` (regenerated from `reader.go` on
every run, deferred drain included). The theorem quantifies over the whole environment: every await map, every channel
behaviour, every handler. -/

/-- **A keep-alive, tag report or reader event is never handed to a caller as its reply, even if its ID equals that of
an outstanding request** — at the level of the translated source: for these three types `passToHandler` neither looks
the ID up in the await map, nor deletes from it, nor sends on or closes any reply channel (replacing those operations
by anything leaves its behaviour unchanged). The three type codes are the regenerated constants. -/
theorem src_unsolicited_never_matched (E : Gen.Env_llrp_Client_passToHandler) (w : E.World) (hdr : E.Header)
    (h : E.get_Header_typ hdr = 62 ∨ E.get_Header_typ hdr = 61 ∨ E.get_Header_typ hdr = 63)
    (idx : E.Map_messageID_Chan_Message → Int → E.Chan_Message × Bool)
    (del : E.World → E.Map_messageID_Chan_Message → Int → E.World)
    (snd : E.World → E.Chan_Message → E.Message → E.World) (cls : E.World → E.Chan_Message → E.World)
    (lk ulk : E.World → E.sync_Mutex → E.World) :
    Gen.llrp_Client_passToHandler { E with index_Map_messageID_Chan_Message := idx, delete_Map_messageID_Chan_Message := del, send_Chan_Message := snd, close_Chan_Message := cls, sync_Mutex_Lock_1 := lk, sync_Mutex_Unlock_1 := ulk } w hdr
      = Gen.llrp_Client_passToHandler E w hdr :=
  SeqClient.passToHandler_unsolicited E w hdr h idx del snd cls lk ulk

theorem src_unsolicited_consts : (LTS.tKeepAlive : Int) = 62 ∧ (LTS.tROAccessReport : Int) = 61 ∧
    (LTS.tReaderEventNotification : Int) = 63 ∧
    Gen.msgConsts.lookup "KeepAlive" = some 62 ∧ Gen.msgConsts.lookup "ROAccessReport" = some 61 ∧
    Gen.msgConsts.lookup "ReaderEventNotification" = some 63 := SeqClient.unsolicited_consts

end LLRP.C03
