import LLRP.Model.ReadStages
namespace LLRP.C10
end LLRP.C10
