import LLRP.Proofs.ReadSide
import LLRP.Gen.Schema
import LLRP.Gen.ReadFacts
import LLRP.Proofs.SeqReadLoop
import LLRP.Proofs.SeqDispatchEq
/-!
# C10 — a hostile or broken peer cannot crash, wedge or balloon the client

Theorems about the read-side fold on ARBITRARY byte streams (`LLRP.ReadSide.rd`), the stage functions that consume
peer-controlled input outside the loop (`checkInitial`, `gsvReply`, `spvReply`, `sendMessageReply`, `shutdownReply`,
all through `msgData` = `Message.data()`), and their composition `connect`. The models describe reader.go/messages.go
after the three C10 repairs and are tied to the code by the C10 differential run (mutated session transcripts in child
processes). Decoder behaviour on malformed payloads is C11's (`decode` is total: value or error).
-/
namespace LLRP.C10
open LLRP LLRP.ReadSide

/-! ## what the fold takes for granted about handlers

`rd` treats a handler call as a step that returns (or panics). For handlers installed by the user that is their
documented contract ("a handler blocks reads from making progress"). For the one handler the library installs itself —
`ackHandler`, run for every KeepAlive — it is a fact about the source, regenerated on every run: its only channel send
is the communication of a `select` with a `default` clause, it contains no receive, no `select` without `default`, no
range over a channel, no `go`, and calls nothing but `panic`. Were the send blocking, a peer that stops reading and
then hangs up would leave the read goroutine parked on the full ack queue for ever (nobody drains it once the write
loop has exited) and `Connect` stuck in `wg.Wait()`: `ends_with_error` would be false of the code. -/

/-- **ack_handler_nonblocking** (regenerated fact): the built-in KeepAlive handler cannot block the read goroutine -/
theorem ack_handler_nonblocking :
    Gen.ack_sends = Gen.ack_guardedSends ∧ Gen.ack_otherBlocking = [] ∧ Gen.ack_calls = [] := by decide

/-- (regenerated fact) `handleGuarded` defers a `recover()` before calling the handler: the model's `guarded` -/
theorem handle_guarded_recovers : Gen.guard_recovers = true ∧ Gen.guard_callsHandler = true := by decide

/-- **rd_no_panic**: for every byte stream, handler table, await history and handler behaviour — panicking handlers
included — no panic leaves the read loop -/
theorem rd_no_panic (cfg : Cfg) (env : Nat → Step) (a0 : List Nat) (s : Bytes) : (rd cfg env a0 s).fin ≠ .panic := by
  rcases rdLoop_fin cfg env (s.length + 1) 0 0 a0 false s (Nat.lt_succ_self _) with h | ⟨h, _⟩ <;>
  · unfold rd; rw [h]; decide

/-- the loop reaches a verdict on every stream (the model's fuel is never the reason it stops) -/
theorem rd_total (cfg : Cfg) (env : Nat → Step) (a0 : List Nat) (s : Bytes) : (rd cfg env a0 s).fin ≠ .fuel := by
  rcases rdLoop_fin cfg env (s.length + 1) 0 0 a0 false s (Nat.lt_succ_self _) with h | ⟨h, _⟩ <;>
  · unfold rd; rw [h]; decide

/-- **ends_with_error** (loop): when the stream is exhausted and this client has not itself asked to close, the loop
returns an error — whatever was in the stream, CloseConnectionResponse messages included -/
theorem ends_with_error (cfg : Cfg) (env : Nat → Step) (a0 : List Nat) (s : Bytes) (hc : cfg.closing = false) :
    (rd cfg env a0 s).fin = .err := by
  rcases rdLoop_fin cfg env (s.length + 1) 0 0 a0 false s (Nat.lt_succ_self _) with h | ⟨_, h⟩
  · exact h
  · rw [hc] at h; cases h

/-- the only other way the loop ends: waiting for the local close, and only while a local Shutdown is in progress -/
theorem wait_only_when_closing (cfg : Cfg) (env : Nat → Step) (a0 : List Nat) (s : Bytes) :
    (rd cfg env a0 s).fin = .err ∨ ((rd cfg env a0 s).fin = .waitDone ∧ cfg.closing = true) :=
  rdLoop_fin cfg env (s.length + 1) 0 0 a0 false s (Nat.lt_succ_self _)

/-- **alloc_bounded** (loop): every size passed to `make` while serving is at most MaxBufferedPayloadSz — the 10-byte
header buffers, the reply buffers, and what a handler allocates when it obtains the payload with `msg.UnmarshalTo` /
`msg.data()` (behaviour `viaData`, on a payload that is still on the connection) — whatever length the headers declare -/
theorem alloc_bounded (cfg : Cfg) (env : Nat → Step) (a0 : List Nat) (s : Bytes) :
    ∀ a ∈ (rd cfg env a0 s).allocs, a ≤ Gen.MaxBufferedPayloadSz :=
  rdLoop_allocs cfg env _ 0 0 a0 false s

/-! ## stages -/

theorem readFull_stream (b : Bytes) (n : Nat) : (readFull (.stream b) n).out ≠ .panic := by
  simp only [readFull]; split <;> simp

theorem msgData_no_panic (m : Msg) : (msgData m).out ≠ .panic := by
  unfold msgData
  split
  · simp
  · split
    · simp
    · simp
    · exact readFull_stream _ _

theorem msgData_allocs (m : Msg) : ∀ a ∈ (msgData m).allocs, a ≤ Gen.MaxBufferedPayloadSz := by
  unfold msgData
  split
  · simp
  · rename_i h
    split
    · simp
    · simp
    · simp only [MaxBuf, Nat.not_lt] at h
      simp only [readFull]
      split <;> (intro a ha; simp at ha; subst ha; exact h)

/-- **data_alloc_bounded**: `Message.data()` in each of the three states a Message's payload can be in — absent
(over-limit reply), buffered (reply within the limit), still on the connection (what MessageHandlers get) — passes to
`make` nothing larger than the limit, for every declared length -/
theorem data_alloc_bounded (h : Header) (b : Bytes) :
    (∀ a ∈ (msgData ⟨h, .absent⟩).allocs, a ≤ Gen.MaxBufferedPayloadSz) ∧
    (∀ a ∈ (msgData ⟨h, .buffered b⟩).allocs, a ≤ Gen.MaxBufferedPayloadSz) ∧
    (∀ a ∈ (msgData ⟨h, .stream b⟩).allocs, a ≤ Gen.MaxBufferedPayloadSz) :=
  ⟨msgData_allocs _, msgData_allocs _, msgData_allocs _⟩

/-- the handler behaviour `viaData` of the fold is `msgData` on a streamed payload: same allocation, and the declared
size is refused before the reader is touched -/
theorem viaData_is_msgData (h : Header) (avail : Bytes) :
    (msgData ⟨h, .stream avail⟩).allocs = Beh.allocs .viaData true h.payloadLen ∧
    (h.payloadLen > Gen.MaxBufferedPayloadSz → (msgData ⟨h, .stream avail⟩).out = .err ∧ Beh.took .viaData h.payloadLen avail.length = 0) := by
  constructor
  · by_cases c : h.payloadLen > MaxBuf
    · have c' : ¬ h.payloadLen ≤ MaxBuf := by omega
      simp [msgData, Beh.allocs, c, c']
    · have c' : h.payloadLen ≤ MaxBuf := by omega
      simp only [msgData, c, if_false, readFull, Beh.allocs, c', Bool.true_and, decide_true, if_true]
      split <;> rfl
  · intro c
    have c' : ¬ h.payloadLen ≤ MaxBuf := by simp only [MaxBuf]; omega
    have c2 : h.payloadLen > MaxBuf := by simp only [MaxBuf]; omega
    simp [msgData, Beh.took, c2, c']

theorem gsvDecode_no_panic (S : Schema) (t : Nat) (d : Bytes) : gsvDecode S t d ≠ .panic := by
  unfold gsvDecode
  repeat' split
  all_goals simp

/-- **stage_no_panic**: none of the places where the client consumes a message outside the loop can panic — for
arbitrary headers and payloads, including a declared size over the limit and a missing payload reader -/
theorem stage_no_panic (S : Schema) (m : Msg) (cfg : Cfg) (beh : Beh) (s : Bytes) :
    (sendMessageReply m).1 ≠ .panic ∧ (gsvReply S m).1 ≠ .panic ∧ spvReply S m ≠ .panic ∧ shutdownReply S m ≠ .panic ∧
    (checkInitial S cfg beh s).out ≠ .panic := by
  have hd := msgData_no_panic m
  refine ⟨?_, ?_, ?_, ?_, ?_⟩
  · unfold sendMessageReply; simp only; split <;> simp_all
  · unfold gsvReply; simp only; split
    · exact gsvDecode_no_panic _ _ _
    · simp
    · simp_all
  · unfold spvReply; simp only; repeat' split
    all_goals simp_all
  · unfold shutdownReply; simp only; repeat' split
    all_goals simp_all
  · unfold checkInitial; simp only [guarded]; repeat' split
    all_goals simp_all

/-- allocations of the stages are bounded by the limit as well (first message, negotiation replies, replies) -/
theorem stage_alloc_bounded (S : Schema) (m : Msg) (cfg : Cfg) (beh : Beh) (s : Bytes) :
    (∀ a ∈ (sendMessageReply m).2, a ≤ Gen.MaxBufferedPayloadSz) ∧ (∀ a ∈ (gsvReply S m).2, a ≤ Gen.MaxBufferedPayloadSz) ∧
    (∀ a ∈ (checkInitial S cfg beh s).allocs, a ≤ Gen.MaxBufferedPayloadSz) := by
  refine ⟨msgData_allocs m, msgData_allocs m, ?_⟩
  have h10 : Gen.HeaderSz ≤ Gen.MaxBufferedPayloadSz := by decide
  unfold checkInitial
  simp only [MaxBuf, guarded]
  repeat' split
  all_goals simp_all
  all_goals omega

/-- **oversize_is_error**: a reply whose header declares more than the limit is an error for whoever asked —
`SendMessage`, the negotiation steps, `Shutdown` — whatever payload reader it carries (none, a buffer, a stream) -/
theorem oversize_is_error (S : Schema) (m : Msg) (h : m.hdr.payloadLen > Gen.MaxBufferedPayloadSz) :
    (sendMessageReply m).1 = .err ∧ (gsvReply S m).1 = .err ∧ spvReply S m = .err ∧ shutdownReply S m = .err := by
  have hd : (msgData m).out = .err := by unfold msgData; simp [MaxBuf, h]
  refine ⟨?_, ?_, ?_, ?_⟩
  · simp [sendMessageReply, hd]
  · simp [gsvReply, hd]
  · unfold spvReply; split <;> simp [hd]
  · simp [shutdownReply, hd]

/-- … and a success is never empty-for-oversize or truncated: whatever the loop hands an awaiting caller, `SendMessage`
either fails (exactly when the declared length is over the limit) or returns the message type and exactly as many
payload bytes as the header declared -/
theorem reply_complete_or_error (cfg : Cfg) (env : Nat → Step) (a0 : List Nat) (s : Bytes) :
    ∀ d ∈ (rd cfg env a0 s).deliveries, d.party = .caller →
      ((sendMessageReply d.toMsg).1 = .err ∧ d.hdr.payloadLen > Gen.MaxBufferedPayloadSz) ∨
      (∃ data, (sendMessageReply d.toMsg).1 = .ok d.hdr.typ data ∧ data.length = d.hdr.payloadLen ∧
        d.hdr.payloadLen ≤ Gen.MaxBufferedPayloadSz ∧ d.offered = some data) := by
  intro d hd hp
  have hok := rdLoop_callerOK cfg env _ 0 0 a0 false s d hd hp
  rcases hok with ⟨hle, b, hb, hlen⟩ | ⟨hgt, _⟩
  · right
    refine ⟨b, ?_, hlen, hle, hb⟩
    have : ¬ (d.hdr.payloadLen > MaxBuf) := by omega
    simp [sendMessageReply, msgData, Delivery.toMsg, hb, this]
  · left
    exact ⟨(oversize_is_error [] d.toMsg hgt).1, hgt⟩

/-! ## the whole connection -/

theorem connect_cases (S : Schema) (ver : Nat) (cfg : Cfg) (beh0 : Beh) (env : Nat → Step) (s : Bytes)
    (hc : cfg.closing = false) : (connect S ver cfg beh0 env s none).res = .error := by
  have hfin : ∀ c e a t, c.closing = false → finRes (rd c e a t).fin = .error := by
    intro c e a t h; rw [ends_with_error c e a t h]; rfl
  have hunf : ∀ c e a t, unfinished (rd c e a t) = .error := by
    intro c e a t; unfold unfinished; simp [rd_no_panic]
  have hini := (stage_no_panic S ⟨default, .absent⟩ cfg beh0 s).2.2.2.2
  have hgsv : ∀ m, (gsvReply S m).1 ≠ .panic := fun m => (stage_no_panic S m cfg beh0 s).2.1
  have hspv : ∀ m, spvReply S m ≠ .panic := fun m => (stage_no_panic S m cfg beh0 s).2.2.1
  unfold connect
  simp only
  split
  · rename_i h; exact absurd h hini
  · rfl
  · split
    · have hp := rd_no_panic { handlers := cfg.handlers, hasDefault := cfg.hasDefault } env [] (checkInitial S cfg beh0 s).rest
      have hf := hfin { handlers := cfg.handlers, hasDefault := cfg.hasDefault } env [] (checkInitial S cfg beh0 s).rest rfl
      simp [hp, hf]
    · repeat' split
      all_goals first
        | exact hunf _ _ _ _
        | exact hfin _ _ _ _ hc
        | (rename_i h; exact absurd h (hgsv _))
        | (rename_i h; exact absurd h (hspv _))
        | (rename_i h _ _; exact absurd h (hgsv _))
        | (rename_i h _ _ _; exact absurd h (hgsv _))

/-- **ends_with_error** (serving call) and no panic on the `Connect` goroutine: for every inbound byte stream — first
message, negotiation replies, everything after — when the stream is exhausted and nobody closed or shut down the
client locally, `Connect`'s result is an error (never a panic, never "still waiting") -/
theorem connect_ends_with_error (S : Schema) (ver : Nat) (handlers : List Nat) (hasDefault : Bool) (beh0 : Beh)
    (env : Nat → Step) (s : Bytes) :
    (connect S ver { handlers := handlers, hasDefault := hasDefault } beh0 env s none).res = .error :=
  connect_cases S ver _ beh0 env s rfl

/-! ## the two defects of the unrepaired code, stated on the `…Old` models (documentation; nothing depends on them) -/

/-- before the repair an over-limit reply to GetSupportedVersion (which arrives without a payload reader) made
`getSupportedVersion` allocate the declared size and dereference the nil reader -/
theorem old_gsv_panics (S : Schema) (h : Header) (hn : h.payloadLen > Gen.MaxBufferedPayloadSz) :
    gsvReplyOld S ⟨h, .absent⟩ = (.panic, [h.payloadLen]) := by
  have : h.payloadLen ≠ 0 := by intro e; rw [e] at hn; simp [Gen.MaxBufferedPayloadSz] at hn
  simp [gsvReplyOld, readFull, this]

/-- before the repair `SendMessage` reported an over-limit reply as an empty success -/
theorem old_oversize_empty_success (h : Header) : sendMessageReplyOld ⟨h, .absent⟩ = .ok h.typ [] := by
  simp [sendMessageReplyOld, msgDataOld]

/-! ## non-vacuity -/

-- a 10-byte header claiming 4 GiB, awaited by caller 0: nothing is allocated for it and the caller gets an error
def exHuge : Bytes := [4, 12, 0xff, 0xff, 0xff, 0xff, 0, 0, 0, 0]
example : (rd { handlers := [], hasDefault := false } (fun _ => {}) [0] exHuge).allocs = [10, 10] := by decide
example : ((rd { handlers := [], hasDefault := false } (fun _ => {}) [0] exHuge).deliveries.map
    (fun d => (sendMessageReply d.toMsg).1)) = [.err] := by decide
-- an unsolicited report claiming 256 MiB whose handler calls UnmarshalTo: refused, nothing allocated for it
example : (msgData ⟨⟨1, 61, 268435456, 0⟩, .stream [1, 2, 3]⟩).out = .err ∧ (msgData ⟨⟨1, 61, 268435456, 0⟩, .stream [1, 2, 3]⟩).allocs = [] := by decide
example : (rd { handlers := [61], hasDefault := false } (fun _ => { beh := .viaData }) []
    [4, 61, 0x10, 0, 0, 10, 0, 0, 0, 1, 7, 7]).allocs = [10, 10] := by decide
-- a panicking handler is reachable in the model (`callRaw`), and the guard is what contains it
example : callRaw (.panics 0) = .panicked := by decide
-- an unrequested CloseConnectionResponse followed by EOF is an error …
example : (rd { handlers := [], hasDefault := false } (fun _ => {}) [] [4, 4, 0, 0, 0, 10, 0, 0, 0, 1]).fin = .err := by decide
-- … while the same stream during a local Shutdown is the expected end
example : (rd { handlers := [], hasDefault := false, closing := true } (fun _ => {}) [] [4, 4, 0, 0, 0, 10, 0, 0, 0, 1]).fin = .waitDone := by decide

/-! ## the read loop as translated from the source (go2seq), for every environment -/

/-- **the serving call's read loop never returns success**: for every byte stream, every handler, every dispatcher
behaviour and every `select` choice, when the translated `handleIncoming` returns it returns a non-nil error -/
theorem src_read_loop_never_nil (E : Gen.Env_llrp_Client_handleIncoming) (fuel : Nat) (w w' : E.World) (e : GoSeq.GoErr)
    (h : Gen.llrp_Client_handleIncoming E fuel w = some (w', e)) : e ≠ .nil :=
  SeqClient.handleIncoming_never_nil' E fuel w w' e h

/-- a failing header read (the stream ended, was cut or carried a bad header) ends the loop with an error at once -/
theorem src_read_error_ends_loop (E : Gen.Env_llrp_Client_handleIncoming) (fuel : Nat) (w : E.World)
    (hsel : (E.select_1 w (E.Client_done w)).2 ≠ 0)
    (herr : (E.Client_readHeader_1 (E.select_1 w (E.Client_done w)).1).2.2 ≠ .nil) :
    Gen.llrp_Client_handleIncoming_loop1 E (fuel + 1) w false
      = some ((E.Client_readHeader_1 (E.select_1 w (E.Client_done w)).1).1, .new "failed to get next message: %v") :=
  SeqClient.handleIncoming_read_error E fuel w hsel herr

/-! ## the dispatcher model is the source

`Gen.llrp_Client_passToHandler` is the go2seq translation of `Client.passToHandler` (regenerated from `reader.go` on every
run, the deferred drain translated in place at every return). `SeqGlue.dispEnv cfg i beh` gives its calls their meaning
over a byte stream: `c.conn` is the remaining stream (`io.ReadFull`, `io.CopyN` and `io.Copy` through the
`io.LimitReader` consume it; running out of bytes is EOF, which `io.Copy` treats as success), the handlers are those of
`cfg`, a handler behaves as `beh` says, a send on the reply channel hands the message to the awaiting caller. -/

/-- **Source = model**: for every handler table, header, await-map content (`inMap`), handler behaviour and remaining
stream, what the translated `passToHandler` delivers (to whom, which bytes, how many taken), discards, allocates,
consumes from the stream and returns is exactly `ReadSide.dispatch` — the function the theorems above are about. -/
theorem src_dispatch (cfg : Cfg) (i : Nat) (h : Header) (inMap : Bool) (beh : Beh) (s : Bytes) :
    SeqGlue.outOf (Gen.llrp_Client_passToHandler (SeqGlue.dispEnv cfg i beh) { stream := s, awaited := inMap } h)
      = dispatch cfg i h (!unsolicited h.typ && inMap) beh s :=
  SeqGlue.src_dispatch_eq cfg i h inMap beh s

end LLRP.C10
