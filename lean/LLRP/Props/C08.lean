import LLRP.Proofs.ClientLive
import LLRP.Model.Initial
import LLRP.Gen.Gate
import LLRP.Proofs.SeqInitial
/-!
# C08 — nothing is sent before a successful connection event; requests wait for setup

`accept_iff` is about the pure model of `checkInitialMessage` (Model/Initial.lean, tied to the code by running the real
function on every message type / status / payload class); the other theorems are about the client LTS `LLRP.LTS`, in
which the verdict on the first frame enters through `connInitial payOk` (`initial_refines`).
-/
namespace LLRP.C08
open LLRP LLRP.LTS LLRP.Initial
set_option linter.unusedVariables false

/-- the first message `f` is a ReaderEventNotification (63) whose declared payload fits the buffer limit, arrives in
full, decodes, and carries a ConnectionAttemptEvent with status Success (0) -/
def Accepts (f : First) : Prop :=
  f.typ = 63 ∧ f.declared ≤ Gen.MaxBufferedPayloadSz ∧ f.declared ≤ f.payload.length ∧
    ∃ v, decode Gen.schema Gen.m_ReaderEventNotification (f.payload.take f.declared) = some v ∧ connAttempt v = some 0

theorem payloadOk_iff (b : Bytes) :
    payloadOk b = true ↔ ∃ v, decode Gen.schema Gen.m_ReaderEventNotification b = some v ∧ connAttempt v = some 0 := by
  unfold payloadOk
  generalize decode Gen.schema Gen.m_ReaderEventNotification b = d
  cases d with
  | none =>
    constructor
    · intro h; cases h
    · rintro ⟨v, hv, _⟩; cases hv
  | some v =>
    constructor
    · intro h; exact ⟨v, rfl, by simpa [Gen.ConnSuccess] using h⟩
    · rintro ⟨v', hv, h⟩; cases hv; simpa [Gen.ConnSuccess] using h

/-- **Accept iff.** The attempt is accepted exactly when a first message arrives that satisfies `Accepts`; any other
first message — another type, another status, malformed, truncated, oversize — and no message at all (EOF, timeout) is
a rejection. -/
theorem accept_iff (m : Option First) : checkInitial m = true ↔ ∃ f, m = some f ∧ Accepts f := by
  cases m with
  | none =>
    constructor
    · intro h; cases h
    · rintro ⟨f, hf, _⟩; cases hf
  | some f =>
    have hdef : checkInitial (some f) =
        (if f.declared > Gen.MaxBufferedPayloadSz then false
         else if f.payload.length < f.declared then false
         else if f.typ ≠ tReaderEventNotification then false
         else payloadOk (f.payload.take f.declared)) := rfl
    rw [hdef]
    have hex : (∃ g, some f = some g ∧ Accepts g) ↔ Accepts f :=
      ⟨fun ⟨g, hg, h⟩ => by cases hg; exact h, fun h => ⟨f, rfl, h⟩⟩
    rw [hex]
    unfold Accepts
    by_cases h1 : f.declared > Gen.MaxBufferedPayloadSz
    · rw [if_pos h1]
      constructor
      · intro h; cases h
      · rintro ⟨_, h', _⟩; omega
    · rw [if_neg h1]
      by_cases h2 : f.payload.length < f.declared
      · rw [if_pos h2]
        constructor
        · intro h; cases h
        · rintro ⟨_, _, h', _⟩; omega
      · rw [if_neg h2]
        by_cases h3 : f.typ ≠ tReaderEventNotification
        · rw [if_pos h3]
          constructor
          · intro h; cases h
          · rintro ⟨h', _⟩; exact absurd h' h3
        · rw [if_neg h3]
          have h3' : f.typ = 63 := Decidable.of_not_not h3
          constructor
          · intro h; exact ⟨h3', by omega, by omega, (payloadOk_iff _).mp h⟩
          · rintro ⟨_, _, _, h'⟩; exact (payloadOk_iff _).mpr h'

/-- **The source is the model.** `Gen.llrp_Client_checkInitialMessage` is `Client.checkInitialMessage` as go2seq translates it from
reader.go on this run (every test, branch and outcome is the source's; `SeqGlue.initEnv` gives the meaning of the calls it
makes: the connection delivers `m`, the payload decoder is the codec model over the regenerated table, the acknowledger
is the only registered handler). It returns nil exactly when `checkInitial` accepts, and hands the first message to the
acknowledger exactly when `ackOnFirst` says so — so `accept_iff` is a statement about the translated source. -/
theorem src_checkInitialMessage (m : Option First) :
    ((Gen.llrp_Client_checkInitialMessage SeqGlue.initEnv ⟨m, false⟩).2 == GoSeq.GoErr.nil) = checkInitial m ∧
    (Gen.llrp_Client_checkInitialMessage SeqGlue.initEnv ⟨m, false⟩).1.acked = ackOnFirst m :=
  SeqGlue.src_checkInitial m

/-- the translated source accepts exactly the first messages that satisfy `Accepts` -/
theorem src_accept_iff (m : Option First) :
    (Gen.llrp_Client_checkInitialMessage SeqGlue.initEnv ⟨m, false⟩).2 = GoSeq.GoErr.nil ↔ ∃ f, m = some f ∧ Accepts f := by
  rw [← accept_iff, ← (src_checkInitialMessage m).1]; simp

/-- the LTS's acceptance test on an abstract frame is `checkInitial` on a first message that arrived in full -/
theorem initial_refines (f : First) (id : Nat) (hc : f.declared ≤ f.payload.length) :
    checkInitial (some f) =
      initialOk { typ := f.typ, id := id, big := decide (f.declared > Gen.MaxBufferedPayloadSz) }
        (payloadOk (f.payload.take f.declared)) := by
  simp only [checkInitial, initialOk]
  by_cases h1 : f.declared > Gen.MaxBufferedPayloadSz
  · simp [h1]
  · have h2 : ¬ f.payload.length < f.declared := by omega
    by_cases h3 : f.typ = tReaderEventNotification <;> simp [h1, h2, h3]

/-- **Silent on reject.** In every reachable state in which the first message has not been accepted — the check is
still pending, or it failed: wrong type (including a KeepAlive whose ack id the handler has queued), wrong status,
malformed, oversize, none — nothing has been written to the peer and the write loop does not exist. -/
theorem silent_on_reject {s : St} (h : Reachable s) (hv : s.verdict ≠ some true) :
    s.written = [] ∧ s.wr = .off ∧ s.rd = .off := by
  have A := all_reachable h
  have hacc : s.accepted = false := by
    cases ha : s.accepted
    · rfl
    · exact absurd (A.outcome.verdictAcc.mp ha) hv
  have := A.life.notAcc hacc
  exact ⟨A.life.wrOff this.2.1, this.2.1, this.1⟩

/-- the verdict, once given, is final: a rejected attempt stays rejected along every continuation -/
theorem reject_is_final {s : St} (h : Reachable s) (hv : s.verdict = some false) (as : List Act) :
    (run s as).verdict = some false ∧ (run s as).written = [] := by
  have key : ∀ (t : St), Reachable t → t.verdict = some false → ∀ a, (step t a).verdict = some false := by
    intro t ht hv a
    have O := (all_reachable ht).outcome
    have hc : t.conn ≠ .initial := by
      intro hc; have := O.verdictSet.mpr (Or.inr hc); rw [hv] at this; cases this
    unfold step; split
    · rename_i he
      cases a <;> (try simp [enabled] at he) <;> (simp only [eff, leave]; repeat' split) <;> (try simp only [setC]) <;>
        grind
    · exact hv
  induction as generalizing s with
  | nil => exact ⟨hv, (silent_on_reject h (by rw [hv]; simp)).1⟩
  | cons a as ih => exact ih (Reachable.step a h) (key s h hv a)

/-- **Gated.** Every frame on the wire that stems from an external caller (`SendMessage`, `SendNoWait`, `Shutdown`) was
written after version negotiation had completed (`close(ready)` on the accept path had happened). -/
theorem gated {s : St} (h : Reachable s) (w : WFrame) (hw : w ∈ s.written) (c : Nat)
    (ho : w.origin = .caller c false) : w.negotiated = true :=
  (all_reachable h).life.gatedW w hw (by simp [ho, extOrigin])

/-- … and an external caller is only ever served (given an id, a reply, or a nil from SendNoWait) after negotiation. -/
theorem served_after_negotiation {s : St} (h : Reachable s) (hn : s.negotiated = false) (c : Nat)
    (he : (s.callers c).internal = false) : unserved (s.callers c).pc = true :=
  (all_reachable h).life.unservedExt hn c he

/-- **Early callers fail.** When setup has failed — Connect has returned without ever completing negotiation: first
message rejected, negotiation failed, or the connection ended during it — `done` is closed and every external caller is
either not issued, already returned with an error (closed / its own context), or has the enabled step `callSeeDone`
that returns the closed error: nobody is left blocked. -/
theorem early_callers_fail {s : St} (h : Reachable s) (e : Err) (hc : s.conn = .returned e) (hn : s.negotiated = false)
    (c : Nat) (hi : (s.callers c).internal = false) :
    s.done = true ∧
    ((s.callers c).pc = .idle ∨ (s.callers c).pc = .done .closed ∨ (s.callers c).pc = .done .ctx ∨
      (enabled s (.callSeeDone c) = true ∧ ((step s (.callSeeDone c)).callers c).pc = .done .closed)) := by
  have A := all_reachable h
  have hd := A.life.retDone e hc
  have hu := A.life.unservedExt hn c hi
  refine ⟨hd, ?_⟩
  cases hp : (s.callers c).pc with
  | idle => exact Or.inl rfl
  | waitReady =>
    have he : enabled s (.callSeeDone c) = true := by simp [enabled, hd, hp, canLeave]
    exact Or.inr (Or.inr (Or.inr ⟨he, by simp [step, he, eff, leave_pc]⟩))
  | queued =>
    have he : enabled s (.callSeeDone c) = true := by simp [enabled, hd, hp, canLeave]
    exact Or.inr (Or.inr (Or.inr ⟨he, by simp [step, he, eff, leave_pc]⟩))
  | waitToken id => rw [hp] at hu; simp [unserved] at hu
  | waitReply id => rw [hp] at hu; simp [unserved] at hu
  | done r =>
    rw [hp] at hu
    cases r <;> simp [unserved] at hu
    · exact Or.inr (Or.inl rfl)
    · exact Or.inr (Or.inr (Or.inl rfl))

/-- On every failing path of setup Connect does get to `returned`: it always has an enabled step (the loops are not
waited for), so `done` does get closed — see also C09.connect_returns for a failure inside negotiation. -/
theorem setup_failure_returns (s : St) (hc : s.conn = .rejected ∨ ∃ e, s.conn = .failing e) :
    ∃ a, actor a = .conn ∧ enabled s a = true ∧ connRank (step s a).conn < connRank s.conn := by
  rcases hc with hc | ⟨e, hc⟩
  · have he : enabled s .connRejectReady = true := by simp [enabled, hc]
    exact ⟨_, rfl, he, connect_variant s _ rfl he⟩
  · have he : enabled s .connFailReturn = true := by simp [enabled, hc]
    exact ⟨_, rfl, he, connect_variant s _ rfl he⟩

/-! ## non-vacuity -/

def renP (st : Nat) : Bytes :=
  [0x00, 0xf6, 0x00, 0x16, 0x00, 0x80, 0x00, 0x0c, 0, 5, 0xab, 0xcd, 0xef, 1, 2, 3, 0x01, 0x00, 0x00, 0x06,
   (st / 256).toUInt8, (st % 256).toUInt8]

set_option maxRecDepth 100000 in
example : checkInitial (some ⟨63, 22, renP 0⟩) = true := by decide
set_option maxRecDepth 100000 in
example : checkInitial (some ⟨63, 22, renP 1⟩) = false := by decide
example : checkInitial (some ⟨62, 0, []⟩) = false ∧ ackOnFirst (some ⟨62, 0, []⟩) = true := by decide

/-- first message = KeepAlive: its ack id is queued by the handler, the attempt is rejected, nothing is written, and
the early caller is released with the closed error -/
def demoReject : List Act :=
  [.callIssue 1 2 1001 false, .connStart, .peerSend { typ := 62, id := 7 }, .connInitial true true,
   .connRejectReady, .callReady 1, .connFailReturn, .callSeeDone 1]
example : (run init demoReject).ackQ = [7] ∧ (run init demoReject).written = [] ∧
    (run init demoReject).verdict = some false ∧ (run init demoReject).conn = .returned .fail ∧
    ((run init demoReject).callers 1).pc = .done .closed := by decide

/-! ## where the source opens the gate (regenerated from `reader.go` on every run) -/

/-- **first_message_once.** The model judges *the first message* of a connection: `Connect` calls
`checkInitialMessage` exactly once, not in a loop — a second read after a failed one would start in the middle of the
stream and take whatever comes later for the first message. -/
theorem first_message_once : Gen.initCheckSites = [("Client.Connect", false)] := by decide

/-- **gate_sites.** The LTS opens `ready` in two actions only: `connRejectReady` (no writer goroutine exists) and
`connReady` (negotiation has succeeded).  The source agrees: every `close(c.ready)` that comes after the writer
goroutine was started comes after the call of negotiate() and is not on an error path, and `ready` is closed nowhere
but in Connect. -/
theorem gate_sites :
    ∀ s ∈ Gen.closeSites, s.field = "ready" →
      s.func = "Client.Connect" ∧ (s.writerLive = true → s.afterNegotiate = true ∧ s.onErrPath = false) := by
  decide

/-- the table is not empty: there is a reject-path site without a writer and a success-path site with one -/
example : (Gen.closeSites.any fun s => s.field == "ready" && !s.writerLive && s.onErrPath) = true ∧
    (Gen.closeSites.any fun s => s.field == "ready" && s.writerLive && !s.onErrPath) = true := by decide

end LLRP.C08
