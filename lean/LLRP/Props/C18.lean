import LLRP.Model.Retry
import LLRP.Proofs.Retry
/-!
# C18 — Retry and back-off obey their limits for all inputs

`nextWait` theorems are about `LLRP.Gen.retry_nextWait`, the go2lean translation of `ExpBackOff.nextWait`
(regenerated from `internal/retry/retry.go` on every run; `Int` arithmetic with explicit int64 wrap, Go's truncating
division and shift; `rnd` stands for `rand.Int63n(1 << attempts)`, so the jitter theorems assume `0 ≤ rnd < 2^attempts`).
Hypotheses of the form `x < 2^63` only say that `x` is an int64 value.

`RetryWithCtx` theorems are about the hand-written model `LLRP.Retry.run` (tied to the code by the differential run
of `checks/c18.py`): `op k` is what the k-th call returns, `ctx.entry` the context's error at entry, `ctx.ev k` what
happens at the wait after the k-th call, `rnd k` the jitter draw of that wait.
-/
namespace LLRP.C18
open LLRP LLRP.Retry LLRP.GoInt

/-! ## the pause before the n-th re-run -/

/-- Without jitter the pause is `min(max, base·2^(n-1))`, computed exactly even where `base·2^(n-1)` overflows
int64; 0 for n ≤ 0 and simply `max` from the 63rd on. -/
theorem wait_nojitter (base max keep n rnd : Int) (hb : 1 ≤ base) (hm : 1 ≤ max) (hm' : max < 2 ^ 63) :
    Gen.retry_nextWait base max keep false n rnd =
      if n ≤ 0 then 0 else if n ≥ 63 then max else min max (base * 2 ^ (n - 1).toNat) := by
  by_cases h1 : n ≤ 0
  · simp [Gen.retry_nextWait, h1]
  · by_cases h2 : n ≥ 63
    · have : ¬ max = 0 := by omega
      simp [Gen.retry_nextWait, h1, h2, this]
    · simp only [h1, h2, if_false]
      exact nw_nojitter_mid base max keep n rnd (by omega) (by omega) hb hm hm'

example : Gen.retry_nextWait 1000 30000 0 false 3 0 = 4000 := by decide
example : Gen.retry_nextWait (2 ^ 62) (2 ^ 63 - 1) 0 false 5 0 = 2 ^ 63 - 1 := by decide

/-- With jitter and draw `s` the pause is exactly `min(max, base·s)` (also where `base·s` overflows int64). -/
theorem wait_jitter_exact (base max keep n s : Int) (hb : 1 ≤ base) (hm : 1 ≤ max) (hm' : max < 2 ^ 63) (hs : 0 ≤ s) :
    Gen.retry_nextWait base max keep true n s =
      if n ≤ 0 then 0 else if n ≥ 63 then max else min max (base * s) := by
  by_cases h1 : n ≤ 0
  · simp [Gen.retry_nextWait, h1]
  · by_cases h2 : n ≥ 63
    · have : ¬ max = 0 := by omega
      simp [Gen.retry_nextWait, h1, h2, this]
    · simp only [h1, h2, if_false]
      exact nw_jitter_mid base max keep n s (by omega) (by omega) hb hm hm' hs

/-- With jitter the pause lies in `[0, min(max, base·(2^n − 1))]` for every draw `0 ≤ s < 2^n`. -/
theorem wait_jitter (base max keep n s : Int) (hb : 1 ≤ base) (hm : 1 ≤ max) (hm' : max < 2 ^ 63)
    (hs : 0 ≤ s) (hs' : s < 2 ^ n.toNat) :
    0 ≤ Gen.retry_nextWait base max keep true n s ∧
      Gen.retry_nextWait base max keep true n s ≤ min max (base * (2 ^ n.toNat - 1)) := by
  rw [wait_jitter_exact base max keep n s hb hm hm' hs]
  by_cases h1 : n ≤ 0
  · have : n.toNat = 0 := by omega
    simp [h1, this]; omega
  · by_cases h2 : n ≥ 63
    · have hp := two_pow_mono (k := 63) (m := n.toNat) (by omega)
      have hmul : (2 : Int) ^ n.toNat - 1 ≤ base * (2 ^ n.toNat - 1) := by
        have := Int.mul_le_mul_of_nonneg_right hb (show (0 : Int) ≤ 2 ^ n.toNat - 1 by omega)
        omega
      simp only [h1, h2, if_false, if_true]; omega
    · have hmul : base * s ≤ base * (2 ^ n.toNat - 1) := Int.mul_le_mul_of_nonneg_left (by omega) (by omega)
      have hnn : 0 ≤ base * s := Int.mul_nonneg (by omega) hs
      simp only [h1, h2, if_false]; omega

example : (0 : Int) ≤ 5 ∧ (5 : Int) < 2 ^ (3 : Int).toNat := by decide
example : Gen.retry_nextWait (2 ^ 62) (2 ^ 63 - 1) 0 true 40 (2 ^ 40 - 1) = 2 ^ 63 - 1 := by decide

/-- The pause is never negative and never exceeds the configured maximum — every n (≤ 0, ≥ 62, …), every base and
max ≥ 1, jitter or not, also where `base·2^n ≥ 2^63`. -/
theorem wait_bounds (base max keep : Int) (jitter : Bool) (n rnd : Int) (hb : 1 ≤ base) (hm : 1 ≤ max)
    (hm' : max < 2 ^ 63) (hr : 0 ≤ rnd) :
    0 ≤ Gen.retry_nextWait base max keep jitter n rnd ∧ Gen.retry_nextWait base max keep jitter n rnd ≤ max := by
  cases jitter
  · rw [wait_nojitter base max keep n rnd hb hm hm']
    have hnn : 0 ≤ base * 2 ^ (n - 1).toNat :=
      Int.mul_nonneg (by omega) (by have := two_pow_mono (Nat.zero_le (n - 1).toNat); omega)
    split
    · omega
    · split <;> omega
  · rw [wait_jitter_exact base max keep n rnd hb hm hm' hr]
    have hnn : 0 ≤ base * rnd := Int.mul_nonneg (by omega) hr
    split
    · omega
    · split <;> omega

/-- `nextWait` performs no panicking operation (division by zero, negative shift count, `Int63n(k ≤ 0)`) —
for all inputs whatsoever. -/
theorem nextWait_safe (base max keep : Int) (jitter : Bool) (n rnd : Int) :
    Gen.retry_nextWait_safe base max keep jitter n rnd = true := by
  unfold Gen.retry_nextWait_safe
  by_cases h1 : n ≤ 0
  · simp [h1]
  · by_cases h2 : n ≥ 63
    · simp [h2]
    · have hw : wrapS 64 (n - 1) = n - 1 := wrapS64_id (by omega) (by omega)
      have hs : goShl 64 true 1 (n - 1) = 2 ^ (n - 1).toNat := shl_one (by omega) (by omega)
      have hs' : goShl 64 true 1 n = 2 ^ n.toNat := shl_one (by omega) (by omega)
      have p1 := two_pow_mono (Nat.zero_le (n - 1).toNat)
      have p2 := two_pow_mono (Nat.zero_le n.toNat)
      have a1 : n - 1 ≥ 0 := by omega
      have a2 : n ≥ 0 := by omega
      have a3 : (2 : Int) ^ (n - 1).toNat ≠ 0 := by omega
      have a4 : (2 : Int) ^ n.toNat > 0 := by omega
      have a5 : rnd > 0 → rnd ≠ 0 := by omega
      have p3 := two_pow_mono (Nat.zero_le (n.toNat - 1))
      cases jitter <;> simp [h1, h2, hw, hs, hs', a2, a4]
      · exact Or.inr (Or.inr ⟨⟨by omega, by omega⟩, Or.inr (by omega)⟩)
      · omega

/-- Raw edges of `nextWait`, exactly as the code behaves. They are unreachable through the exported API, which
normalises `BackOff ≤ 0 → 1`, `Max ≤ 0 → MaxInt64` first (`api_wait_bounds`). -/
theorem raw_edges (base max keep : Int) (jitter : Bool) (n rnd : Int) :
    (n ≤ 0 → Gen.retry_nextWait base max keep jitter n rnd = 0) ∧
    (max = 0 → Gen.retry_nextWait base max keep jitter n rnd = 0) ∧
    (base = 0 → Gen.retry_nextWait base max keep jitter n rnd = if n ≤ 0 ∨ max = 0 then 0 else max) ∧
    (n ≥ 63 → Gen.retry_nextWait base max keep jitter n rnd = if max = 0 then 0 else max) := by
  refine ⟨fun h => ?_, fun h => ?_, fun h => ?_, fun h => ?_⟩
  · simp [Gen.retry_nextWait, h]
  · simp [Gen.retry_nextWait, h]
  · by_cases h1 : n ≤ 0 <;> by_cases h2 : max = 0 <;> simp [Gen.retry_nextWait, h, h1, h2]
  · have h1 : ¬ n ≤ 0 := by omega
    by_cases h2 : max = 0 <;> simp [Gen.retry_nextWait, h, h1, h2]

/-- With a raw negative `BackOff` or `Max` (never passed by `RetryWithCtx`) the pause can be negative. -/
theorem raw_negative_base_witness :
    Gen.retry_nextWait (-1) 10 0 false 1 0 = -1 ∧ Gen.retry_nextWait 1 (-5) 0 false 1 0 = -5 ∧
    Gen.retry_nextWait 1 (-5) 0 true 70 0 = -5 := by decide

/-- Through the exported API (`RetryWithCtx` normalises the policy first) every pause is in `[0, Max']`, where `Max'`
is the configured maximum, or MaxInt64 when none (≤ 0) is configured — for every policy whatsoever. -/
theorem api_wait_bounds (c : Cfg) (n rnd : Int) (hb : c.backOff < 2 ^ 63) (hm : c.max < 2 ^ 63) (hr : 0 ≤ rnd) :
    0 ≤ c.norm.nextWait n rnd ∧ c.norm.nextWait n rnd ≤ c.norm.max ∧
    c.norm.max = (if c.max ≤ 0 then maxInt64 else c.max) := by
  have h := wait_bounds c.norm.backOff c.norm.max c.keepErrs c.jitter n rnd
    (by simp only [Cfg.norm]; split <;> omega) (by simp only [Cfg.norm, maxInt64]; split <;> omega)
    (by simp only [Cfg.norm, maxInt64]; split <;> omega) hr
  exact ⟨h.1, h.2, rfl⟩

example : (Cfg.mk 0 0 0 true).norm.nextWait 70 5 = maxInt64 := by decide

/-! ## RetryWithCtx -/

/-- nothing more is run after the k-th call: it did not fail recoverably, or the count is used up, or the context
ended / the deadline check failed at the wait that follows it -/
def stopsAt (retries : Int) (op : Nat → Outcome) (ev : Nat → WaitEv) (k : Nat) : Prop :=
  op k ≠ .retry ∨ ¬ cont retries k ∨ ev k ≠ .pass

/-- `cont` is the loop condition; its negation is "a limit is configured and it is reached" -/
theorem not_cont_iff (retries : Int) (k : Nat) : ¬ cont retries k ↔ retries ≠ forever ∧ retries ≤ k := by
  unfold cont; omega

/-- Case analysis of a run that starts with a live context (master lemma of this file). -/
private theorem run_cases (c : Cfg) (retries : Int) (op : Nat → Outcome) (ctx : Ctx) (rnd : Nat → Int) (fuel : Nat)
    (o : Out) (ho : run c retries op ctx rnd fuel = o) (he : ctx.entry = none) (hx : o.exhausted = false) :
    (op 1 = .ok ∧ o = ⟨1, none, [], false⟩) ∨
    (op 1 = .fatal ∧ o = ⟨1, some (newFError (.op 1) c.keepErrs), [], false⟩) ∨
    (op 1 = .retry ∧ ∃ m re ws, Reaches c.norm retries op ctx.ev rnd 1 (newFError (.op 1) c.keepErrs) [] m re ws ∧
        Exit c.norm retries op ctx.ev rnd m re ws o) := by
  subst ho
  unfold run at hx ⊢
  simp only [he] at hx ⊢
  cases h1 : op 1 with
  | ok => simp
  | fatal => simp
  | retry =>
    simp only [h1] at hx ⊢
    exact Or.inr (Or.inr ⟨trivial, loop_master _ _ _ _ _ _ _ _ _ hx⟩)

/-- **runs_total.** With a live context at entry the operation runs at least once, and the number of runs is the
*least* k ≥ 1 after which `stopsAt` holds: the operation is re-run exactly until it succeeds, fails unrecoverably,
has run `max(1, retries)` times in total (no such limit under `Forever`) or the context intervenes at a wait. -/
theorem runs_total (c : Cfg) (retries : Int) (op : Nat → Outcome) (ctx : Ctx) (rnd : Nat → Int) (fuel : Nat)
    (he : ctx.entry = none) (hx : (run c retries op ctx rnd fuel).exhausted = false) :
    1 ≤ (run c retries op ctx rnd fuel).calls ∧
    stopsAt retries op ctx.ev (run c retries op ctx rnd fuel).calls ∧
    ∀ j, 1 ≤ j → j < (run c retries op ctx rnd fuel).calls → ¬ stopsAt retries op ctx.ev j := by
  generalize ho : run c retries op ctx rnd fuel = o at hx ⊢
  rcases run_cases c retries op ctx rnd fuel o ho he hx with ⟨h1, hr⟩ | ⟨h1, hr⟩ | ⟨h1, m, re, ws, hre, hex⟩
  · rw [hr]; exact ⟨by simp, Or.inl (by simp [h1]), fun j a b => by simp at b; omega⟩
  · rw [hr]; exact ⟨by simp, Or.inl (by simp [h1]), fun j a b => by simp at b; omega⟩
  · have ⟨f1, f2, f3⟩ := reaches_from_one _ _ _ _ _ hre h1
    have nostop : ∀ j, 1 ≤ j → j < m → ¬ stopsAt retries op ctx.ev j := fun j a b hs => by
      rcases hs with hs | hs | hs
      · exact hs (f2 j a (by omega))
      · exact hs (f3 j a b).1
      · exact hs (f3 j a b).2
    have nostop' : cont retries m → ctx.ev m = .pass → ∀ j, 1 ≤ j → j < m + 1 → ¬ stopsAt retries op ctx.ev j :=
      fun hc hev j a b => by
        by_cases hj : j = m
        · subst hj
          intro hs
          rcases hs with hs | hs | hs
          · exact hs (f2 j a (by omega))
          · exact hs hc
          · exact hs hev
        · exact nostop j a (by omega)
    cases hex with
    | exhausted hc => exact ⟨f1, Or.inr (Or.inl hc), nostop⟩
    | exceeds hc hev => exact ⟨f1, Or.inr (Or.inr (by simp [hev])), nostop⟩
    | ends e hc hev => exact ⟨f1, Or.inr (Or.inr (by simp [hev])), nostop⟩
    | ok hc hev hop => exact ⟨by simp, Or.inl (by simp [hop]), nostop' hc hev⟩
    | fatal hc hev hop => exact ⟨by simp, Or.inl (by simp [hop]), nostop' hc hev⟩

/-- the model's fuel never limits a run that the real loop would finish: a configured limit, or any call that does
not fail recoverably / any interrupted wait within reach, suffices -/
theorem terminates (c : Cfg) (retries : Int) (op : Nat → Outcome) (ctx : Ctx) (rnd : Nat → Int) (fuel : Nat)
    (h : (retries ≠ forever ∧ retries ≤ fuel ∧ 1 ≤ fuel) ∨ (∃ k, 1 ≤ k ∧ k ≤ fuel ∧ (ctx.ev k ≠ .pass ∨ op (k + 1) ≠ .retry))) :
    (run c retries op ctx rnd fuel).exhausted = false := by
  unfold run
  split
  · rfl
  · split
    · rfl
    · rfl
    · rcases h with ⟨h1, h2, h3⟩ | ⟨k, h1, h2, h3⟩
      · exact loop_total_bounded _ _ _ _ _ h1 _ _ _ _ h3 (by omega)
      · exact loop_total_stop _ _ _ _ _ _ _ _ _ k h1 (by omega) h3

/-- finite scripts (what the oracle evaluates) always come with enough fuel -/
theorem runScript_total (c : Cfg) (retries : Int) (script : List Outcome) (entry : Option Err) (evs : List WaitEv)
    (rnds : List Int) : (runScript c retries script entry evs rnds).exhausted = false := by
  unfold runScript
  apply terminates
  refine Or.inr ⟨script.length + 1, by omega, by omega, Or.inr ?_⟩
  simp [opOf]

/-- **runs_exhaust.** If a limit is configured and every one of the first `max(1, retries)` runs fails recoverably
with no interference from the context, the operation runs exactly `max(1, retries)` times and the failure is
`ErrRetriesExceeded`. -/
theorem runs_exhaust (c : Cfg) (retries : Int) (op : Nat → Outcome) (ctx : Ctx) (rnd : Nat → Int) (fuel : Nat)
    (he : ctx.entry = none) (hr : retries ≠ forever) (hf : retries ≤ fuel ∧ 1 ≤ fuel)
    (hop : ∀ k : Nat, 1 ≤ k → (k : Int) ≤ max 1 retries → op k = .retry)
    (hev : ∀ k : Nat, 1 ≤ k → (k : Int) < max 1 retries → ctx.ev k = .pass) :
    ((run c retries op ctx rnd fuel).calls : Int) = max 1 retries ∧
    ∃ fe, (run c retries op ctx rnd fuel).res = some fe ∧ fe.main = .retriesExceeded := by
  have hx := terminates c retries op ctx rnd fuel (Or.inl ⟨hr, hf.1, hf.2⟩)
  have ⟨t1, t2, t3⟩ := runs_total c retries op ctx rnd fuel he hx
  generalize ho : run c retries op ctx rnd fuel = o at hx t1 t2 t3 ⊢
  have hcalls : (o.calls : Int) = max 1 retries := by
    generalize o.calls = n at *
    have hle : (n : Int) ≤ max 1 retries := by
      apply Int.not_lt.mp
      intro hlt
      have hk : ((max 1 retries).toNat : Int) = max 1 retries := Int.toNat_of_nonneg (by omega)
      refine t3 (max 1 retries).toNat (by omega) (by omega) (Or.inr (Or.inl ?_))
      rw [not_cont_iff]; exact ⟨hr, by omega⟩
    have hge : max 1 retries ≤ (n : Int) := by
      apply Int.not_lt.mp
      intro hlt
      rcases t2 with h | h | h
      · exact h (hop n t1 (by omega))
      · rw [not_cont_iff] at h; omega
      · exact h (hev n t1 hlt)
    omega
  refine ⟨hcalls, ?_⟩
  rcases run_cases c retries op ctx rnd fuel o ho he hx with ⟨h1, _⟩ | ⟨h1, _⟩ | ⟨h1, m, re, ws, hre, hex⟩
  · rw [hop 1 (by omega) (by omega)] at h1; cases h1
  · rw [hop 1 (by omega) (by omega)] at h1; cases h1
  · have hm := (reaches_from_one _ _ _ _ _ hre h1).1
    cases hex with
    | exhausted hc => exact ⟨_, rfl, rfl⟩
    | exceeds hc hv =>
      simp only at hcalls
      have := hev m hm (by unfold cont at hc; omega); rw [this] at hv; cases hv
    | ends e hc hv =>
      simp only at hcalls
      have := hev m hm (by unfold cont at hc; omega); rw [this] at hv; cases hv
    | ok hc hv hok =>
      simp only at hcalls
      have := hop (m + 1) (by omega) (by omega); rw [this] at hok; cases hok
    | fatal hc hv hok =>
      simp only at hcalls
      have := hop (m + 1) (by omega) (by omega); rw [this] at hok; cases hok

end LLRP.C18
