import LLRP.Model.Retry
import LLRP.Proofs.Retry
import LLRP.Proofs.SeqRetry
/-!
# C18 — Retry and back-off obey their limits for all inputs

`nextWait` theorems are about `LLRP.Gen.retry_nextWait`, the go2lean translation of `ExpBackOff.nextWait`
(regenerated from `internal/retry/retry.go` on every run; `Int` arithmetic with explicit int64 wrap, Go's truncating
division and shift; `rnd` stands for `rand.Int63n(1 << attempts)`, so the jitter theorems assume `0 ≤ rnd < 2^attempts`).
Hypotheses of the form `x < 2^63` only say that `x` is an int64 value.

`RetryWithCtx` theorems are about the hand-written model `LLRP.Retry.run` (tied to the code by the differential run
of `checks/c18.py`): `op k` is what the k-th call returns, `ctx.entry` the context's error at entry, `ctx.ev k` what
happens at the wait after the k-th call, `rnd k` the jitter draw of that wait.
-/
namespace LLRP.C18
open LLRP LLRP.Retry LLRP.GoInt

/-! ## the pause before the n-th re-run -/

/-- Without jitter the pause is `min(max, base·2^(n-1))`, computed exactly even where `base·2^(n-1)` overflows
int64; 0 for n ≤ 0 and simply `max` from the 63rd on. -/
theorem wait_nojitter (base max keep n rnd : Int) (hb : 1 ≤ base) (hm : 1 ≤ max) (hm' : max < 2 ^ 63) :
    Gen.retry_nextWait base max keep false n rnd =
      if n ≤ 0 then 0 else if n ≥ 63 then max else min max (base * 2 ^ (n - 1).toNat) := by
  by_cases h1 : n ≤ 0
  · simp [Gen.retry_nextWait, h1]
  · by_cases h2 : n ≥ 63
    · have : ¬ max = 0 := by omega
      simp [Gen.retry_nextWait, h1, h2, this]
    · simp only [h1, h2, if_false]
      exact nw_nojitter_mid base max keep n rnd (by omega) (by omega) hb hm hm'

example : Gen.retry_nextWait 1000 30000 0 false 3 0 = 4000 := by decide
example : Gen.retry_nextWait (2 ^ 62) (2 ^ 63 - 1) 0 false 5 0 = 2 ^ 63 - 1 := by decide

/-- With jitter and draw `s` the pause is exactly `min(max, base·s)` (also where `base·s` overflows int64). -/
theorem wait_jitter_exact (base max keep n s : Int) (hb : 1 ≤ base) (hm : 1 ≤ max) (hm' : max < 2 ^ 63) (hs : 0 ≤ s) :
    Gen.retry_nextWait base max keep true n s =
      if n ≤ 0 then 0 else if n ≥ 63 then max else min max (base * s) := by
  by_cases h1 : n ≤ 0
  · simp [Gen.retry_nextWait, h1]
  · by_cases h2 : n ≥ 63
    · have : ¬ max = 0 := by omega
      simp [Gen.retry_nextWait, h1, h2, this]
    · simp only [h1, h2, if_false]
      exact nw_jitter_mid base max keep n s (by omega) (by omega) hb hm hm' hs

/-- With jitter the pause lies in `[0, min(max, base·(2^n − 1))]` for every draw `0 ≤ s < 2^n`. -/
theorem wait_jitter (base max keep n s : Int) (hb : 1 ≤ base) (hm : 1 ≤ max) (hm' : max < 2 ^ 63)
    (hs : 0 ≤ s) (hs' : s < 2 ^ n.toNat) :
    0 ≤ Gen.retry_nextWait base max keep true n s ∧
      Gen.retry_nextWait base max keep true n s ≤ min max (base * (2 ^ n.toNat - 1)) := by
  rw [wait_jitter_exact base max keep n s hb hm hm' hs]
  by_cases h1 : n ≤ 0
  · have : n.toNat = 0 := by omega
    simp [h1, this]; omega
  · by_cases h2 : n ≥ 63
    · have hp := two_pow_mono (k := 63) (m := n.toNat) (by omega)
      have hmul : (2 : Int) ^ n.toNat - 1 ≤ base * (2 ^ n.toNat - 1) := by
        have := Int.mul_le_mul_of_nonneg_right hb (show (0 : Int) ≤ 2 ^ n.toNat - 1 by omega)
        omega
      simp only [h1, h2, if_false, if_true]; omega
    · have hmul : base * s ≤ base * (2 ^ n.toNat - 1) := Int.mul_le_mul_of_nonneg_left (by omega) (by omega)
      have hnn : 0 ≤ base * s := Int.mul_nonneg (by omega) hs
      simp only [h1, h2, if_false]; omega

example : (0 : Int) ≤ 5 ∧ (5 : Int) < 2 ^ (3 : Int).toNat := by decide
example : Gen.retry_nextWait (2 ^ 62) (2 ^ 63 - 1) 0 true 40 (2 ^ 40 - 1) = 2 ^ 63 - 1 := by decide

/-- The pause is never negative and never exceeds the configured maximum — every n (≤ 0, ≥ 62, …), every base and
max ≥ 1, jitter or not, also where `base·2^n ≥ 2^63`. -/
theorem wait_bounds (base max keep : Int) (jitter : Bool) (n rnd : Int) (hb : 1 ≤ base) (hm : 1 ≤ max)
    (hm' : max < 2 ^ 63) (hr : 0 ≤ rnd) :
    0 ≤ Gen.retry_nextWait base max keep jitter n rnd ∧ Gen.retry_nextWait base max keep jitter n rnd ≤ max := by
  cases jitter
  · rw [wait_nojitter base max keep n rnd hb hm hm']
    have hnn : 0 ≤ base * 2 ^ (n - 1).toNat :=
      Int.mul_nonneg (by omega) (by have := two_pow_mono (Nat.zero_le (n - 1).toNat); omega)
    split
    · omega
    · split <;> omega
  · rw [wait_jitter_exact base max keep n rnd hb hm hm' hr]
    have hnn : 0 ≤ base * rnd := Int.mul_nonneg (by omega) hr
    split
    · omega
    · split <;> omega

/-- `nextWait` performs no panicking operation (division by zero, negative shift count, `Int63n(k ≤ 0)`) —
for all inputs whatsoever. -/
theorem nextWait_safe (base max keep : Int) (jitter : Bool) (n rnd : Int) :
    Gen.retry_nextWait_safe base max keep jitter n rnd = true := by
  unfold Gen.retry_nextWait_safe
  by_cases h1 : n ≤ 0
  · simp [h1]
  · by_cases h2 : n ≥ 63
    · simp [h2]
    · have hw : wrapS 64 (n - 1) = n - 1 := wrapS64_id (by omega) (by omega)
      have hs : goShl 64 true 1 (n - 1) = 2 ^ (n - 1).toNat := shl_one (by omega) (by omega)
      have hs' : goShl 64 true 1 n = 2 ^ n.toNat := shl_one (by omega) (by omega)
      have p1 := two_pow_mono (Nat.zero_le (n - 1).toNat)
      have p2 := two_pow_mono (Nat.zero_le n.toNat)
      have a1 : n - 1 ≥ 0 := by omega
      have a2 : n ≥ 0 := by omega
      have a3 : (2 : Int) ^ (n - 1).toNat ≠ 0 := by omega
      have a4 : (2 : Int) ^ n.toNat > 0 := by omega
      have a5 : rnd > 0 → rnd ≠ 0 := by omega
      have p3 := two_pow_mono (Nat.zero_le (n.toNat - 1))
      -- closed by linear reasoning over the atoms above, whatever the order / nesting of the translated conditions
      cases jitter <;> simp [h1, h2, hw, hs, hs', a2, a4] <;> omega

/-- Raw edges of `nextWait`, exactly as the code behaves. They are unreachable through the exported API, which
normalises `BackOff ≤ 0 → 1`, `Max ≤ 0 → MaxInt64` first (`api_wait_bounds`). -/
theorem raw_edges (base max keep : Int) (jitter : Bool) (n rnd : Int) :
    (n ≤ 0 → Gen.retry_nextWait base max keep jitter n rnd = 0) ∧
    (max = 0 → Gen.retry_nextWait base max keep jitter n rnd = 0) ∧
    (base = 0 → Gen.retry_nextWait base max keep jitter n rnd = if n ≤ 0 ∨ max = 0 then 0 else max) ∧
    (n ≥ 63 → Gen.retry_nextWait base max keep jitter n rnd = if max = 0 then 0 else max) := by
  refine ⟨fun h => ?_, fun h => ?_, fun h => ?_, fun h => ?_⟩
  · simp [Gen.retry_nextWait, h]
  · simp [Gen.retry_nextWait, h]
  · by_cases h1 : n ≤ 0 <;> by_cases h2 : max = 0 <;> simp [Gen.retry_nextWait, h, h1, h2]
  · have h1 : ¬ n ≤ 0 := by omega
    by_cases h2 : max = 0 <;> simp [Gen.retry_nextWait, h, h1, h2]

/-- With a raw negative `BackOff` or `Max` (never passed by `RetryWithCtx`) the pause can be negative. -/
theorem raw_negative_base_witness :
    Gen.retry_nextWait (-1) 10 0 false 1 0 = -1 ∧ Gen.retry_nextWait 1 (-5) 0 false 1 0 = -5 ∧
    Gen.retry_nextWait 1 (-5) 0 true 70 0 = -5 := by decide

/-- Through the exported API (`RetryWithCtx` normalises the policy first) every pause is in `[0, Max']`, where `Max'`
is the configured maximum, or MaxInt64 when none (≤ 0) is configured — for every policy whatsoever. -/
theorem api_wait_bounds (c : Cfg) (n rnd : Int) (hb : c.backOff < 2 ^ 63) (hm : c.max < 2 ^ 63) (hr : 0 ≤ rnd) :
    0 ≤ c.norm.nextWait n rnd ∧ c.norm.nextWait n rnd ≤ c.norm.max ∧
    c.norm.max = (if c.max ≤ 0 then maxInt64 else c.max) := by
  have h := wait_bounds c.norm.backOff c.norm.max c.keepErrs c.jitter n rnd
    (by simp only [Cfg.norm]; split <;> omega) (by simp only [Cfg.norm, maxInt64]; split <;> omega)
    (by simp only [Cfg.norm, maxInt64]; split <;> omega) hr
  exact ⟨h.1, h.2, rfl⟩

example : (Cfg.mk 0 0 0 true).norm.nextWait 70 5 = maxInt64 := by decide

/-- **deadline_respects_max.** A context whose deadline lies `thr` ahead never makes `RetryWithCtx` give up with
"wait exceeds deadline" as long as the configured maximum is at most `thr`: the pause compared with the deadline is the
one of the policy *as configured* (normalised only for `≤ 0`), never a larger one — for every policy with a maximum,
every re-run number and every jitter draw.  (This is the observable the correspondence uses to see the magnitude of
pauses far longer than a test can sleep.) -/
theorem deadline_respects_max (c : Cfg) (thr : Int) (rnd : Nat → Int) (n : Nat)
    (hb : c.backOff < 2 ^ 63) (hm0 : 1 ≤ c.max) (hm : c.max ≤ thr) (hm' : c.max < 2 ^ 63) (hr : ∀ k, 0 ≤ rnd k) :
    evProbe c thr rnd n = .pass := by
  have h := api_wait_bounds c n (rnd n) hb hm' (hr n)
  have hmax : c.norm.max = c.max := by rw [h.2.2]; split <;> omega
  unfold evProbe
  split
  · omega
  · rfl

example : evProbe ⟨3600000000000, 1, 0, false⟩ 1800000000000 (fun _ => 0) 1 = .pass := by decide
example : evProbe ⟨3600000000000, 7200000000000, 0, false⟩ 1800000000000 (fun _ => 0) 1 = .exceeds := by decide

/-! ## RetryWithCtx -/

/-- nothing more is run after the k-th call: it did not fail recoverably, or the count is used up, or the context
ended / the deadline check failed at the wait that follows it -/
def stopsAt (retries : Int) (op : Nat → Outcome) (ev : Nat → WaitEv) (k : Nat) : Prop :=
  op k ≠ .retry ∨ ¬ cont retries k ∨ ev k ≠ .pass

/-- `cont` is the loop condition; its negation is "a limit is configured and it is reached" -/
theorem not_cont_iff (retries : Int) (k : Nat) : ¬ cont retries k ↔ retries ≠ forever ∧ retries ≤ k := by
  unfold cont; omega

/-- Case analysis of a run that starts with a live context (master lemma of this file). -/
private theorem run_cases (c : Cfg) (retries : Int) (op : Nat → Outcome) (ctx : Ctx) (rnd : Nat → Int) (fuel : Nat)
    (o : Out) (ho : run c retries op ctx rnd fuel = o) (he : ctx.entry = none) (hx : o.exhausted = false) :
    (op 1 = .ok ∧ o = ⟨1, none, [], false⟩) ∨
    (op 1 = .fatal ∧ o = ⟨1, some (newFError (.op 1) c.keepErrs), [], false⟩) ∨
    (op 1 = .retry ∧ ∃ m re ws, Reaches c.norm retries op ctx.ev rnd 1 (newFError (.op 1) c.keepErrs) [] m re ws ∧
        Exit c.norm retries op ctx.ev rnd m re ws o) := by
  subst ho
  unfold run at hx ⊢
  simp only [he] at hx ⊢
  cases h1 : op 1 with
  | ok => simp
  | fatal => simp
  | retry =>
    simp only [h1] at hx ⊢
    exact Or.inr (Or.inr ⟨trivial, loop_master _ _ _ _ _ _ _ _ _ hx⟩)

/-- **runs_total.** With a live context at entry the operation runs at least once, and the number of runs is the
*least* k ≥ 1 after which `stopsAt` holds: the operation is re-run exactly until it succeeds, fails unrecoverably,
has run `max(1, retries)` times in total (no such limit under `Forever`) or the context intervenes at a wait. -/
theorem runs_total (c : Cfg) (retries : Int) (op : Nat → Outcome) (ctx : Ctx) (rnd : Nat → Int) (fuel : Nat)
    (he : ctx.entry = none) (hx : (run c retries op ctx rnd fuel).exhausted = false) :
    1 ≤ (run c retries op ctx rnd fuel).calls ∧
    stopsAt retries op ctx.ev (run c retries op ctx rnd fuel).calls ∧
    ∀ j, 1 ≤ j → j < (run c retries op ctx rnd fuel).calls → ¬ stopsAt retries op ctx.ev j := by
  generalize ho : run c retries op ctx rnd fuel = o at hx ⊢
  rcases run_cases c retries op ctx rnd fuel o ho he hx with ⟨h1, hr⟩ | ⟨h1, hr⟩ | ⟨h1, m, re, ws, hre, hex⟩
  · rw [hr]; exact ⟨by simp, Or.inl (by simp [h1]), fun j a b => by simp at b; omega⟩
  · rw [hr]; exact ⟨by simp, Or.inl (by simp [h1]), fun j a b => by simp at b; omega⟩
  · have ⟨f1, f2, f3⟩ := reaches_from_one _ _ _ _ _ hre h1
    have nostop : ∀ j, 1 ≤ j → j < m → ¬ stopsAt retries op ctx.ev j := fun j a b hs => by
      rcases hs with hs | hs | hs
      · exact hs (f2 j a (by omega))
      · exact hs (f3 j a b).1
      · exact hs (f3 j a b).2
    have nostop' : cont retries m → ctx.ev m = .pass → ∀ j, 1 ≤ j → j < m + 1 → ¬ stopsAt retries op ctx.ev j :=
      fun hc hev j a b => by
        by_cases hj : j = m
        · subst hj
          intro hs
          rcases hs with hs | hs | hs
          · exact hs (f2 j a (by omega))
          · exact hs hc
          · exact hs hev
        · exact nostop j a (by omega)
    cases hex with
    | exhausted hc => exact ⟨f1, Or.inr (Or.inl hc), nostop⟩
    | exceeds hc hev => exact ⟨f1, Or.inr (Or.inr (by simp [hev])), nostop⟩
    | ends e hc hev => exact ⟨f1, Or.inr (Or.inr (by simp [hev])), nostop⟩
    | ok hc hev hop => exact ⟨by simp, Or.inl (by simp [hop]), nostop' hc hev⟩
    | fatal hc hev hop => exact ⟨by simp, Or.inl (by simp [hop]), nostop' hc hev⟩

-- non-vacuity: a run that satisfies the hypotheses (live context, enough fuel) and stops by its count
example : (run ⟨1, 0, 2, true⟩ 3 (fun _ => .retry) ⟨none, fun _ => .pass⟩ (fun _ => 0) 3).exhausted = false ∧
    (run ⟨1, 0, 2, true⟩ 3 (fun _ => .retry) ⟨none, fun _ => .pass⟩ (fun _ => 0) 3).calls = 3 := by decide
-- … and one under `Forever` that stops because the operation succeeds at its 5th run
example : (run ⟨1, 0, 2, true⟩ forever (fun k => if k = 5 then .ok else .retry) ⟨none, fun _ => .pass⟩ (fun _ => 0) 9).exhausted = false ∧
    (run ⟨1, 0, 2, true⟩ forever (fun k => if k = 5 then .ok else .retry) ⟨none, fun _ => .pass⟩ (fun _ => 0) 9).calls = 5 := by decide

/-- the model's fuel never limits a run that the real loop would finish: a configured limit, or any call that does
not fail recoverably / any interrupted wait within reach, suffices -/
theorem terminates (c : Cfg) (retries : Int) (op : Nat → Outcome) (ctx : Ctx) (rnd : Nat → Int) (fuel : Nat)
    (h : (retries ≠ forever ∧ retries ≤ fuel ∧ 1 ≤ fuel) ∨ (∃ k, 1 ≤ k ∧ k ≤ fuel ∧ (ctx.ev k ≠ .pass ∨ op (k + 1) ≠ .retry))) :
    (run c retries op ctx rnd fuel).exhausted = false := by
  unfold run
  split
  · rfl
  · split
    · rfl
    · rfl
    · rcases h with ⟨h1, h2, h3⟩ | ⟨k, h1, h2, h3⟩
      · exact loop_total_bounded _ _ _ _ _ h1 _ _ _ _ h3 (by omega)
      · exact loop_total_stop _ _ _ _ _ _ _ _ _ k h1 (by omega) h3

/-- finite scripts (what the oracle evaluates) always come with enough fuel -/
theorem runScript_total (c : Cfg) (retries : Int) (script : List Outcome) (entry : Option Err) (evs : List WaitEv)
    (rnds : List Int) : (runScript c retries script entry evs rnds).exhausted = false := by
  unfold runScript
  apply terminates
  refine Or.inr ⟨script.length + 1, by omega, by omega, Or.inr ?_⟩
  simp [opOf]

/-- **runs_exhaust.** If a limit is configured and every one of the first `max(1, retries)` runs fails recoverably
with no interference from the context, the operation runs exactly `max(1, retries)` times and the failure is
`ErrRetriesExceeded`. -/
theorem runs_exhaust (c : Cfg) (retries : Int) (op : Nat → Outcome) (ctx : Ctx) (rnd : Nat → Int) (fuel : Nat)
    (he : ctx.entry = none) (hr : retries ≠ forever) (hf : retries ≤ fuel ∧ 1 ≤ fuel)
    (hop : ∀ k : Nat, 1 ≤ k → (k : Int) ≤ max 1 retries → op k = .retry)
    (hev : ∀ k : Nat, 1 ≤ k → (k : Int) < max 1 retries → ctx.ev k = .pass) :
    ((run c retries op ctx rnd fuel).calls : Int) = max 1 retries ∧
    ∃ fe, (run c retries op ctx rnd fuel).res = some fe ∧ fe.main = .retriesExceeded := by
  have hx := terminates c retries op ctx rnd fuel (Or.inl ⟨hr, hf.1, hf.2⟩)
  have ⟨t1, t2, t3⟩ := runs_total c retries op ctx rnd fuel he hx
  generalize ho : run c retries op ctx rnd fuel = o at hx t1 t2 t3 ⊢
  have hcalls : (o.calls : Int) = max 1 retries := by
    generalize o.calls = n at *
    have hle : (n : Int) ≤ max 1 retries := by
      apply Int.not_lt.mp
      intro hlt
      have hk : ((max 1 retries).toNat : Int) = max 1 retries := Int.toNat_of_nonneg (by omega)
      refine t3 (max 1 retries).toNat (by omega) (by omega) (Or.inr (Or.inl ?_))
      rw [not_cont_iff]; exact ⟨hr, by omega⟩
    have hge : max 1 retries ≤ (n : Int) := by
      apply Int.not_lt.mp
      intro hlt
      rcases t2 with h | h | h
      · exact h (hop n t1 (by omega))
      · rw [not_cont_iff] at h; omega
      · exact h (hev n t1 hlt)
    omega
  refine ⟨hcalls, ?_⟩
  rcases run_cases c retries op ctx rnd fuel o ho he hx with ⟨h1, _⟩ | ⟨h1, _⟩ | ⟨h1, m, re, ws, hre, hex⟩
  · rw [hop 1 (by omega) (by omega)] at h1; cases h1
  · rw [hop 1 (by omega) (by omega)] at h1; cases h1
  · have hm := (reaches_from_one _ _ _ _ _ hre h1).1
    cases hex with
    | exhausted hc => exact ⟨_, rfl, rfl⟩
    | exceeds hc hv =>
      simp only at hcalls
      have := hev m hm (by unfold cont at hc; omega); rw [this] at hv; cases hv
    | ends e hc hv =>
      simp only at hcalls
      have := hev m hm (by unfold cont at hc; omega); rw [this] at hv; cases hv
    | ok hc hv hok =>
      simp only at hcalls
      have := hop (m + 1) (by omega) (by omega); rw [this] at hok; cases hok
    | fatal hc hv hok =>
      simp only at hcalls
      have := hop (m + 1) (by omega) (by omega); rw [this] at hok; cases hok

/-- **below_one_is_one.** A count below one (other than `Forever`) behaves exactly as a count of one. -/
theorem below_one_is_one (c : Cfg) (retries : Int) (op : Nat → Outcome) (ctx : Ctx) (rnd : Nat → Int) (fuel : Nat)
    (h : retries < 1) (hr : retries ≠ forever) :
    run c retries op ctx rnd fuel = run c 1 op ctx rnd fuel := by
  unfold run
  split
  · rfl
  · split
    · rfl
    · rfl
    · cases fuel with
      | zero => rfl
      | succ fuel =>
        unfold loop
        have h1 : ¬ (retries = forever ∨ ((1 : Nat) : Int) < retries) := by omega
        have h2 : ¬ ((1 : Int) = forever ∨ ((1 : Nat) : Int) < 1) := by unfold forever; omega
        simp only [h1, h2, if_false]

/-- **stops_at_once.** A context that has ended at entry means the operation is never run; and no run follows a
success, an unrecoverable error, or a wait at which the context ended / the deadline check failed. -/
theorem stops_at_once (c : Cfg) (retries : Int) (op : Nat → Outcome) (ctx : Ctx) (rnd : Nat → Int) (fuel : Nat) :
    (ctx.entry ≠ none → (run c retries op ctx rnd fuel).calls = 0) ∧
    (ctx.entry = none → (run c retries op ctx rnd fuel).exhausted = false →
      ∀ k, 1 ≤ k → (op k = .ok ∨ op k = .fatal ∨ ctx.ev k ≠ .pass) → (run c retries op ctx rnd fuel).calls ≤ k) := by
  constructor
  · intro h
    unfold run
    split
    · rfl
    · rename_i h'; exact absurd h' h
  · intro he hx k hk hs
    have ⟨_, _, t3⟩ := runs_total c retries op ctx rnd fuel he hx
    apply Nat.not_lt.mp
    intro hlt
    refine t3 k hk hlt ?_
    rcases hs with hs | hs | hs
    · exact Or.inl (by simp [hs])
    · exact Or.inl (by simp [hs])
    · exact Or.inr (Or.inr hs)

example : (runScript ⟨1, 0, 2, false⟩ forever [.retry, .retry, .fatal, .retry] none [] []).calls = 3 := by decide
example : (runScript ⟨1, 0, 2, false⟩ forever [.retry, .retry, .retry] none [.pass, .ends .canceled] []).calls = 2 := by decide

/-- **success_iff_last_ok.** The result is nil exactly when the last run succeeded. -/
theorem success_iff_last_ok (c : Cfg) (retries : Int) (op : Nat → Outcome) (ctx : Ctx) (rnd : Nat → Int) (fuel : Nat)
    (hx : (run c retries op ctx rnd fuel).exhausted = false) :
    (run c retries op ctx rnd fuel).res = none ↔
      (1 ≤ (run c retries op ctx rnd fuel).calls ∧ op (run c retries op ctx rnd fuel).calls = .ok) := by
  cases he : ctx.entry with
  | some e => simp [run, he]
  | none =>
    generalize ho : run c retries op ctx rnd fuel = o at hx ⊢
    rcases run_cases c retries op ctx rnd fuel o ho he hx with ⟨h1, hr⟩ | ⟨h1, hr⟩ | ⟨h1, m, re, ws, hre, hex⟩
    · subst hr; simp [h1]
    · subst hr; simp [h1]
    · have ⟨f1, f2, _⟩ := reaches_from_one _ _ _ _ _ hre h1
      have hm := f2 m f1 (Nat.le_refl _)
      cases hex with
      | exhausted hc => simp [hm]
      | exceeds hc hev => simp [hm]
      | ends e hc hev => simp [hm]
      | ok hc hev hop => simp [hop]
      | fatal hc hev hop => simp [hop]

/-- **failure_reason.** A non-nil result matches, in the `errors.Is` sense, the reason the retrying stopped:
the context's error (at entry or at a wait), `ErrWaitExceedsDeadline`, the unrecoverable error, `ErrRetriesExceeded`.
`MainErr` is that reason itself except in one case: when the very first run fails unrecoverably the code sets
`MainErr = ErrRetriesExceeded`; the unrecoverable error then still matches because it is the only entry of `Others`. -/
theorem failure_reason (c : Cfg) (retries : Int) (op : Nat → Outcome) (ctx : Ctx) (rnd : Nat → Int) (fuel : Nat)
    (hx : (run c retries op ctx rnd fuel).exhausted = false) (fe : FErr)
    (hres : (run c retries op ctx rnd fuel).res = some fe) :
    fe.is fe.main = true ∧
    (∀ e, ctx.entry = some e → fe.main = e) ∧
    (ctx.entry = none →
      (op (run c retries op ctx rnd fuel).calls = .fatal →
          fe.is (.op (run c retries op ctx rnd fuel).calls) = true ∧
          (2 ≤ (run c retries op ctx rnd fuel).calls → fe.main = .op (run c retries op ctx rnd fuel).calls) ∧
          ((run c retries op ctx rnd fuel).calls = 1 → fe.main = .retriesExceeded ∧ fe.others = [.op 1])) ∧
      (op (run c retries op ctx rnd fuel).calls = .retry →
          (¬ cont retries (run c retries op ctx rnd fuel).calls → fe.main = .retriesExceeded) ∧
          (cont retries (run c retries op ctx rnd fuel).calls →
            (ctx.ev (run c retries op ctx rnd fuel).calls = .exceeds → fe.main = .waitExceedsDeadline) ∧
            (∀ e, ctx.ev (run c retries op ctx rnd fuel).calls = .ends e → fe.main = e)))) := by
  refine ⟨by simp [FErr.is], ?_, ?_⟩
  · intro e he
    simp [run, he] at hres
    rw [← hres]
  · intro he
    generalize ho : run c retries op ctx rnd fuel = o at hx hres ⊢
    rcases run_cases c retries op ctx rnd fuel o ho he hx with ⟨h1, hr⟩ | ⟨h1, hr⟩ | ⟨h1, m, re, ws, hre, hex⟩
    · subst hr; simp at hres
    · subst hr
      simp only [Option.some.injEq] at hres
      subst hres
      simp [h1, newFError, FErr.is]
    · have ⟨f1, f2, _⟩ := reaches_from_one _ _ _ _ _ hre h1
      have hm := f2 m f1 (Nat.le_refl _)
      cases hex with
      | exhausted hc =>
        simp only [Option.some.injEq] at hres; subst hres
        simp [hm, hc]
      | exceeds hc hev =>
        simp only [Option.some.injEq] at hres; subst hres
        simp [hm, hc, hev]
      | ends e hc hev =>
        simp only [Option.some.injEq] at hres; subst hres
        simp [hm, hc, hev]
      | ok hc hev hop => simp at hres
      | fatal hc hev hop =>
        simp only [Option.some.injEq] at hres; subst hres
        simp [hop, FErr.is]
        omega

example : ∃ fe, (runScript ⟨1, 0, 2, false⟩ 5 [.fatal] none [] []).res = some fe ∧ fe.main = .retriesExceeded ∧
    fe.is (.op 1) = true := ⟨_, rfl, by decide, by decide⟩
example : ∃ fe, (runScript ⟨1, 0, 2, false⟩ 5 [.retry, .fatal] none [] []).res = some fe ∧ fe.main = .op 2 :=
  ⟨_, rfl, by decide⟩

/-- For the record (DESIGN.md): the error returned for a context that had ended at entry has an empty `Others`, so
its `Is` method matches *every* target (the "all others match" loop is vacuous). -/
theorem entry_is_vacuous (c : Cfg) (retries : Int) (op : Nat → Outcome) (ctx : Ctx) (rnd : Nat → Int) (fuel : Nat)
    (e : Err) (he : ctx.entry = some e) :
    ∃ fe, (run c retries op ctx rnd fuel).res = some fe ∧ fe.main = e ∧ fe.others = [] ∧ ∀ t, fe.is t = true := by
  refine ⟨_, by simp [run, he]; rfl, rfl, rfl, fun t => by simp [FErr.is]⟩

/-- **kept_errors.** A failure retains at most `max(1, KeepErrs)` errors, each of them an error that one of the runs
really returned; the ring-buffer index stays inside the buffer (so `addErr` cannot panic). -/
theorem kept_errors (c : Cfg) (retries : Int) (op : Nat → Outcome) (ctx : Ctx) (rnd : Nat → Int) (fuel : Nat)
    (hx : (run c retries op ctx rnd fuel).exhausted = false) (fe : FErr)
    (hres : (run c retries op ctx rnd fuel).res = some fe) :
    (fe.others.length : Int) ≤ max 1 c.keepErrs ∧
    (∀ x ∈ fe.others, ∃ i, 1 ≤ i ∧ i ≤ (run c retries op ctx rnd fuel).calls ∧ x = .op i ∧ op i ≠ .ok) ∧
    (fe.others ≠ [] → fe.last < fe.others.length) ∧
    (ctx.entry = none → 1 ≤ fe.others.length) := by
  cases he : ctx.entry with
  | some e =>
    simp [run, he] at hres
    subst hres
    simp; omega
  | none =>
    generalize ho : run c retries op ctx rnd fuel = o at hx hres ⊢
    have pack : ∀ n (re : FErr), FInv op c.keepErrs n re → ∀ k, n ≤ k → ∀ e,
        (({ re with main := e } : FErr).others.length : Int) ≤ max 1 c.keepErrs ∧
        (∀ x ∈ ({ re with main := e } : FErr).others, ∃ i, 1 ≤ i ∧ i ≤ k ∧ x = .op i ∧ op i ≠ .ok) ∧
        (({ re with main := e } : FErr).others ≠ [] →
          ({ re with main := e } : FErr).last < ({ re with main := e } : FErr).others.length) ∧
        (True → 1 ≤ ({ re with main := e } : FErr).others.length) := fun n re hi k hk e =>
      ⟨hi.len_le, fun x hx => by
        obtain ⟨i, a, b, c', d⟩ := hi.mem x hx
        exact ⟨i, a, by omega, c', d⟩, fun _ => hi.last_lt, fun _ => hi.len_pos⟩
    rcases run_cases c retries op ctx rnd fuel o ho he hx with ⟨h1, hr⟩ | ⟨h1, hr⟩ | ⟨h1, m, re, ws, hre, hex⟩
    · subst hr; simp at hres
    · subst hr
      simp only [Option.some.injEq] at hres
      subst hres
      have := pack 1 _ (finv_new op c.keepErrs (by simp [h1])) 1 (Nat.le_refl _) .retriesExceeded
      simpa [newFError] using this
    · have hinv := reaches_finv _ _ _ _ _ hre (finv_new op c.keepErrs (by simp [h1]))
      cases hex with
      | exhausted hc =>
        simp only [Option.some.injEq] at hres; subst hres
        simpa using pack m re hinv m (Nat.le_refl _) .retriesExceeded
      | exceeds hc hev =>
        simp only [Option.some.injEq] at hres; subst hres
        simpa using pack m re hinv m (Nat.le_refl _) .retriesExceeded
      | ends e hc hev =>
        simp only [Option.some.injEq] at hres; subst hres
        simpa using pack m re hinv m (Nat.le_refl _) .retriesExceeded
      | ok hc hev hop => simp at hres
      | fatal hc hev hop =>
        simp only [Option.some.injEq] at hres; subst hres
        simpa using pack m re hinv (m + 1) (by omega) .retriesExceeded

example : ∃ fe, (runScript ⟨1, 0, 2, false⟩ forever [.retry, .retry, .retry, .retry, .fatal] none [] []).res = some fe ∧
    fe.others = [.op 3, .op 4] ∧ fe.main = .op 5 := ⟨_, rfl, by decide, by decide⟩
example : ∃ fe, (runScript ⟨1, 0, 0, false⟩ 4 [.retry, .retry, .retry, .retry] none [] []).res = some fe ∧
    fe.others = [.op 1] := ⟨_, rfl, by decide⟩

/-- **waits_are_nextWait.** The pause computed before the k-th re-run is `nextWait(k)` of the normalised policy with
that wait's jitter draw; one pause per re-run, plus possibly a last one that the context or the deadline check cut
short. -/
theorem waits_are_nextWait (c : Cfg) (retries : Int) (op : Nat → Outcome) (ctx : Ctx) (rnd : Nat → Int) (fuel : Nat)
    (hx : (run c retries op ctx rnd fuel).exhausted = false) :
    (run c retries op ctx rnd fuel).waits =
      (List.range' 1 (run c retries op ctx rnd fuel).waits.length).map (fun k : Nat => c.norm.nextWait k (rnd k)) ∧
    (run c retries op ctx rnd fuel).calls - 1 ≤ (run c retries op ctx rnd fuel).waits.length ∧
    (run c retries op ctx rnd fuel).waits.length ≤ (run c retries op ctx rnd fuel).calls := by
  cases he : ctx.entry with
  | some e => simp [run, he]
  | none =>
    generalize ho : run c retries op ctx rnd fuel = o at hx ⊢
    rcases run_cases c retries op ctx rnd fuel o ho he hx with ⟨h1, hr⟩ | ⟨h1, hr⟩ | ⟨h1, m, re, ws, hre, hex⟩
    · subst hr; simp
    · subst hr; simp
    · have hw : WInv c.norm rnd m ws := reaches_winv _ _ _ _ _ hre (Nat.le_refl _) (by simp [WInv])
      have hm := (reaches_from_one _ _ _ _ _ hre h1).1
      have hw' := winv_step c.norm rnd hm hw
      have hl : ws.length = m - 1 := by rw [hw]; simp
      unfold WInv at hw hw'
      cases hex with
      | exhausted hc =>
        refine ⟨?_, by simp; omega, by simp; omega⟩
        simp only [hl]; exact hw
      | exceeds hc hev =>
        refine ⟨?_, by simp; omega, by simp; omega⟩
        simp only [List.length_append, List.length_singleton, hl]; rw [hw']; congr 2; omega
      | ends e hc hev =>
        refine ⟨?_, by simp; omega, by simp; omega⟩
        simp only [List.length_append, List.length_singleton, hl]; rw [hw']; congr 2; omega
      | ok hc hev hop =>
        refine ⟨?_, by simp; omega, by simp; omega⟩
        simp only [List.length_append, List.length_singleton, hl]; rw [hw']; congr 2; omega
      | fatal hc hev hop =>
        refine ⟨?_, by simp; omega, by simp; omega⟩
        simp only [List.length_append, List.length_singleton, hl]; rw [hw']; congr 2; omega

/-- **waits_bounded.** Every pause `RetryWithCtx` asks for is in `[0, Max']` (`Max'` = configured maximum, MaxInt64 if
none), for every policy, every count, every behaviour of the operation and the context, every jitter draw. -/
theorem waits_bounded (c : Cfg) (retries : Int) (op : Nat → Outcome) (ctx : Ctx) (rnd : Nat → Int) (fuel : Nat)
    (hx : (run c retries op ctx rnd fuel).exhausted = false)
    (hb : c.backOff < 2 ^ 63) (hm : c.max < 2 ^ 63) (hr : ∀ k, 0 ≤ rnd k) :
    ∀ w ∈ (run c retries op ctx rnd fuel).waits, 0 ≤ w ∧ w ≤ (if c.max ≤ 0 then maxInt64 else c.max) := by
  intro w hw
  rw [(waits_are_nextWait c retries op ctx rnd fuel hx).1] at hw
  obtain ⟨k, _, rfl⟩ := List.mem_map.mp hw
  have := api_wait_bounds c k (rnd k) hb hm (hr k)
  exact ⟨this.1, by rw [← this.2.2]; exact this.2.1⟩

example : (runScript ⟨1000, 3000, 2, false⟩ 5 [.retry, .retry, .retry, .retry, .retry] none [] []).waits =
    [1000, 2000, 3000, 3000] := by decide

/-! ## the monitor and the jitter feasibility decision used by the correspondence -/

/-- the pause monitor applied to real observations accepts everything the (translated) code can return -/
theorem monitor_accepts (base max keep : Int) (jitter : Bool) (n s : Int) (hb : 1 ≤ base) (hm : 1 ≤ max)
    (hm' : max < 2 ^ 63) (hs : 0 ≤ s) (hs' : s < 2 ^ n.toNat) :
    specWaitOk base max jitter n (Gen.retry_nextWait base max keep jitter n s) = true := by
  unfold specWaitOk
  cases jitter
  · rw [wait_nojitter base max keep n s hb hm hm']
    split
    · simp
    · split <;> simp
  · have hj := wait_jitter base max keep n s hb hm hm' hs hs'
    rw [wait_jitter_exact base max keep n s hb hm hm' hs] at hj ⊢
    by_cases h1 : n ≤ 0
    · simp [h1]
    · by_cases h2 : n ≥ 63
      · simp [h1, h2]
      · simp only [h1, h2, if_false] at hj ⊢
        simp only [if_true, Bool.and_eq_true, decide_eq_true_eq, Bool.or_eq_true, beq_iff_eq]
        refine ⟨⟨hj.1, hj.2⟩, ?_⟩
        by_cases h : max ≤ base * s
        · exact Or.inl (by omega)
        · right
          have : min max (base * s) = base * s := by omega
          rw [this]; exact Int.mul_emod_right base s

example : specWaitOk 3 100 true 3 22 = false ∧ specWaitOk 3 100 false 3 13 = false ∧ specWaitOk 3 100 false 3 12 = true := by decide


/-- every value the decision accepts is produced by some draw `0 ≤ s < 2^n` -/
theorem feasible_sound (base max n w : Int) (h : feasible base max n w = true) :
    ∃ s, 0 ≤ s ∧ s < 2 ^ n.toNat ∧ Gen.retry_nextWait base max 0 true n s = w := by
  unfold feasible at h
  split at h
  · refine ⟨0, by omega, ?_, by simpa using h⟩
    have := two_pow_mono (Nat.zero_le n.toNat); omega
  · rw [List.any_eq_true] at h
    obtain ⟨s, _, hs⟩ := h
    simp only [Bool.and_eq_true, decide_eq_true_eq, beq_iff_eq] at hs
    exact ⟨s, hs.1.1, hs.1.2, hs.2⟩

/-- for positive int64 base and max, every value some draw produces is accepted: the decision is exact -/
theorem feasible_complete (base max n w : Int) (hb : 1 ≤ base) (hm : 1 ≤ max) (hm' : max < 2 ^ 63)
    (h : ∃ s, 0 ≤ s ∧ s < 2 ^ n.toNat ∧ Gen.retry_nextWait base max 0 true n s = w) :
    feasible base max n w = true := by
  obtain ⟨s, hs0, hs1, hw⟩ := h
  unfold feasible
  by_cases hn : n ≤ 0 ∨ n ≥ 63
  · simp only [hn, if_true, beq_iff_eq]
    rw [← hw, wait_jitter_exact base max 0 n s hb hm hm' hs0, wait_jitter_exact base max 0 n 0 hb hm hm' (by omega)]
    rcases hn with hn | hn
    · simp [hn]
    · have : ¬ n ≤ 0 := by omega
      simp [hn, this]
  · simp only [hn, if_false]
    have e1 : ∀ t, 0 ≤ t → Gen.retry_nextWait base max 0 true n t = min max (base * t) := fun t ht => by
      rw [wait_jitter_exact base max 0 n t hb hm hm' ht]
      have a : ¬ n ≤ 0 := by omega
      have b : ¬ n ≥ 63 := by omega
      simp [a, b]
    rw [e1 s hs0] at hw
    rw [List.any_eq_true]
    have hb0 : base ≠ 0 := by omega
    by_cases hle : base * s ≤ max
    · -- the value is base * s itself: the candidate w / base = s
      have hws : w = base * s := by omega
      refine ⟨s, ?_, ?_⟩
      · have : w / base = s := by rw [hws]; exact Int.mul_ediv_cancel_left s hb0
        simp [feasCandidates, hb0, this]
      · simp only [Bool.and_eq_true, decide_eq_true_eq, beq_iff_eq]
        exact ⟨⟨hs0, hs1⟩, by rw [e1 s hs0]; omega⟩
    · -- the value is max: the largest draw gives it as well
      have hws : w = max := by omega
      have hp := two_pow_mono (Nat.zero_le n.toNat)
      have hmul : base * s ≤ base * (2 ^ n.toNat - 1) := Int.mul_le_mul_of_nonneg_left (by omega) (by omega)
      refine ⟨2 ^ n.toNat - 1, by simp [feasCandidates], ?_⟩
      simp only [Bool.and_eq_true, decide_eq_true_eq, beq_iff_eq]
      exact ⟨⟨by omega, by omega⟩, by rw [e1 _ (by omega)]; omega⟩

example : feasible 3 100 3 21 = true ∧ feasible 3 100 3 22 = false ∧ feasible 3 20 3 20 = true := by decide

/-! ## the model is the source

`Gen.retry_ExpBackOff_RetryWithCtx` is the go2seq translation of `ExpBackOff.RetryWithCtx` (regenerated from
`retry.go` on every run; the `for` loop is a recursion on a fuel argument). `SeqGlue.retryEnv` states what the calls
mean (the scripted operation, the context script, the translated `nextWait`, `newFError`/`addErr`); the decision
structure is the source's. Every theorem above about `Retry.run` is therefore a theorem about the translated source. -/

/-- **Source = model**: for every policy, count, operation script, context script, jitter draws, every resolution of
the race between the timer and `ctx.Done()` (`late`), with or without a deadline (`hd`; a wait can only be refused for
the deadline when there is one) and every fuel below 2^63, the translated `RetryWithCtx` and the model `Retry.run`
agree on the number of calls, on the `*FError` returned (or nil) and on the pauses — or both run out of fuel. -/
theorem src_retry (c : Cfg) (retries : Int) (op : Nat → Outcome) (ctx : Ctx) (rnd : Nat → Int)
    (late : Nat → Bool) (hd : Bool) (hhd : hd = true ∨ ∀ n, SeqGlue.isExceeds (ctx.ev n) = false)
    (fuel : Nat) (hf : (fuel : Int) + 1 < 2 ^ 63) :
    SeqGlue.obsT (Gen.retry_ExpBackOff_RetryWithCtx (SeqGlue.retryEnv op ctx.entry ctx.ev rnd late hd) fuel
        ⟨0, SeqGlue.zeroFErr, []⟩ c () retries ())
      = SeqGlue.obsM (run c retries op ctx rnd fuel) :=
  SeqGlue.src_retry_run c retries op ctx rnd late hd hhd fuel hf

/-- the translated source, run on a script: two recoverable failures then success, three runs allowed, base 5 ns:
three calls, nil, pauses 5 and 10 -/
example : SeqGlue.obsT (Gen.retry_ExpBackOff_RetryWithCtx
      (SeqGlue.retryEnv (opOf [.retry, .retry, .ok]) none (evOf []) (rndOf []) (fun _ => false) false) 10
      ⟨0, SeqGlue.zeroFErr, []⟩ ⟨5, 100, 2, false⟩ () 3 ()) = some (3, none, [5, 10]) := by decide

/-- … and when the context ends during the second wait, whichever way the race goes -/
example : ∀ late : Bool, SeqGlue.obsT (Gen.retry_ExpBackOff_RetryWithCtx
      (SeqGlue.retryEnv (opOf [.retry, .retry, .ok]) none (evOf [.pass, .ends .canceled]) (rndOf []) (fun _ => late) false) 10
      ⟨0, SeqGlue.zeroFErr, []⟩ ⟨5, 100, 2, false⟩ () 3 ()) =
      some (2, some { main := .canceled, others := [.op 1, .op 2], attempts := 1, max := 2, last := 0 }, [5, 10]) := by decide

end LLRP.C18
