import LLRP.Model.Race
import LLRP.Model.RacePolicy
import LLRP.Proofs.Race
/-!
# C20 — Client and device supervisor are free of data races

`policy_sound` is about the race model (`LLRP/Model/Race.lean`): *every* well-formed trace — any length, any
number of goroutines, any interleaving — in which each access respects the protection policy of its location has no
pair of conflicting accesses unordered by happens-before. `sites_conform` / `calls_conform` are `decide`d over the
access and call tables that the translator regenerates from the source on every run: each syntactic access site of
a field of `llrp.Client`, `driver.LLRPDevice`, `driver.Driver` respects the policy that `RacePolicy.table` assigns
to the field. The step from "every site conforms" to "every trace of the program obeys the policy" is the
extractor's syntactic lock-scope claim and is trusted (it is what the `-race` scenarios of the harness probe).
-/
namespace LLRP.C20
open LLRP LLRP.Race

/-- what `conflict` means: same location, different threads, at least one write, not both atomic -/
theorem conflict_spec {a b : Event} (h : conflict a b = true) :
    ∃ x, a.loc? = some x ∧ b.loc? = some x ∧ a.thread ≠ b.thread ∧ (a.isWrite = true ∨ b.isWrite = true) ∧
      ¬ (a.isAtomic = true ∧ b.isAtomic = true) := by
  unfold conflict at h
  split at h
  · next x y hx hy =>
    simp only [Bool.and_eq_true, beq_iff_eq, bne_iff_ne, ne_eq, Bool.or_eq_true, Bool.not_eq_true',
      Bool.and_eq_false_iff] at h
    obtain ⟨⟨⟨hxy, hne⟩, hw⟩, hat⟩ := h
    subst hxy
    refine ⟨x, hx, hy, hne, hw, ?_⟩
    rintro ⟨h1, h2⟩
    rcases hat with h | h <;> simp_all
  · exact absurd h (by simp)

/-- **Soundness of the discipline, for all traces.** A well-formed trace whose accesses obey the protection policy
of their locations (`guardedBy` incl. reader/writer locks and constructor accesses, `initBeforeFork`, `atomicOnly`,
`owned`) has no data race. -/
theorem policy_sound {tr : Trace} {pol : Loc → Policy} (wf : WF tr) (ob : Obeys tr pol) : ¬ Race tr := by
  rintro ⟨i, j, a, b, hij, ha, hb, hc, hn⟩
  obtain ⟨x, hax, hbx, hne, hw, hat⟩ := conflict_spec hc
  have oa := ob i a x ha hax
  have obb := ob j b x hb hbx
  unfold ObeysAt at oa obb
  -- an initialisation access on either side settles it: it happens before every foreign access
  have initA : InitAccess tr i → False := fun hi =>
    hn (init_hb hi ha hb (hbx.trans hax.symm) (Ne.symm hne)).2
  have initB : InitAccess tr j → False := fun hj =>
    absurd (init_hb hj hb ha (hax.trans hbx.symm) hne).1 (by omega)
  cases hp : pol x with
  | guardedBy m =>
    rw [hp] at oa obb
    simp only at oa obb
    rcases oa with hi | oa
    · exact initA hi
    rcases obb with hj | obb
    · exact initB hj
    -- both hold the mutex, at least one exclusively: the critical sections are ordered, rel → acq gives hb
    apply hn
    apply guarded_hb wf hij ha hb hne
    · rcases oa with h | h
      · exact Or.inl h
      · exact Or.inr h.2
    · rcases obb with h | h
      · exact Or.inl h
      · exact Or.inr h.2
    · rcases oa with h | h
      · exact Or.inl h
      · rcases obb with h' | h'
        · exact Or.inr h'
        · rcases hw with hw | hw
          · rw [h.1] at hw; cases hw
          · rw [h'.1] at hw; cases hw
  | initBeforeFork =>
    rw [hp] at oa obb
    simp only at oa obb
    rcases hw with hw | hw
    · exact initA (oa hw)
    · exact initB (obb hw)
  | atomicOnly =>
    rw [hp] at oa obb
    exact hat ⟨oa, obb⟩
  | owned t =>
    rw [hp] at oa obb
    simp only at oa obb
    exact hne (oa.trans obb.symm)

/-- happens-before is a strict order compatible with trace order -/
theorem hb_forward {tr : Trace} {i j : Nat} (h : HB tr i j) : i < j := h.lt

theorem hb_trans {tr : Trace} {i k j : Nat} (h1 : HB tr i k) (h2 : HB tr k j) : HB tr i j := h1.trans h2

/-- the oracle's executable checks decide the declarative notions (`race-check` verb) -/
theorem hb_decided {tr : Trace} {i j : Nat} : hbB tr i j = true ↔ HB tr i j := hbB_iff

theorem race_decided {tr : Trace} : raceB tr = true ↔ Race tr := raceB_iff

theorem wf_checked {tr : Trace} (h : wfB tr = true) : WF tr := wfB_sound h

/-! ## the code's access sites respect the policy table (regenerated tables, `decide`) -/

set_option maxRecDepth 100000 in
/-- every extracted read/write site of a field of `Client`, `LLRPDevice`, `Driver` conforms to the policy of its
field, except the individually argued `RacePolicy.exceptions` (which the check reports as known findings) -/
theorem sites_conform :
    ∀ a ∈ Gen.accesses, RacePolicy.isException a = false → RacePolicy.conforms RacePolicy.table a = true := by
  decide

set_option maxRecDepth 100000 in
/-- the helpers the policy relies on are called as assumed: `closeLocked` only by plain calls with `clientLock`
held; `setStdLogger` only from the option closure and from `Connect` before its `go` statements -/
theorem calls_conform : ∀ c ∈ Gen.raceCalls, RacePolicy.callConforms c = true := by
  decide

set_option maxRecDepth 100000 in
/-- every listed exception is exactly one site of the current source (a stale exception, or one that has come to cover
several sites, is an error) -/
theorem exceptions_are_sites : ∀ e ∈ RacePolicy.exceptions, (Gen.accesses.filter (RacePolicy.matchesExc e)).length = 1 := by
  decide

set_option maxRecDepth 100000 in
/-- every tracked struct field that is accessed has a policy -/
theorem table_covers :
    ∀ a ∈ Gen.accesses, (RacePolicy.table.find? (fun e => e.struct == a.struct && e.field == a.field)).isSome = true := by
  decide

/-! ## non-vacuity -/

/-- X (0): initBeforeFork, G (1): guardedBy mutex 0, A (2): atomicOnly, O (3): owned by thread 1 -/
def exPol : Loc → Policy
  | 0 => .initBeforeFork
  | 1 => .guardedBy 0
  | 2 => .atomicOnly
  | _ => .owned 1

/-- thread 0 initialises X, forks thread 1, writes G under the lock; thread 1 reads X, reads G under the read
lock; both touch A atomically; thread 1 owns O -/
def exTr : Trace :=
  [.wr 0 0, .fork 0 1, .acq 0 0, .wr 0 1, .rel 0 0, .rd 1 0, .racq 1 0, .rd 1 1, .rrel 1 0,
   .atomicWr 0 2, .atomicRd 1 2, .wr 1 3]

example : WF exTr := wfB_sound (by decide)

theorem exTr_cases {i : Nat} {e : Event} (h : exTr[i]? = some e) :
    (i = 0 ∧ e = .wr 0 0) ∨ (i = 1 ∧ e = .fork 0 1) ∨ (i = 2 ∧ e = .acq 0 0) ∨ (i = 3 ∧ e = .wr 0 1) ∨
    (i = 4 ∧ e = .rel 0 0) ∨ (i = 5 ∧ e = .rd 1 0) ∨ (i = 6 ∧ e = .racq 1 0) ∨ (i = 7 ∧ e = .rd 1 1) ∨
    (i = 8 ∧ e = .rrel 1 0) ∨ (i = 9 ∧ e = .atomicWr 0 2) ∨ (i = 10 ∧ e = .atomicRd 1 2) ∨ (i = 11 ∧ e = .wr 1 3) := by
  have hlt : i < 12 := (List.getElem?_eq_some_iff.mp h).1
  have : i = 0 ∨ i = 1 ∨ i = 2 ∨ i = 3 ∨ i = 4 ∨ i = 5 ∨ i = 6 ∨ i = 7 ∨ i = 8 ∨ i = 9 ∨ i = 10 ∨ i = 11 := by omega
  rcases this with rfl | rfl | rfl | rfl | rfl | rfl | rfl | rfl | rfl | rfl | rfl | rfl <;>
    simp [exTr] at h <;> simp [h]

theorem exTr_obeys : Obeys exTr exPol := by
  intro i e x hi hx
  rcases exTr_cases hi with ⟨rfl, rfl⟩ | ⟨rfl, rfl⟩ | ⟨rfl, rfl⟩ | ⟨rfl, rfl⟩ | ⟨rfl, rfl⟩ | ⟨rfl, rfl⟩ |
      ⟨rfl, rfl⟩ | ⟨rfl, rfl⟩ | ⟨rfl, rfl⟩ | ⟨rfl, rfl⟩ | ⟨rfl, rfl⟩ | ⟨rfl, rfl⟩ <;>
    simp [Event.loc?] at hx <;> subst hx <;> simp only [ObeysAt, exPol]
  · -- wr 0 X at 0 is an initialisation access: the only foreign access (position 5) is in the thread forked at 1
    intro _
    intro a ha j b hb hl ht
    simp [exTr] at ha
    subst ha
    rcases exTr_cases hb with ⟨rfl, rfl⟩ | ⟨rfl, rfl⟩ | ⟨rfl, rfl⟩ | ⟨rfl, rfl⟩ | ⟨rfl, rfl⟩ | ⟨rfl, rfl⟩ |
      ⟨rfl, rfl⟩ | ⟨rfl, rfl⟩ | ⟨rfl, rfl⟩ | ⟨rfl, rfl⟩ | ⟨rfl, rfl⟩ | ⟨rfl, rfl⟩ <;>
      simp [Event.loc?, Event.thread] at hl ht ⊢
    exact Chain.base (k := 1) (by decide) (by decide) rfl
  · -- wr 0 G at 3 holds mutex 0 exclusively (acquired at 2)
    exact Or.inr (Or.inl ⟨2, by decide, rfl, by intro r h1 h2; omega⟩)
  · -- rd 1 X: reads are unrestricted under initBeforeFork
    intro h; cases h
  · -- rd 1 G at 7 holds mutex 0 shared (acquired at 6)
    exact Or.inr (Or.inr ⟨rfl, 6, by decide, rfl, by intro r h1 h2; omega⟩)
  · rfl
  · rfl
  · rfl

/-- the hypotheses of `policy_sound` are satisfiable by a trace that uses every policy; it has no race -/
example : ¬ Race exTr := policy_sound (wfB_sound (by decide)) exTr_obeys

/-- and the executable check agrees -/
example : raceB exTr = false := by decide

/-- a racy trace: two goroutines write one location with nothing in between -/
example : Race [.fork 0 1, .wr 0 7, .wr 1 7] := raceB_iff.mp (by decide)

/-- without the lock the guarded example races (the policy is not vacuous: `Obeys` really is needed) -/
example : Race [.fork 0 1, .acq 0 0, .wr 0 1, .rel 0 0, .rd 1 1] := raceB_iff.mp (by decide)

/-- The shape of the `Client.version` defect: Connect (thread 0) starts the read loop (1) and the write loop (2),
then negotiates: it hands the request to the write loop over the send queue (channel 0), gets the reply from the
read loop over the reply channel (1), and writes `version` (location 9). A keep-alive arrives: the read loop reads
`version` for logging and passes the id over the ack queue (2) to the write loop, which reads `version` to stamp
the ack. Both reads race with the write. -/
def versionTr (wrV rdV : Thread → Loc → Event) : Trace :=
  [.fork 0 1, .fork 0 2, .send 0 0 0, .recv 2 0 0, .send 1 1 0, .recv 0 1 0,
   rdV 1 9, .send 1 2 0, wrV 0 9, .recv 2 2 0, rdV 2 9]

example : Race (versionTr .wr .rd) := raceB_iff.mp (by decide)
example : racePairs (versionTr .wr .rd) = [(6, 8), (8, 10)] := by decide
/-- with atomic loads and stores (the repair) the same schedule has no race -/
example : ¬ Race (versionTr .atomicWr .atomicRd) := fun h => absurd (raceB_iff.mpr h) (by decide)

end LLRP.C20
