import LLRP.Props.C01
import LLRP.Props.C02
import LLRP.Props.C11
import LLRP.Props.C19
import LLRP.Props.C18
import LLRP.Props.C16
import LLRP.Props.C17
import LLRP.Props.C14
