import LLRP.Props.C19
import LLRP.Props.C20
