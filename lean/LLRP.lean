import LLRP.Props.C19
import LLRP.Props.C16
import LLRP.Props.C17
