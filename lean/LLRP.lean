import LLRP.Props.C19
