#!/usr/bin/env python3
"""collect_seeds.py — copy confirmed seeded changes from /tmp/seed/<ID>/out/<k>/ into /verif/seeded/<ID>-<k>/ and write the
summary table seeded/README.md (which checks catch which changes)."""
import glob, json, os, shutil, sys

# usage: collect_seeds.py [<source root, e.g. /tmp/seed2> [<offset added to the seed number, e.g. 3>]]
# without arguments only seeded/README.md is rewritten from the meta.json files already under /verif/seeded
src = sys.argv[1] if len(sys.argv) > 1 else None
off = int(sys.argv[2]) if len(sys.argv) > 2 else 0
for d in (sorted(glob.glob(src + '/C*/out/[123]')) if src else []):
    pid = d.split('/')[-3]; k = str(int(d.split('/')[-1]) + off)
    if not os.path.exists(os.path.join(d, 'patch.diff')):
        continue
    meta = {}
    try:
        meta = json.load(open(os.path.join(d, 'meta.json')))
    except Exception as e:
        meta = {'property': pid, 'summary': '(meta.json unreadable: %s)' % e}
    conf = json.load(open(os.path.join(d, 'confirm.json'))) if os.path.exists(os.path.join(d, 'confirm.json')) else {}
    vres = json.load(open(os.path.join(d, 'vcheck_result.json'))) if os.path.exists(os.path.join(d, 'vcheck_result.json')) else {}
    extra = {}
    p = os.path.join(d, 'notes.json')          # hand-written notes (obsolete seeds, ported patches …)
    if os.path.exists(p):
        extra = json.load(open(p))
    out = os.path.join('/verif/seeded', '%s-%s' % (pid, k))
    os.makedirs(out, exist_ok=True)
    for f in ('patch.diff', 'demo_test.go'):
        shutil.copy(os.path.join(d, f), out)
    checks = {c: dict(exit=r['exit'], wall=r['wall'], first_violation=(r['violations'][0][:2] if r['violations'] else None),
                      no_failing_input_found=bool(r['violations'] and r['violations'][0][2]), obligations_broken=r.get('obligations_broken'))
              for c, r in vres.get('checks', {}).items()}
    caught = sorted(c for c, r in checks.items() if r['exit'] == 1)
    meta_out = dict(property=pid, breaks=meta.get('breaks'), summary=meta.get('summary'), needs=meta.get('needs'),
                    seeder_ran=meta.get('ran'),
                    confirmed_by_me=dict(demo_passes_unchanged=conf.get('demo_unchanged') == 'pass', suite_passes_with_patch=conf.get('suite_with_patch') == 'pass',
                                         demo_fails_with_patch=conf.get('demo_with_patch') == 'fail', how='tools/confirm_seed.py in a scratch worktree of /repo (removed afterwards)'),
                    checks_run=checks, caught_by=caught, how_run='tools/try_seed.py: git -C /repo apply patch.diff; bin/vcheck <id> --tier quick; git -C /repo checkout -- .')
    meta_out.update(extra)
    json.dump(meta_out, open(os.path.join(out, 'meta.json'), 'w'), indent=1)
rows = []
for mp in sorted(glob.glob('/verif/seeded/C*-*/meta.json'), key=lambda p: (p.split('/')[-2].split('-')[0], int(p.split('/')[-2].split('-')[1]))):
    m = json.load(open(mp)); pid, k = mp.split('/')[-2].split('-')
    rows.append((pid, k, (m.get('summary') or '')[:150].replace('\n', ' ').replace('|', '/'), ', '.join(m.get('caught_by') or []) or '—', m.get('note', '')))
with open('/verif/seeded/README.md', 'w') as f:
    f.write('# Seeded changes (written by independent sub-agents from the property text alone)\n\nEach directory holds `patch.diff` (applies to /repo at the commit recorded in meta.json or by fuzz), '
            '`demo_test.go` (fails with the change, passes without) and `meta.json` (what it breaks, what it needs, what was run, which checks report a VIOLATION).\n\n'
            '| seed | change | caught by | note |\n|---|---|---|---|\n')
    for r in rows:
        f.write('| %s/%s | %s | %s | %s |\n' % r)
print(len(rows), 'seeds collected;', sum(1 for r in rows if r[3] != '—'), 'caught')
