#!/usr/bin/env python3
"""confirm_seed.py <seed dir> — confirm a seeded change independently in a scratch worktree of /repo:
unchanged tree: demo passes; with patch: builds, repository tests pass, demo fails. Writes confirm.json."""
import json, os, re, shutil, subprocess, sys

env = dict(os.environ, GOFLAGS='-mod=mod', GOPROXY='off', GOSUMDB='off', GOTOOLCHAIN='local')
def sh(cmd, cwd=None, timeout=1200):
    p = subprocess.run(cmd, shell=True, cwd=cwd, env=env, stdout=subprocess.PIPE, stderr=subprocess.STDOUT, text=True, timeout=timeout)
    return p.returncode, p.stdout

d = os.path.abspath(sys.argv[1])
wt = '/tmp/sc/' + d.replace('/', '_')
sh('git -C /repo worktree remove --force %s' % wt)
shutil.rmtree(wt, ignore_errors=True)
os.makedirs('/tmp/sc', exist_ok=True)
rc, out = sh('git -C /repo worktree add -q --detach %s HEAD' % wt)
assert rc == 0, out
res = {}
try:
    demo = open(os.path.join(d, 'demo_test.go')).read()
    head = '\n'.join(demo.split('\n')[:12])
    m = re.search(r'(pkg/llrp|internal/driver|internal/retry)', head)
    pkg = m.group(1) if m else None
    if not pkg:
        pm = re.search(r'^package (\w+)', demo, re.M)
        pkg = {'llrp': 'pkg/llrp', 'driver': 'internal/driver', 'retry': 'internal/retry'}.get(pm.group(1) if pm else '', None)
    rm = re.search(r"-run[ =]+'?\"?([^'\"\s]+)", head)
    pattern = rm.group(1) if rm else 'Seed'
    race = '-race' in head
    res.update(pkg=pkg, pattern=pattern, race=race)
    demo_dst = os.path.join(wt, pkg, 'zz_seed_demo_test.go')
    cmd = 'go test -vet=off -count=1 %s -run \'%s\' ./%s/' % ('-race' if race else '', pattern, pkg)
    shutil.copy(os.path.join(d, 'demo_test.go'), demo_dst)
    rc, out = sh(cmd, cwd=wt)
    res['demo_unchanged'] = 'pass' if rc == 0 and 'no tests to run' not in out else 'FAIL'
    res['demo_unchanged_out'] = out[-600:]
    os.remove(demo_dst)
    rc, out = sh('git apply --whitespace=nowarn %s' % os.path.join(d, 'patch.diff'), cwd=wt)
    res['applies'] = rc == 0
    for attempt in range(3):      # TestAutoDiscover* use a fixed port: a concurrent suite run elsewhere makes them fail; re-run
        rc, out = sh('go build ./... && go test -vet=off -count=1 ./...', cwd=wt)
        if rc == 0 or 'internal/driver' not in out or 'pkg/llrp\t' in [l.split('ok  \t')[-1] for l in []]:
            break
        fails = [l for l in out.split('\n') if l.startswith('FAIL\t')]
        if not (len(fails) == 1 and 'internal/driver' in fails[0] and '59923' in out):
            break
    res['suite_with_patch'] = 'pass' if rc == 0 else 'FAIL'
    if rc != 0:
        res['suite_out'] = out[-1500:]
    shutil.copy(os.path.join(d, 'demo_test.go'), demo_dst)
    rc, out = sh(cmd, cwd=wt)
    res['demo_with_patch'] = 'fail' if rc != 0 else 'PASSES'
    res['demo_with_patch_out'] = out[-600:]
    res['confirmed'] = res['demo_unchanged'] == 'pass' and res['applies'] and res['suite_with_patch'] == 'pass' and res['demo_with_patch'] == 'fail'
finally:
    sh('git -C /repo worktree remove --force %s' % wt)
    shutil.rmtree(wt, ignore_errors=True)
json.dump(res, open(os.path.join(d, 'confirm.json'), 'w'), indent=1)
print(d, 'confirmed' if res.get('confirmed') else 'NOT CONFIRMED', {k: v for k, v in res.items() if not k.endswith('_out')})
