#!/bin/sh
# eval_wave.sh <seed root> <ID>… — inside a `vp run --with-repo` snapshot: build the framework against the snapshot of the
# repository, then confirm and evaluate the seeded changes of the listed properties (never touches /repo)
root=$1; shift
export VERIF_REPO=${VP_RUN_REPO:?run under vp run --with-repo} SEEDROOT=$root
bin/vsetup > setup.log 2>&1 || { tail -20 setup.log; exit 2; }
for id in "$@"; do sh tools/eval_seeds.sh $id; done
