#!/bin/sh
# eval_pairs.sh <seed root> <ID>/<k>:<Cxx>,<Cyy>… … — inside a `vp run --with-repo` snapshot: build, then run the listed
# checks against single seeded changes (results in <seed dir>/vcheck_result_x.json)
root=$1; shift
export VERIF_REPO=${VP_RUN_REPO:?run under vp run --with-repo} SEEDROOT=$root
bin/vsetup > setup.log 2>&1 || { tail -20 setup.log; exit 2; }
for pair in "$@"; do
  seed=${pair%%:*}; checks=$(echo ${pair#*:} | tr ',' ' ')
  d=$root/${seed%%/*}/out/${seed##*/}
  [ -f $d/confirm.json ] || python3 tools/confirm_seed.py $d
  echo "=== $seed vs $checks"
  cp $d/vcheck_result.json $d/vcheck_result_own.json 2>/dev/null
  python3 tools/try_seed.py $d $checks
  mv $d/vcheck_result.json $d/vcheck_result_x.json
  [ -f $d/vcheck_result_own.json ] && mv $d/vcheck_result_own.json $d/vcheck_result.json
done
