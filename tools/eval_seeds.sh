#!/bin/sh
# eval_seeds.sh <ID> [extra check ids…] — confirm and evaluate $SEEDROOT/<ID>/out/{1,2,3} (SEEDROOT defaults to /tmp/seed)
id=$1; shift
for k in 1 2 3; do
  d=${SEEDROOT:-/tmp/seed}/$id/out/$k
  [ -f $d/patch.diff ] || { echo "$d: no patch"; continue; }
  [ -f $d/confirm.json ] || python3 $(dirname $0)/confirm_seed.py $d
  echo "=== $id/$k"; python3 $(dirname $0)/try_seed.py $d $id "$@"
done
