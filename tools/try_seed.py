#!/usr/bin/env python3
"""try_seed.py <seed dir with patch.diff> <Cxx> [<Cyy>…] — apply a seeded change to /repo, check that it compiles and the
repository's tests pass, run the listed checks (quick tier), undo the change. Prints one line per check."""
import json, os, subprocess, sys, time

def sh(cmd, cwd=None, env=None, timeout=3600):
    p = subprocess.run(cmd, shell=True, cwd=cwd, env=env, stdout=subprocess.PIPE, stderr=subprocess.STDOUT, text=True, timeout=timeout)
    return p.returncode, p.stdout

env = dict(os.environ, GOFLAGS='-mod=mod', GOPROXY='off', GOSUMDB='off', GOTOOLCHAIN='local')
REPO = os.environ.get('VERIF_REPO', '/repo')
VERIF = os.path.dirname(os.path.dirname(os.path.abspath(__file__)))
d = sys.argv[1]
ids = sys.argv[2:]
patch = os.path.join(d, 'patch.diff')
rc, out = sh('git -C %s status --porcelain' % REPO)
if out.strip():
    print('refusing: /repo is not clean'); sys.exit(2)
rc, out = sh('git -C %s apply --whitespace=nowarn %s' % (REPO, patch))
if rc != 0:
    print('patch does not apply:', out); sys.exit(2)
res = {'patch': patch, 'checks': {}}
try:
    rc, out = sh('go build ./... && go test -vet=off -count=1 ./... 2>&1 | tail -8', cwd=REPO, env=env)
    res['tests_pass'] = (rc == 0 and 'FAIL' not in out)
    print('repo tests with the change:', 'pass' if res['tests_pass'] else 'FAIL\n' + out)
    for pid in ids:
        t0 = time.time()
        evp = VERIF + '/evidence/%s.json' % pid
        saved = open(evp).read() if os.path.exists(evp) else None   # evidence of a mutated tree must not replace the real one
        rc, out = sh('bin/vcheck %s --tier quick' % pid, cwd=VERIF, env=env)
        lines = [l for l in out.split('\n') if l.startswith('VIOLATION') or l.startswith('KNOWN-FINDING')]
        keys = []
        for l in lines:
            if l.startswith('VIOLATION'):
                rp = l.split('replay=')[1].split(' ')[0]
                try:
                    b = json.load(open(rp)); keys.append((b['key'], b['what'][:140], 'no-failing-input-found' in l))
                except Exception:
                    keys.append((rp, '', False))
        broken = []
        try:
            ev = json.load(open(evp))
            broken = [o['name'] for o in ev['coverage'].get('obligation_failures', [])]
        except Exception:
            pass
        res['checks'][pid] = dict(exit=rc, violations=keys, wall=round(time.time() - t0, 1), obligations_broken=broken)
        if saved is not None:
            open(evp, 'w').write(saved)
        print('%s exit=%d wall=%.0fs' % (pid, rc, time.time() - t0))
        for k in keys[:6]:
            print('    ', k)
        if rc not in (0, 1):
            print(out[-1500:])
finally:
    sh('git -C %s checkout -- . && git -C %s clean -fdq' % (REPO, REPO))
json.dump(res, open(os.path.join(d, 'vcheck_result.json'), 'w'), indent=1)
