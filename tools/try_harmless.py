#!/usr/bin/env python3
"""try_harmless.py <dir with patch.diff> [Cxx…] — apply a behaviour-preserving rewrite to the repository ($VERIF_REPO,
default /repo), run the listed checks (default: all 20, quick tier), undo it.  Writes harmless_result.json into the
directory: per check the exit code, the VIOLATION lines and the obligations that no longer check.  A VIOLATION that
ends in no-failing-input-found is the prescribed report for a broken proof obligation or correspondence on code that
still has the property; any other VIOLATION on a harmless rewrite is a false alarm of the machinery."""
import json, os, subprocess, sys, time

REPO = os.environ.get('VERIF_REPO', '/repo')
VERIF = os.path.dirname(os.path.dirname(os.path.abspath(__file__)))
env = dict(os.environ, GOFLAGS='-mod=mod', GOPROXY='off', GOSUMDB='off', GOTOOLCHAIN='local')

def sh(cmd, cwd=None, timeout=3600):
    p = subprocess.run(cmd, shell=True, cwd=cwd, env=env, stdout=subprocess.PIPE, stderr=subprocess.STDOUT, text=True, timeout=timeout)
    return p.returncode, p.stdout

d = sys.argv[1]
ids = sys.argv[2:] or ['C%02d' % i for i in range(1, 21)]
rc, out = sh('git -C %s status --porcelain' % REPO)
if out.strip():
    print('refusing: repository is not clean'); sys.exit(2)
rc, out = sh('git -C %s apply --whitespace=nowarn %s' % (REPO, os.path.join(d, 'patch.diff')))
if rc != 0:
    print('patch does not apply:', out); sys.exit(2)
res = {}
try:
    for pid in ids:
        evp = VERIF + '/evidence/%s.json' % pid
        saved = open(evp).read() if os.path.exists(evp) else None
        t0 = time.time()
        rc, out = sh('bin/vcheck %s --tier quick' % pid, cwd=VERIF)
        vl = [l for l in out.split('\n') if l.startswith('VIOLATION')]
        what = []
        for l in vl:
            try:
                b = json.load(open(l.split('replay=')[1].split(' ')[0])); what.append((b.get('key'), (b.get('what') or '')[:200]))
            except Exception:
                what.append((l, ''))
        broken = []
        try:
            broken = [o['name'] for o in json.load(open(evp))['coverage'].get('obligation_failures', [])]
        except Exception:
            pass
        res[pid] = dict(exit=rc, violations=vl, what=what, obligations_broken=broken, wall=round(time.time() - t0, 1),
                        tail=out[-800:] if rc not in (0, 1) else '')
        if saved is not None:
            open(evp, 'w').write(saved)
        print(pid, 'exit=%d' % rc, '%.0fs' % (time.time() - t0), [w[0] for w in what][:3], flush=True)
finally:
    sh('git -C %s checkout -- . && git -C %s clean -fdq' % (REPO, REPO))
json.dump(res, open(os.path.join(d, 'harmless_result.json'), 'w'), indent=1)
