#!/bin/sh
# update_gen_baseline.sh — refresh /verif/pinned/gen (the Gen modules as regenerated from the repository's committed
# tree). Run it on a clean /repo after changing a translator or after a fix: commit in /repo; a unit that cannot be
# regenerated from a later working tree falls back to these files on a fresh checkout (vlib/core.py: regen).
set -e
cd "$(dirname "$0")/.."
[ -z "$(git -C ${VERIF_REPO:-/repo} status --porcelain)" ] || { echo "repository working tree is not clean"; exit 2; }
python3 - <<'P'
import sys; sys.path.insert(0, '.')
from vlib import core
f = core.regen()
assert not f, f
P
mkdir -p pinned/gen
cp lean/LLRP/Gen/*.lean pinned/gen/
echo "baseline updated: $(ls pinned/gen | wc -l) modules"
