#!/bin/sh
# sweep.sh <seeds…> — unchanged-tree sweep of every check's quick tier over several VERIF_SEED values (run under `vp run`:
# the snapshot builds its own framework; /repo itself is read, never written). Prints one line per (seed, property).
bin/vsetup > setup.log 2>&1 || { tail -20 setup.log; exit 2; }
for s in "$@"; do
  for i in 01 02 03 04 05 06 07 08 09 10 11 12 13 14 15 16 17 18 19 20; do
    VERIF_SEED=$s bin/vcheck C$i --tier quick > out_$s_C$i.log 2>&1
    rc=$?
    echo "seed=$s C$i exit=$rc $(grep -c VIOLATION out_$s_C$i.log) violation(s)"
    [ $rc -ne 0 ] && grep VIOLATION out_$s_C$i.log | head -3 && for r in $(grep -o 'replay=[^ ]*' out_$s_C$i.log | head -2 | cut -d= -f2); do python3 -c "import json,sys; d=json.load(open('$r')); print('   ', d['key'][:150], '|', d['what'][:300])"; done
  done
done
