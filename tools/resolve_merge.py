#!/usr/bin/env python3
"""Resolve the two predictable conflicts of merging an agent branch: known_findings.json (union of entries) and
lean/Oracle.lean / lean/LLRP.lean (union of import lines and handler entries)."""
import json, re, subprocess, sys

def show(stage, path):
    return subprocess.run(['git', 'show', ':%d:%s' % (stage, path)], stdout=subprocess.PIPE, text=True).stdout

def conflicted():
    out = subprocess.run(['git', 'diff', '--name-only', '--diff-filter=U'], stdout=subprocess.PIPE, text=True).stdout.split()
    return out

for path in conflicted():
    if path == 'known_findings.json':
        ours, theirs = json.loads(show(2, path)), json.loads(show(3, path))
        seen, out = set(), []
        for e in ours['findings'] + theirs['findings']:
            k = (e['property'], e['key'], e['status'])
            if k not in seen:
                seen.add(k); out.append(e)
        json.dump({'findings': out}, open(path, 'w'), indent=1)
        subprocess.run(['git', 'add', path])
    elif path in ('lean/Oracle.lean', 'lean/LLRP.lean'):
        txt = open(path).read()
        def fix(m):
            a = [l for l in m.group(1).split('\n') if l.strip()]
            b = [l for l in m.group(2).split('\n') if l.strip()]
            lines = a + [l for l in b if l not in a]
            # handler list entries: every entry but the last needs a trailing comma
            if any(l.strip().startswith('handle') for l in lines):
                lines = [l.rstrip().rstrip(',') + ',' for l in lines]
            return '\n'.join(lines) + '\n'
        txt = re.sub(r'<<<<<<< [^\n]*\n(.*?)=======\n(.*?)>>>>>>> [^\n]*\n', fix, txt, flags=re.S)
        # repair the handler list's last comma
        txt = re.sub(r',\n\]', '\n]', txt)
        open(path, 'w').write(txt)
        subprocess.run(['git', 'add', path])
    else:
        print('unresolved:', path)
