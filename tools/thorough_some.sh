#!/bin/sh
# thorough_some.sh <ID>… — unchanged-tree run of the thorough tier of the listed checks (under `vp run`)
bin/vsetup > setup.log 2>&1 || { tail -20 setup.log; exit 2; }
for id in "$@"; do
  /usr/bin/time -f "$id %es" bin/vcheck $id --tier thorough > out_$id.log 2>&1
  echo "$id exit=$? $(grep -c '^VIOLATION' out_$id.log) violation(s)"
  grep '^VIOLATION' out_$id.log | head -3
  tail -1 out_$id.log
done
