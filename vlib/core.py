"""Shared machinery of /verif/bin/vcheck: regenerate the Lean `Gen` modules from /repo, build and audit the
property theorems, build and run the overlay-injected Go harness, drive the Lean oracle, judge, and write
evidence / replays / VIOLATION and KNOWN-FINDING lines."""
import fcntl, hashlib, json, os, re, shutil, subprocess, sys, time

VERIF = os.path.dirname(os.path.dirname(os.path.abspath(__file__)))
REPO = os.environ.get('VERIF_REPO', '/repo')
LEAN = os.path.join(VERIF, 'lean')
GEN = os.path.join(LEAN, 'LLRP', 'Gen')
BUILD = os.path.join(VERIF, 'build')
HARNESS = os.path.join(VERIF, 'harness')
ORACLE = os.path.join(LEAN, '.lake', 'build', 'bin', 'oracle')
ALLOWED_AXIOMS = {'propext', 'Classical.choice', 'Quot.sound'}

GOENV = dict(os.environ, GOFLAGS='-mod=mod', GOPROXY='off', GOSUMDB='off', GOTOOLCHAIN='local', CGO_ENABLED=os.environ.get('CGO_ENABLED', '1'))
PKGDIR = {'llrp': 'pkg/llrp', 'driver': 'internal/driver', 'retry': 'internal/retry'}


def log(*a):
    print('[vcheck]', *a, file=sys.stderr, flush=True)


def run(cmd, cwd=None, env=None, timeout=None, inp=None):
    p = subprocess.run(cmd, cwd=cwd, env=env, timeout=timeout, input=inp, stdout=subprocess.PIPE, stderr=subprocess.STDOUT, text=True)
    return p.returncode, p.stdout


class Lock:
    """one vcheck at a time touches lean/LLRP/Gen and the lake build directory"""

    def __enter__(self):
        os.makedirs(BUILD, exist_ok=True)
        self.f = open(os.path.join(BUILD, '.lock'), 'w')
        fcntl.flock(self.f, fcntl.LOCK_EX)
        return self

    def __exit__(self, *a):
        fcntl.flock(self.f, fcntl.LOCK_UN)
        self.f.close()


def write_if_changed(path, text):
    old = None
    if os.path.exists(path):
        with open(path) as f:
            old = f.read()
    if old != text:
        with open(path, 'w') as f:
            f.write(text)
        return True
    return False


# ------------------------------------------------------------------ translators (tie T)

def build_vx():
    """(re)build the Go translator when its sources are newer than the binary"""
    src = os.path.join(VERIF, 'translators', 'vx')
    out = os.path.join(BUILD, 'vx')
    newest = max(os.path.getmtime(os.path.join(src, f)) for f in os.listdir(src))
    if not os.path.exists(out) or os.path.getmtime(out) < newest:
        rc, o = run(['go', 'build', '-o', out, '.'], cwd=src, env=GOENV)
        if rc != 0:
            raise RuntimeError('cannot build vx translator:\n' + o)
    return out


FACT_SECTIONS = ['Consts', 'MsgTables', 'Writers', 'Structs', 'Accesses', 'RaceAux', 'Cmd', 'Sup', 'ReadFacts', 'Chans', 'Gate', 'ProbeFacts']
GENBASE = os.path.join(VERIF, 'pinned', 'gen')     # Gen modules as regenerated from the pinned tree (committed)


def _fallback(name):
    """a Gen module that could not be regenerated keeps its last content; on a fresh checkout that is the baseline"""
    dst = os.path.join(GEN, name + '.lean')
    if not os.path.exists(dst) and os.path.exists(os.path.join(GENBASE, name + '.lean')):
        shutil.copy(os.path.join(GENBASE, name + '.lean'), dst)


def _blocks(text):
    """{lean name: block text} of a go2lean output / an existing Funcs.lean (blocks are delimited by BEGIN/END lines)"""
    out, cur, name = {}, None, None
    for l in text.split('\n'):
        if l.startswith('-- BEGIN '):
            name, cur = l[len('-- BEGIN '):].strip(), []
        elif l.startswith('-- END ') and cur is not None:
            out[name] = '\n'.join(cur)
            cur = None
        elif cur is not None:
            cur.append(l)
    return out


def _src_digest(vx):
    """digest of everything the Go translator reads: the repository's Go sources and go.mod/go.sum, and the translator binary"""
    import hashlib
    h = hashlib.sha256()
    h.update(open(vx, 'rb').read())
    for root in ('pkg', 'internal', 'cmd'):
        for dp, dn, fn in sorted(os.walk(os.path.join(REPO, root))):
            dn.sort()
            for f in sorted(fn):
                if f.endswith('.go'):
                    fp = os.path.join(dp, f)
                    h.update(os.path.relpath(fp, REPO).encode() + b'\0')
                    h.update(open(fp, 'rb').read())
    for f in ('go.mod', 'go.sum'):
        fp = os.path.join(REPO, f)
        if os.path.exists(fp):
            h.update(open(fp, 'rb').read())
    return h.hexdigest()


def _vx_cached(vx, sub, digest):
    """run `vx <sub> REPO`, or reuse its output when neither the sources nor the translator changed since the last run
    (the translator is deterministic; loading internal/driver with its dependencies takes a quarter of a minute)"""
    cache = os.path.join(BUILD, 'vx_%s.cache.json' % sub)
    try:
        c = json.load(open(cache))
        if c.get('digest') == digest and c.get('repo') == REPO:
            return subprocess.CompletedProcess([vx, sub], c['rc'], c['stdout'], c['stderr'])
    except Exception:
        pass
    p = subprocess.run([vx, sub, REPO], stdout=subprocess.PIPE, stderr=subprocess.PIPE, text=True, env=GOENV)
    try:
        json.dump({'digest': digest, 'repo': REPO, 'rc': p.returncode, 'stdout': p.stdout, 'stderr': p.stderr}, open(cache, 'w'))
    except Exception:
        pass
    return p


def regen():
    """Regenerate lean/LLRP/Gen/*.lean from /repo's working tree. Returns a list of (unit, message) failures.

    Units are independent: `facts:<Section>` (one Gen module each), `go2lean:<function>` / `go2seq:<function>` (one block of Funcs.lean / Seq.lean each),
    `yaml2lean`. A unit that cannot be regenerated keeps its last regenerated content (the baseline under pinned/gen on
    a fresh checkout): the properties that use it lose that obligation and search for a failing input against the
    last model the translator understood; the others are not affected."""
    os.makedirs(GEN, exist_ok=True)
    failures = []
    vx = build_vx()
    digest = _src_digest(vx)
    # facts
    p = _vx_cached(vx, 'facts', digest)
    if p.returncode != 0:
        for sec in FACT_SECTIONS:
            failures.append(('facts:' + sec, 'vx facts: ' + p.stderr.strip()[-1200:]))
            _fallback(sec)
    else:
        write_if_changed(os.path.join(BUILD, 'facts.json'), p.stdout)
        rc, o = run([sys.executable, os.path.join(VERIF, 'translators', 'facts2lean.py'), os.path.join(BUILD, 'facts.json'), GEN])
        seen = set()
        for l in o.split('\n'):
            m = re.match(r'FAILED (\w+): (.*)', l)
            if m:
                seen.add(m.group(1))
                failures.append(('facts:' + m.group(1), m.group(2)[:1500]))
                _fallback(m.group(1))
        if rc != 0:
            for sec in FACT_SECTIONS:
                if sec not in seen:
                    failures.append(('facts:' + sec, 'facts2lean: ' + o.strip()[-1200:]))
                    _fallback(sec)
    # go2lean (Funcs.lean: integer / byte-buffer functions) and go2seq (Seq.lean: sequential functions in state-passing style)
    for sub, mod in (('go2lean', 'Funcs'), ('go2seq', 'Seq')):
        funcs = os.path.join(GEN, mod + '.lean')
        if not os.path.exists(funcs) and os.path.exists(os.path.join(GENBASE, mod + '.lean')):
            shutil.copy(os.path.join(GENBASE, mod + '.lean'), funcs)
        old = _blocks(open(funcs).read()) if os.path.exists(funcs) else {}
        p = _vx_cached(vx, sub, digest)
        if p.returncode != 0:
            for name in sorted(old) or ['*']:
                failures.append((sub + ':' + name, p.stderr.strip()[-1200:]))
        else:
            out = []
            for l in p.stdout.split('\n'):
                m = re.match(r'-- FAILED (\w+): (.*)', l)
                if m:
                    failures.append((sub + ':' + m.group(1), m.group(2)[:1500]))
                    if m.group(1) in old:       # keep the last translation this translator produced for it
                        out += ['-- BEGIN ' + m.group(1), old[m.group(1)], '-- END ' + m.group(1)]
                    continue
                out.append(l)
            write_if_changed(funcs, '\n'.join(out).replace('namespace LLRP.Gen\n', 'set_option linter.unusedVariables false\nnamespace LLRP.Gen\n', 1))
    # yaml2lean
    os.makedirs(os.path.join(BUILD, 'gen', 'llrp'), exist_ok=True)
    p = subprocess.run([sys.executable, os.path.join(VERIF, 'translators', 'yaml2lean.py'), os.path.join(REPO, 'pkg/llrp/messages.yaml'), 'LLRP.Gen',
                        '--json', os.path.join(BUILD, 'schema.json'), '--goreg', os.path.join(BUILD, 'gen', 'llrp', 'zz_verif_types_test.go')],
                       stdout=subprocess.PIPE, stderr=subprocess.PIPE, text=True)
    if p.returncode != 0:
        failures.append(('yaml2lean', p.stderr.strip()))
        _fallback('Schema')
    else:
        write_if_changed(os.path.join(GEN, 'Schema.lean'), p.stdout.replace(os.path.join(REPO, 'pkg/llrp/messages.yaml'), '<repo>/pkg/llrp/messages.yaml'))
    # pinned layout table (C02): its Lean form always comes from /verif/pinned/messages.yaml
    pin = os.path.join(VERIF, 'pinned', 'messages.yaml')
    p = subprocess.run([sys.executable, os.path.join(VERIF, 'translators', 'yaml2lean.py'), pin, 'LLRP.Pinned'],
                       stdout=subprocess.PIPE, stderr=subprocess.PIPE, text=True)
    if p.returncode != 0:
        failures.append(('yaml2lean(pinned)', p.stderr.strip()))
    else:
        os.makedirs(os.path.join(LEAN, 'LLRP', 'Pinned'), exist_ok=True)
        write_if_changed(os.path.join(LEAN, 'LLRP', 'Pinned', 'Schema.lean'), p.stdout.replace(pin, 'pinned/messages.yaml'))
    return failures


def gen_uses(props_mod, modules):
    """which regenerated units a property depends on: the Gen modules imported by the import closure of its Props
    module and of the model/oracle modules its check lists, and the text of those modules (to look up go2lean names)"""
    seen, todo, text = set(), [props_mod] + list(modules), []
    gen = set()
    while todo:
        m = todo.pop()
        if m in seen or not m.startswith('LLRP.'):
            continue
        seen.add(m)
        if m.startswith('LLRP.Gen.'):
            gen.add(m[len('LLRP.Gen.'):])
            continue
        path = os.path.join(LEAN, *m.split('.')) + '.lean'
        if not os.path.exists(path):
            continue
        t = open(path).read()
        text.append(t)
        todo += re.findall(r'^import (LLRP\.[\w.]+)', t, re.M)
    return gen, '\n'.join(text)


def unit_relevant(unit, uses):
    gen, text = uses
    if unit.startswith('facts:'):
        return unit[6:] in gen
    if unit.startswith('go2lean:'):
        name = unit[8:]
        return 'Funcs' in gen and (name == '*' or re.search(r'\b%s(_safe)?\b' % re.escape(name), text) is not None)
    if unit.startswith('go2seq:'):
        name = unit[7:]
        return 'Seq' in gen and (name == '*' or re.search(r'\b(Env_)?%s\b' % re.escape(name), text) is not None)
    if unit.startswith('yaml2lean(pinned)'):
        return True if 'LLRP.Pinned' in text else False
    if unit.startswith('yaml2lean'):
        return 'Schema' in gen
    return True


# ------------------------------------------------------------------ Lean obligations

def theorem_spans(path):
    """[(name, first_line, last_line)] of the theorems of a Props file (a theorem extends to the next declaration)."""
    out = []
    lines = open(path).read().split('\n')
    starts = []
    for i, l in enumerate(lines, 1):
        m = re.match(r'\s*(?:@\[[^\]]*\]\s*)?(?:private\s+|protected\s+)?(theorem|def|example|instance|abbrev|structure|inductive|mutual|end\b|namespace|section|/-[-!])', l)
        if m:
            name = None
            mt = re.match(r'\s*(?:@\[[^\]]*\]\s*)?(?:private\s+|protected\s+)?theorem\s+([^\s:({\[]+)', l)
            if mt:
                name = mt.group(1)
            starts.append((i, name))
    for k, (i, name) in enumerate(starts):
        end = starts[k + 1][0] - 1 if k + 1 < len(starts) else len(lines)
        if name:
            out.append((name, i, end))
    return out


def lake_build(targets):
    rc, o = run(['lake', 'build'] + targets, cwd=LEAN)
    return rc == 0, o


def failed_theorems(build_output, pid):
    """names of theorems of Props/<pid>.lean with an error inside their span; plus errors in other modules"""
    props = os.path.join(LEAN, 'LLRP', 'Props', pid + '.lean')
    spans = theorem_spans(props)
    failed, other = [], []
    for m in re.finditer(r'error: ([^\s:]+\.lean):(\d+):(\d+): (.*)', build_output):
        f, line, msg = m.group(1), int(m.group(2)), m.group(4)
        if f.endswith('Props/%s.lean' % pid):
            hit = [n for (n, a, b) in spans if a <= line <= b]
            if hit:
                if hit[0] not in failed:
                    failed.append(hit[0])
            else:
                other.append('%s:%d %s' % (f, line, msg))
        else:
            other.append('%s:%d %s' % (f, line, msg))
    return failed, other


def audit(pid):
    """{theorem: [axioms]} for every theorem in namespace LLRP.<pid> (module must have built)"""
    tpl = open(os.path.join(LEAN, 'Audit', 'Template.lean')).read().replace('CXX', pid)
    path = os.path.join(BUILD, 'audit_%s.lean' % pid)
    write_if_changed(path, tpl)
    rc, o = run(['lake', 'env', 'lean', path], cwd=LEAN)
    res = {}
    for m in re.finditer(r'THEOREM (\S+) AXIOMS \[(.*)\]', o):
        name = m.group(1).split('.')[-1] if m.group(1).startswith('LLRP.%s.' % pid) else m.group(1)
        full = m.group(1)[len('LLRP.%s.' % pid):] if m.group(1).startswith('LLRP.%s.' % pid) else m.group(1)
        res[full] = [a.strip() for a in m.group(2).split(',') if a.strip()]
    if rc != 0 and not res:
        raise RuntimeError('audit failed:\n' + o)
    return res


def source_hygiene(pid, modules):
    """textual scan for sorry/admit/axiom/native_decide/… in the modules a property uses (comments stripped)"""
    bad = []
    pat = re.compile(r'\b(sorry|admit|native_decide|bv_decide|implemented_by|unsafe)\b|^\s*axiom\s|maxHeartbeats\s+0')
    for mod in modules:
        path = os.path.join(LEAN, mod.replace('.', '/') + '.lean')
        if not os.path.exists(path):
            continue
        txt = open(path).read()
        txt = re.sub(r'/-.*?-/', '', txt, flags=re.S)
        for i, l in enumerate(txt.split('\n'), 1):
            l2 = l.split('--')[0]
            if pat.search(l2):
                bad.append('%s:%d: %s' % (mod, i, l.strip()))
    return bad


# ------------------------------------------------------------------ Go harness (tie C)

def build_harness(pkg, race=False):
    """compile the test binary of /repo/<pkg> with the harness files overlaid; returns (path|None, output)"""
    os.makedirs(BUILD, exist_ok=True)
    hdir = os.path.join(HARNESS, pkg)
    repl = {}
    for f in sorted(os.listdir(hdir)):
        if f.endswith('.go'):
            repl[os.path.join(REPO, PKGDIR[pkg], f)] = os.path.join(hdir, f)
    gdir = os.path.join(BUILD, 'gen', pkg)      # files generated from the source on this run (e.g. the type registry)
    if os.path.isdir(gdir):
        for f in sorted(os.listdir(gdir)):
            if f.endswith('.go'):
                repl[os.path.join(REPO, PKGDIR[pkg], f)] = os.path.join(gdir, f)
    ov = os.path.join(BUILD, 'overlay_%s.json' % pkg)
    with open(ov, 'w') as f:
        json.dump({'Replace': repl}, f)
    out = os.path.join(BUILD, 'harness_%s%s.test' % (pkg, '_race' if race else ''))
    if os.path.exists(out):
        os.remove(out)
    cmd = ['go', 'test', '-c', '-tags', 'verif', '-vet=off', '-overlay', ov, '-o', out]
    if race:
        cmd.append('-race')
    cmd.append('./' + PKGDIR[pkg])
    rc, o = run(cmd, cwd=REPO, env=GOENV, timeout=600)
    if rc != 0 or not os.path.exists(out):
        return None, o
    return out, o


def run_harness(binpath, test, tier, seed, extra_env=None, timeout=900, outname=None, pkg='llrp'):
    """run one TestVerif* of a harness binary; returns (cases_path, returncode, output)"""
    outp = os.path.join(BUILD, outname or ('cases_%s.txt' % test))
    if os.path.exists(outp):
        os.remove(outp)
    env = dict(GOENV, VERIF_OUT=outp, VERIF_SEED=str(seed), VERIF_TIER=tier, VERIF_DIR=VERIF)
    if extra_env:
        env.update(extra_env)
    try:
        rc, o = run([binpath, '-test.run', '^%s$' % test, '-test.timeout', '%ds' % timeout, '-test.count', '1'], cwd=os.path.join(REPO, PKGDIR[pkg]), env=env, timeout=timeout + 30)
    except subprocess.TimeoutExpired as e:
        return outp, 124, 'harness timed out after %ds' % timeout
    return outp, rc, o


def crash_summary(out):
    """(headline, innermost frames of /repo code) when a Go test binary died of a panic / fatal error, else None"""
    m = re.search(r'^(panic: .*|fatal error: .*)$', out, re.M)
    if not m:
        return None
    tail = out[m.start():]
    frames = []
    for fm in re.finditer(r'^(github\.com/edgexfoundry/device-rfid-llrp-go/[^\s(]+(?:\([^)]*\))?[^\s(]*)\(', tail, re.M):
        f = fm.group(1).split('device-rfid-llrp-go/')[-1]
        if 'zz_verif' not in f and f not in frames:
            frames.append(f)
        if len(frames) >= 4:
            break
    return m.group(1)[:200], frames, tail[:2500]


def oracle(requests):
    """pipe request lines to the compiled Lean oracle, return the reply lines"""
    p = subprocess.run([ORACLE], input='\n'.join(requests) + '\n', stdout=subprocess.PIPE, stderr=subprocess.PIPE, text=True)
    if p.returncode != 0:
        raise RuntimeError('oracle crashed: rc=%d %s' % (p.returncode, p.stderr[-2000:]))
    out = p.stdout.split('\n')
    if out and out[-1] == '':
        out.pop()
    if len(out) != len(requests):
        raise RuntimeError('oracle answered %d lines for %d requests' % (len(out), len(requests)))
    return out


def read_cases(path):
    reqs, obs = [], []
    with open(path) as f:
        for line in f:
            line = line.rstrip('\n')
            if not line:
                continue
            r, _, o = line.partition('\t')
            reqs.append(r)
            obs.append(o)
    return reqs, obs


def diff_cases(path, limit=50):
    """compare observed column with the oracle; returns (n, mismatches[(req, expected, observed)])"""
    reqs, obs = read_cases(path)
    if not reqs:
        return 0, []
    exp = oracle(reqs)
    mism = []
    for r, e, o in zip(reqs, exp, obs):
        if e != o:
            mism.append((r, e, o))
            if len(mism) >= limit:
                break
    return len(reqs), mism


# ------------------------------------------------------------------ findings, replays, evidence

def load_known():
    p = os.path.join(VERIF, 'known_findings.json')
    if not os.path.exists(p):
        return []
    return json.load(open(p)).get('findings', [])


def write_replay(pid, tier, seed, kind, key, **kw):
    os.makedirs(os.path.join(VERIF, 'replays'), exist_ok=True)
    body = dict(property=pid, tier=tier, seed=seed, kind=kind, key=key, **kw)
    h = hashlib.sha1(json.dumps(body, sort_keys=True).encode()).hexdigest()[:10]
    path = os.path.join(VERIF, 'replays', '%s-%s.json' % (pid, h))
    with open(path, 'w') as f:
        json.dump(body, f, indent=1)
    return path


def key_match(pattern, key):
    """exact match; a '*' component in the ':'-separated pattern matches any component (used where the same defect
    shows through every enclosing type)"""
    a, b = pattern.split(':'), key.split(':')
    return len(a) == len(b) and all(x == '*' or x == y for x, y in zip(a, b))


class Result:
    """accumulates what a check run established"""

    def __init__(self, pid, tier, seed):
        self.pid, self.tier, self.seed = pid, tier, seed
        self.t0 = time.time()
        self.obligations = []        # names required
        self.discharged = []         # names proved with clean axioms
        self.ob_failures = []        # (name, reason)
        self.violations = []         # dict(key, what, replay, found_input: bool)
        self.known_hits = []         # (key, what)
        self.evaluations = 0
        self.distinct = set()
        self.samples = []
        self.dist = {}
        self.assumptions = []
        self.notes = []
        self.exhaustive = None
        self.rule = ''
        self.extra = {}

    def count(self, k, n=1):
        self.dist[k] = self.dist.get(k, 0) + n

    def violation(self, key, what, kind, found_input, **replay):
        """register a violation unless it is a listed known finding"""
        for kf in load_known():
            if kf.get('property') == self.pid and kf.get('status') == 'known' and key_match(kf.get('key', ''), key):
                if (key, kf.get('what', what)) not in self.known_hits:
                    self.known_hits.append((key, kf.get('what', what)))
                return
        if any(v['key'] == key for v in self.violations):
            return
        if len(self.violations) >= 20:
            self.extra['violations_not_listed'] = self.extra.get('violations_not_listed', 0) + 1
            return
        path = write_replay(self.pid, self.tier, self.seed, kind, key, what=what, **replay)
        self.violations.append(dict(key=key, what=what, replay=path, found_input=found_input))

    def finish(self, level='proof', checker_cmd='', trusted=None):
        wall = time.time() - self.t0
        cov = dict(
            obligations=len(self.obligations), discharged=len(self.discharged),
            checker_cmd=checker_cmd, trusted_base=trusted or [],
            evaluations=self.evaluations, distinct_nontrivial=len(self.distinct) if self.distinct else self.extra.get('distinct_nontrivial', 0),
            rule=self.rule, samples=self.samples[:12], input_distribution=self.dist,
            theorems=self.discharged, obligation_failures=[dict(name=n, reason=r) for n, r in self.ob_failures],
            known_findings_matched=[k for k, _ in self.known_hits], notes=self.notes,
        )
        if self.exhaustive is not None:
            cov['exhaustive'] = self.exhaustive
        for k, v in self.extra.items():
            cov.setdefault(k, v)
        ev = dict(property_id=self.pid, tier=self.tier, seed=self.seed, level=level, coverage=cov,
                  assumptions=self.assumptions, wall_s=round(wall, 2), violations=len(self.violations))
        os.makedirs(os.path.join(VERIF, 'evidence'), exist_ok=True)
        with open(os.path.join(VERIF, 'evidence', self.pid + '.json'), 'w') as f:
            json.dump(ev, f, indent=1)
        for key, what in self.known_hits:
            print('KNOWN-FINDING: property=%s %s [%s]' % (self.pid, what, key))
        for v in self.violations:
            tail = '' if v['found_input'] else ' no-failing-input-found'
            print('VIOLATION property=%s replay=%s%s' % (self.pid, v['replay'], tail))
        sys.stdout.flush()
        return 1 if self.violations else 0
