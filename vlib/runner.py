"""Generic flow of one property check (see DESIGN.md 2.1/2.4)."""
import importlib, os, sys, time, traceback
from . import core
from .core import log


def run_property(pid, tier, seed, replay=None):
    mod = importlib.import_module('checks.' + pid.lower())
    res = core.Result(pid, tier, seed)
    res.obligations = list(mod.THEOREMS)
    res.rule = getattr(mod, 'RULE', '')
    res.assumptions = list(getattr(mod, 'ASSUMPTIONS', []))
    trusted = list(getattr(mod, 'TRUSTED', []))
    props_mod = 'LLRP.Props.' + pid
    with core.Lock():
        # 1. regenerate the model parts that come from the source
        tfail = core.regen()
        uses = core.gen_uses(props_mod, getattr(mod, 'MODULES', []))
        for name, msg in tfail:
            if core.unit_relevant(name, uses):
                res.ob_failures.append(('translator:' + name, msg[-1500:]))
            else:
                res.notes.append('translation unit %s could not be regenerated (%s); it is not used by this property' % (name, msg[:200]))
        # 2. build the theorems and the oracle against the regenerated Gen modules
        t0 = time.time()
        ok, out = core.lake_build([props_mod])
        failed, other = ([], [])
        if not ok:
            failed, other = core.failed_theorems(out, pid)
            for n in failed:
                res.ob_failures.append((n, 'theorem no longer checks against the regenerated model'))
            if not failed:
                res.ob_failures.append(('build:' + props_mod, ('; '.join(other) or out[-1500:])[:3000]))
        ok_or, out_or = core.lake_build(['oracle'])
        oracle_ok = ok_or and os.path.exists(core.ORACLE)
        if not oracle_ok:
            res.ob_failures.append(('build:oracle', out_or[-2000:]))
        log('lean build %.1fs ok=%s failed=%s' % (time.time() - t0, ok, failed))
        # 3. audit axioms
        if ok:
            ax = core.audit(pid)
            for n in res.obligations:
                if n not in ax:
                    res.ob_failures.append((n, 'required theorem is missing from LLRP.Props.' + pid))
                elif set(ax[n]) - core.ALLOWED_AXIOMS:
                    res.ob_failures.append((n, 'depends on axioms %s' % sorted(set(ax[n]) - core.ALLOWED_AXIOMS)))
                else:
                    res.discharged.append(n)
            res.extra['axioms'] = {n: ax.get(n) for n in res.obligations}
        else:
            bad = set(failed)
            spans = [n for (n, _, _) in core.theorem_spans(os.path.join(core.LEAN, 'LLRP', 'Props', pid + '.lean'))]
            for n in res.obligations:
                if n in spans and n not in bad and not other:
                    # elaborated without error in this run (Lean reports every failing declaration of the file);
                    # axioms cannot be audited without the .olean, so it is not counted as discharged
                    pass
        # thorough tier: re-check the compiled property module with the toolchain's independent checker
        if ok and tier == 'thorough':
            rc, lo = core.run(['lake', 'env', 'leanchecker', props_mod], cwd=core.LEAN, timeout=1800)
            res.extra['leanchecker'] = 'ok' if rc == 0 else 'FAILED'
            if rc != 0:
                res.ob_failures.append(('leanchecker:' + props_mod, lo[-1500:]))
        hyg = core.source_hygiene(pid, getattr(mod, 'MODULES', []) + [props_mod])
        for h in hyg:
            res.ob_failures.append(('hygiene', h))
        # 4. correspondence (with the thorough budget when an obligation broke: that is the search)
        search = bool(res.ob_failures)
        eff_tier = 'thorough' if search else tier
        if oracle_ok:
            try:
                if replay:
                    mod.replay(res, replay)
                else:
                    mod.correspond(res, eff_tier, seed)
            except Exception as e:
                res.ob_failures.append(('correspondence:harness', ''.join(traceback.format_exception_only(type(e), e))[-3000:] + '\n' + traceback.format_exc()[-3000:]))
        # 5. turn broken obligations into violations (explained by a concrete input where possible)
        for name, reason in res.ob_failures:
            explained = None
            if oracle_ok and hasattr(mod, 'explain'):
                try:
                    explained = mod.explain(res, name, reason)
                except Exception as e:
                    log('explain failed', e)
            if explained:
                continue
            if any(v['found_input'] for v in res.violations):
                res.notes.append('obligation %s broke; a failing input was found by the correspondence search' % name)
                continue
            res.violation('obligation:' + name, 'obligation %s no longer checks: %s' % (name, reason[:300]), 'obligation', False,
                          obligation=name, message=reason)
    checker = 'cd /verif/lean && lake build %s && lake env lean /verif/build/audit_%s.lean' % (props_mod, pid)
    base = ["Lean 4.33.0 kernel", "axioms propext, Classical.choice, Quot.sound only (audited per theorem on every run)",
            "translators /verif/translators (vx facts, go2lean, yaml2lean, facts2lean)",
            "correspondence harness /verif/harness and its canonicalisation; Lean oracle line parser"] + trusted
    return res.finish(level=getattr(mod, 'LEVEL', 'proof'), checker_cmd=checker, trusted=base)
