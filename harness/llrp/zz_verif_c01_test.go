//go:build verif

package llrp

import (
	"sync"
	"bytes"
	"encoding/json"
	"fmt"
	"reflect"
	"testing"
)

// roundTrip runs the property's own monitor on the real code for one value:
// marshal, unmarshal, compare values, re-marshal, compare bytes, JSON leg.
func (s *vschema) roundTrip(c *sContainer, v *gval) string {
	p := s.newGo(c)
	s.toGo(c, v, p.Elem())
	b, res := vmarshal(p)
	if res != "ok" {
		return "fail:marshal-" + res
	}
	p2 := s.newGo(c)
	if r := vunmarshal(p2, b); r != "ok" {
		return "fail:unmarshal-" + r
	}
	want := v.String()
	if got := s.fromGo(c, p2.Elem()).String(); got != want {
		return "fail:value"
	}
	b2, res2 := vmarshal(p2)
	if res2 != "ok" || !bytes.Equal(b, b2) {
		return "fail:reencode"
	}
	// JSON form used by the device service
	j, err := json.Marshal(p.Interface())
	if err != nil {
		return "fail:json-marshal"
	}
	p3 := s.newGo(c)
	if err := json.Unmarshal(j, p3.Interface()); err != nil {
		return "fail:json-unmarshal"
	}
	if got := s.fromGo(c, p3.Elem()).String(); got != want {
		return "fail:json-value"
	}
	b3, res3 := vmarshal(p3)
	if res3 != "ok" || !bytes.Equal(b, b3) {
		return "fail:json-reencode"
	}
	return "ok"
}

func TestVerifC01(t *testing.T) {
	o := vopen(t)
	defer o.close()
	s := loadSchema(t)
	rng := &vrng{s: vseed()}
	per := 40
	if vthorough() {
		per = 300
	}
	var stable stableChk
	{
		// a message beyond 64 KiB made of small parameters
		c, v := s.bigReport(rng, 3900)
		p := s.newGo(c)
		s.toGo(c, v, p.Elem())
		if b, res := vmarshal(p); res == "ok" {
			o.line("enc "+c.Name+" "+v.String(), "ok x"+vhex(b))
			o.line("dec "+c.Name+" x"+vhex(b), func() string {
				p2 := s.newGo(c)
				if r := vunmarshal(p2, b); r != "ok" {
					return r
				}
				return "ok " + s.fromGo(c, p2.Elem()).String()
			}())
		} else {
			o.line("enc "+c.Name+" "+v.String(), res)
		}
		o.line("rt "+c.Name+" "+v.String(), s.roundTrip(c, v))
	}
	// parameters at the top of the 16-bit TLV length range
	for _, v := range s.topOfRange(rng) {
		c := s.params["Custom"]
		p := s.newGo(c)
		s.toGo(c, v, p.Elem())
		b, res := vmarshal(p)
		obs := res
		if res == "ok" {
			obs = "ok x" + vhex(b)
		}
		o.line("enc "+c.Name+" "+v.String(), obs)
		o.line("rt "+c.Name+" "+v.String(), s.roundTrip(c, v))
	}
	// encoders running on several goroutines at once (one Client per reader; SendFor marshals on the caller's goroutine):
	// each goroutine's bytes must be the bytes the same value gives when it is encoded alone
	{
		type job struct {
			c    *sContainer
			p    reflect.Value
			want []byte
		}
		var jobs []job
		for _, name := range []string{"AddROSpec", "ROAccessReport", "SetReaderConfig", "AddAccessSpec", "GetReaderCapabilitiesResponse", "ReaderEventNotification", "AddROSpec", "ROAccessReport"} {
			c := s.msgs[name]
			g := &vgen{s: s, r: rng, budget: 60}
			v := g.value(c, 0)
			p := s.newGo(c)
			s.toGo(c, v, p.Elem())
			if b, res := vmarshal(p); res == "ok" {
				jobs = append(jobs, job{c, p, append([]byte(nil), b...)})
			}
		}
		var wg sync.WaitGroup
		bad := make([][]byte, len(jobs))
		for i := range jobs {
			wg.Add(1)
			go func(i int) {
				defer wg.Done()
				for k := 0; k < 300; k++ {
					b, res := vmarshal(jobs[i].p)
					if res != "ok" || !bytes.Equal(b, jobs[i].want) {
						bad[i] = append([]byte{}, b...)
						return
					}
				}
			}(i)
		}
		wg.Wait()
		for i := range jobs {
			if bad[i] != nil {
				o.line("same x"+vhex(jobs[i].want)+" x"+vhex(bad[i]), "yes")
			}
		}
	}
	var recycled reflect.Value
	var recycledOf *sContainer
	for _, c := range s.all {
		for i := 0; i < per; i++ {
			g := &vgen{s: s, r: rng, big: vthorough() && i%4 == 0, budget: 60}
			v := g.value(c, 0)
			txt := v.String()
			p := s.newGo(c)
			s.toGo(c, v, p.Elem())
			// the walker itself must be faithful: struct -> value gives back what we built
			if back := s.fromGo(c, p.Elem()).String(); back != txt {
				t.Fatalf("walker not faithful for %s:\n%s\n%s", c.Name, txt, back)
			}
			b, res := vmarshal(p)
			obs := res
			if res == "ok" {
				obs = "ok x" + vhex(b)
				stable.note(o, b)
			}
			o.line("enc "+c.Name+" "+txt, obs)
			if res == "ok" {
				p2 := s.newGo(c)
				r := vunmarshal(p2, b)
				if r == "ok" {
					r = "ok " + s.fromGo(c, p2.Elem()).String()
				}
				o.line("dec "+c.Name+" x"+vhex(b), r)
				// the same bytes decoded into a recycled value of this type (slices cut to length 0, capacity kept)
				if recycledOf == c && recycled.IsValid() {
					recycleTop(recycled.Elem())
					r2 := vunmarshal(recycled, b)
					if r2 == "ok" {
						r2 = "ok " + s.fromGo(c, recycled.Elem()).String()
					}
					o.line("dec "+c.Name+" x"+vhex(b), r2)
				}
				recycled, recycledOf = p2, c
			}
			o.line("rt "+c.Name+" "+txt, s.roundTrip(c, v))
		}
	}
	_ = fmt.Sprint
	_ = reflect.TypeOf
}
