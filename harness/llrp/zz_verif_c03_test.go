//go:build verif

package llrp

// C03 — replies are delivered to the request that caused them, and only to it.
//  (1) deterministic scripts (`lts …`): one step at a time, compared with the oracle's run of the LTS;
//  (2) concurrent stress: many callers, replies permuted, unsolicited KeepAlive / ROAccessReport / ReaderEventNotification
//      frames whose ids COLLIDE with outstanding request ids, some callers cancel; judged by the Lean monitor `check-c03`.

import (
	"context"
	"fmt"
	"net"
	"os"
	"strings"
	"sync"
	"testing"
	"time"
)

var c03Resp = map[int]int{1: 11, 2: 12, 3: 13, 20: 30, 21: 31, 22: 32, 40: 50}
var c03Req = []int{1, 2, 3, 20, 21, 22, 40}

// prologue of a session: client options, greeting and (for neg) one of the two scripted negotiations
func ltsPrologue(rng *vrng) (ops []string, written int) {
	switch rng.intn(3) {
	case 0:
		return []string{"new:0", "start", "pf:63:0:1:0"}, 0
	case 1: // 1.0.1 reader: ErrorMessage / VersionUnsupported
		return []string{"new:1", "start", "pf:63:0:1:0", "w:1", "ps:100:0:110"}, 1
	}
	// 1.1 reader currently at 1.0.1
	return []string{"new:1", "start", "pf:63:0:1:0", "w:1", "ps:56:0:18", "w:2", "ps:57:1:0"}, 2
}

func genC03Script(rng *vrng) string {
	ops, written := ltsPrologue(rng)
	var outstanding, cancelled, completed, nowaits []int
	next := 1
	tok := 1
	pick := func(l []int) (int, []int) {
		i := rng.intn(len(l))
		c := l[i]
		return c, append(append([]int{}, l[:i]...), l[i+1:]...)
	}
	steps := 3 + rng.intn(14)
	for s := 0; s < steps; s++ {
		switch k := rng.intn(12); {
		case k >= 10:
			// fire-and-forget message: it takes an ID of its own from the same sequence; what the reader says about it
			// later (an ErrorMessage or a response carrying that ID) belongs to no caller
			c := next
			next++
			typ := c03Req[rng.intn(len(c03Req))]
			written++
			ops = append(ops, fmt.Sprintf("nw:%d:%d:%d", c, typ, 1000+c), fmt.Sprintf("w:%d", written), fmt.Sprintf("r:%d", c))
			nowaits = append(nowaits, c)
			if rng.intn(2) == 0 {
				ops = append(ops, fmt.Sprintf("ps:%d:@%d:%d", []int{100, 12, 11}[rng.intn(3)], c, tok))
				tok++
			}
		case k < 3 || len(outstanding) == 0:
			if len(outstanding) >= 6 {
				continue
			}
			c := next
			next++
			typ := c03Req[rng.intn(len(c03Req))]
			ops = append(ops, fmt.Sprintf("call:%d:%d:%d", c, typ, 1000+c))
			written++
			ops = append(ops, fmt.Sprintf("w:%d", written))
			outstanding = append(outstanding, c)
		case k < 5:
			var c int
			c, outstanding = pick(outstanding)
			rt := 12
			if rng.intn(4) == 0 {
				rt = []int{11, 13, 30, 36, 50}[rng.intn(5)]
			}
			ops = append(ops, fmt.Sprintf("ps:%d:@%d:%d", rt, c, tok), fmt.Sprintf("r:%d", c))
			tok++
			completed = append(completed, c)
		case k < 8:
			// unsolicited frame whose id collides with an outstanding request
			c := outstanding[rng.intn(len(outstanding))]
			typ := []int{62, 61, 63}[rng.intn(3)]
			ops = append(ops, fmt.Sprintf("ps:%d:@%d:%d", typ, c, tok))
			tok++
			if typ == 62 {
				written++
				ops = append(ops, fmt.Sprintf("w:%d", written))
			}
		case k < 9:
			var c int
			c, outstanding = pick(outstanding)
			if rng.intn(3) == 0 && len(outstanding) < 5 {
				// the caller gives up while its reply is half-way in; a new request is issued before the rest arrives
				d := next
				next++
				written++
				ops = append(ops, fmt.Sprintf("pspart:%d:12:@%d:%d", 10+rng.intn(8), c, tok), fmt.Sprintf("cancel:%d", c), fmt.Sprintf("r:%d", c),
					fmt.Sprintf("call:%d:2:%d", d, 1000+d), fmt.Sprintf("w:%d", written), "psrest")
				tok++
				outstanding = append(outstanding, d)
				cancelled = append(cancelled, c)
				continue
			}
			ops = append(ops, fmt.Sprintf("cancel:%d", c), fmt.Sprintf("r:%d", c))
			cancelled = append(cancelled, c)
		default:
			// a reply nobody waits for: id of a cancelled or completed caller, or an id never used
			id := "7777"
			if len(nowaits) > 0 && rng.intn(3) == 0 {
				id = fmt.Sprintf("@%d", nowaits[rng.intn(len(nowaits))])
			} else if len(cancelled) > 0 && rng.intn(2) == 0 {
				id = fmt.Sprintf("@%d", cancelled[rng.intn(len(cancelled))])
			} else if len(completed) > 0 && rng.intn(2) == 0 {
				id = fmt.Sprintf("@%d", completed[rng.intn(len(completed))])
			}
			ops = append(ops, fmt.Sprintf("ps:12:%s:%d", id, tok))
			tok++
		}
	}
	// finish: answer some of the rest (in random order), close, everybody returns
	for len(outstanding) > 0 && rng.intn(4) != 0 {
		var c int
		c, outstanding = pick(outstanding)
		ops = append(ops, fmt.Sprintf("ps:12:@%d:%d", c, tok), fmt.Sprintf("r:%d", c))
		tok++
	}
	ops = append(ops, "close")
	for _, c := range outstanding {
		ops = append(ops, fmt.Sprintf("r:%d", c))
	}
	ops = append(ops, "pc", "rc")
	return strings.Join(ops, " ")
}

// fixed scripts: the field scenario of the known defect and its neighbours
var c03Fixed = []string{
	"new:0 start pf:63:0:1:0 call:1:2:1001 w:1 ps:62:@1:5 w:2 ps:12:@1:6 r:1 close pc rc",
	"new:0 start pf:63:0:1:0 call:1:2:1001 w:1 ps:61:@1:5 ps:12:@1:6 r:1 close pc rc",
	"new:0 start pf:63:0:1:0 call:1:2:1001 w:1 ps:63:@1:5 ps:12:@1:6 r:1 close pc rc",
	"new:0 start pf:63:0:1:0 call:1:2:1001 w:1 call:2:2:1002 w:2 ps:12:@2:5 r:2 ps:12:@1:6 r:1 close pc rc",
	"new:0 start pf:63:0:1:0 call:1:2:1001 w:1 ps:12:@1:5 r:1 ps:12:@1:6 call:2:2:1002 w:2 ps:12:@2:7 r:2 close pc rc",
	"new:0 start pf:63:0:1:0 call:1:2:1001 w:1 cancel:1 r:1 ps:12:@1:5 call:2:2:1002 w:2 ps:12:@2:7 r:2 close pc rc",
	"new:1 start pf:63:0:1:0 w:1 ps:62:0:3 w:2 ps:100:0:110 call:1:2:1001 w:3 ps:12:@1:6 r:1 close pc rc",
	// a caller gives up while its reply is half-way in (the read loop has taken its entry and is reading the payload),
	// another request is issued, then the rest of the first reply and the second reply arrive
	"new:0 start pf:63:0:1:0 call:1:2:1001 w:1 pspart:11:12:@1:5 cancel:1 r:1 call:2:2:1002 w:2 psrest ps:12:@2:6 r:2 close pc rc",
	"new:0 start pf:63:0:1:0 call:1:2:1001 w:1 pspart:10:12:@1:5 cancel:1 r:1 call:2:3:1002 w:2 call:3:2:1003 w:3 psrest ps:13:@2:6 r:2 ps:12:@3:7 r:3 close pc rc",
	"new:0 start pf:63:0:1:0 call:1:2:1001 w:1 call:2:2:1002 w:2 pspart:17:12:@1:5 cancel:1 r:1 cancel:2 r:2 call:3:2:1003 w:3 call:4:2:1004 w:4 psrest ps:12:@4:6 r:4 ps:12:@3:7 r:3 close pc rc",
	"new:0 start pf:63:0:1:0 call:1:2:1001 w:1 pspart:14:12:@1:5 call:2:2:1002 w:2 psrest r:1 ps:12:@2:6 r:2 close pc rc",
	// a fire-and-forget message between requests: its ID is its own; an error about it goes to no caller
	"new:0 start pf:63:0:1:0 call:1:2:1001 w:1 nw:2:2:1002 w:2 r:2 ps:100:@2:5 ps:12:@1:6 r:1 close pc rc",
	"new:0 start pf:63:0:1:0 nw:1:2:1001 w:1 r:1 call:2:2:1002 w:2 ps:12:@1:5 ps:12:@2:6 r:2 nw:3:3:1003 w:3 r:3 call:4:2:1004 w:4 ps:12:@3:7 ps:12:@4:8 r:4 close pc rc",
	// the write of a request fails part-way (the peer vanishes inside the outbound frame) while its caller, and an earlier
	// one, are waiting: nobody has answered, so neither may be handed a reply
	"new:0 start pf:63:0:1:0 pcutout:0 call:1:2:1001 rc r:1",
	"new:0 start pf:63:0:1:0 pcutout:4 call:1:2:1001 rc r:1",
	"new:0 start pf:63:0:1:0 pcutout:10 call:1:2:1001 rc r:1",
	"new:0 start pf:63:0:1:0 pcutout:14 call:1:2:1001 rc r:1",
	"new:0 start pf:63:0:1:0 call:1:2:1001 w:1 pcutout:3 call:2:2:1002 rc r:1 r:2",
	"new:0 start pf:63:0:1:0 call:1:2:1001 w:1 pcutout:12 call:2:3:1002 rc r:2 r:1",
	"new:1 start pf:63:0:1:0 w:1 ps:56:0:18 w:2 ps:57:1:0 call:1:2:1001 w:3 pcutout:10 call:2:2:1002 rc r:1 r:2",
}

func TestVerifC03(t *testing.T) {
	o := vopen(t)
	defer o.close()
	rng := &vrng{s: vseed()}
	if only := os.Getenv("VERIF_C03_ONLY"); only != "" {
		if strings.HasPrefix(only, "stress ") {
			var n, idx int
			fmt.Sscanf(only, "stress %d %d", &n, &idx)
			r := &vrng{s: vseed() + uint64(idx)*7919}
			o.line(c03Stress(r, n, idx))
			return
		}
		o.line("lts "+only, ltsPlay(only))
		return
	}
	for _, s := range c03Fixed {
		o.line("lts "+s, ltsPlay(s))
	}
	n := 300
	if vthorough() {
		n = 3000
	}
	for i := 0; i < n; i++ {
		if ltsAbort() {
			break
		}
		s := genC03Script(rng)
		o.line("lts "+s, ltsPlay(s))
	}
	sizes := []int{2, 3, 4, 8, 16}
	rounds := 6
	if vthorough() {
		sizes = append(sizes, 32, 64)
		rounds = 20
	}
	idx := 0
	for _, n := range sizes {
		for k := 0; k < rounds; k++ {
			if ltsAbort() {
				break
			}
			r := &vrng{s: vseed() + uint64(idx)*7919}
			req, obs := c03Stress(r, n, idx)
			if obs != "accept" {
				ltsStuck += 3
			}
			o.line(req, obs)
			idx++
		}
	}
}

// c03Stress runs n concurrent callers against a free-running peer and returns the monitor request and "accept".
func c03Stress(rng *vrng, n, idx int) (string, string) {
	run := newLtsRun()
	run.c = NewClient(WithLogger(nil), WithVersion(Version1_0_1))
	cli, srv := net.Pipe()
	run.cli, run.srv = cli, srv
	run.peer = &vpeer{c: srv}
	go run.peerReader()
	go func() { run.connErr <- run.c.Connect(cli) }()
	run.started = true
	run.peerSend(vframe{ver: 1, typ: 63, id: 0, payload: renPayload(0)}.bytes())

	type result struct {
		typ  int
		tok  uint64
		kind string
	}
	results := make([]result, n)
	var wg sync.WaitGroup
	cancelAfter := make([]int, n) // microseconds; 0 = never
	for k := 0; k < n; k++ {
		if rng.intn(5) == 0 {
			cancelAfter[k] = 1 + rng.intn(3000)
		}
	}
	for k := 0; k < n; k++ {
		wg.Add(1)
		go func(k int) {
			defer wg.Done()
			defer func() {
				if p := recover(); p != nil {
					results[k] = result{kind: "panic"}
				}
			}()
			ctx, cancel := context.WithTimeout(context.Background(), 8*time.Second)
			defer cancel()
			if cancelAfter[k] > 0 {
				go func() {
					time.Sleep(time.Duration(cancelAfter[k]) * time.Microsecond)
					cancel()
				}()
			}
			typ, data, err := run.c.SendMessage(ctx, MessageType(2), ltsPayload(2, uint64(1000+k)))
			if err != nil {
				results[k] = result{kind: errClass(err)}
				return
			}
			results[k] = result{typ: int(typ), tok: ltsToken(int(typ), data), kind: "reply"}
		}(k)
	}
	allDone := make(chan struct{})
	go func() { wg.Wait(); close(allDone) }()

	// the peer: answers what it has seen in random order, injecting unsolicited frames with colliding ids
	sent := []string{}
	tok := uint64(1)
	answered := map[uint32]bool{}
	send := func(typ int, id uint32) {
		run.peerSend(vframe{ver: 1, typ: typ, id: id, payload: ltsPayload(typ, tok)}.bytes())
		sent = append(sent, fmt.Sprintf("p:%d:%d:%d", typ, id, tok))
		tok++
	}
	deadline := time.Now().Add(10 * time.Second)
	finished := false
	for !finished && time.Now().Before(deadline) {
		select {
		case <-allDone:
			finished = true
			continue
		default:
		}
		run.mu.Lock()
		var pending []uint32
		for _, f := range run.frames {
			if f.typ == 2 && !answered[f.id] {
				pending = append(pending, f.id)
			}
		}
		run.mu.Unlock()
		if len(pending) == 0 {
			time.Sleep(50 * time.Microsecond)
			continue
		}
		// let a few requests pile up so that replies can be permuted
		if len(pending) < 2 && rng.intn(3) != 0 {
			time.Sleep(100 * time.Microsecond)
		}
		id := pending[rng.intn(len(pending))]
		switch rng.intn(6) {
		case 0:
			send(62, id)
		case 1:
			send(61, id)
		case 2:
			send(63, id)
		default:
			if rng.intn(3) == 0 {
				send([]int{62, 61, 63}[rng.intn(3)], id) // immediately before the real reply
			}
			send(12, id)
			answered[id] = true
		}
	}
	hung := !finished
	// observation
	obs := append([]string{}, sent...)
	for k := 0; k < n; k++ {
		wid := "-"
		if id, ok := run.widByToken(uint64(1000 + k)); ok {
			wid = fmt.Sprint(id)
		}
		r := results[k]
		switch r.kind {
		case "reply":
			obs = append(obs, fmt.Sprintf("c:%s:%d:%d", wid, r.typ, r.tok))
		default:
			obs = append(obs, fmt.Sprintf("c:%s:-", wid))
		}
	}
	bad := ""
	if hung {
		bad = "timeout"
	}
	for k := 0; k < n; k++ {
		if results[k].kind == "panic" {
			bad = "panic"
		}
		if results[k].kind == "deadline" {
			bad = "timeout"
		}
		if results[k].kind == "ctx" && cancelAfter[k] == 0 || results[k].kind == "closed" || results[k].kind == "err" {
			bad = "unexpected-" + results[k].kind
		}
	}
	run.connRes = "run"
	run.cleanup()
	req := fmt.Sprintf("check-c03 %s", strings.Join(obs, " "))
	if bad != "" {
		return req + fmt.Sprintf(" #stress:%d:%d", n, idx), bad
	}
	return req + fmt.Sprintf(" #stress:%d:%d", n, idx), "accept"
}
