//go:build verif

package llrp

// C10 — a hostile or broken peer cannot crash, wedge or balloon the client.
// Scenarios (valid session transcripts mutated at every protocol stage) are generated deterministically from
// VERIF_SEED by c10Scenarios(); TestVerifC10 runs them in CHILD processes (re-exec of this test binary running
// TestVerifC10Child on an index range) because a panic on one of the library's own goroutines cannot be recovered:
// a crashed child is the observation `panic` for the scenario it was running.

import (
	"bufio"
	"bytes"
	"context"
	"encoding/binary"
	"fmt"
	"os"
	"os/exec"
	"runtime"
	"strconv"
	"strings"
	"testing"
	"time"
)

type c10op struct {
	kind byte // 'w' peer writes data, 'r' peer waits for one request frame, 'c' a caller starts SendMessage(typ), 'x' peer closes,
	// 'C' a caller with a 150 ms deadline starts SendMessage(typ) (it gives up; its result is not part of the observation), 'p' the peer pauses typ ms
	s    *vstream
	typ  int
}

type c10scn struct {
	name      string
	ver       int // 1 = client configured for 1.0.1 (no negotiation), 2 = 1.1
	timeoutMs int
	handlers  []int
	dflt      bool
	behs      []vbeh // per frame of the inbound stream, frame 0 = first message
	ops       []c10op
	tcp       bool
	manual    bool // the peer reads from the client only at 'r' ops (no background drain): KeepAliveAcks pile up
}

var statusOK = []byte{0x01, 0x1f, 0x00, 0x08, 0x00, 0x00, 0x00, 0x00}

func statusPayload(code uint16) []byte {
	b := append([]byte{}, statusOK...)
	binary.BigEndian.PutUint16(b[4:], code)
	return b
}

func w(build func(s *vstream)) c10op {
	s := &vstream{}
	build(s)
	return c10op{kind: 'w', s: s}
}
func wraw(b []byte) c10op { return w(func(s *vstream) { s.hex(b) }) }

// base transcripts ---------------------------------------------------------------------------------------------------

type c10frame struct {
	ver, typ int
	id       uint32
	payload  []byte
}

func (f c10frame) bytes() []byte {
	return vframe{ver: f.ver, typ: f.typ, id: f.id, payload: f.payload}.bytes()
}

// stage of a transcript element: what the client is doing when the bytes arrive
type c10elem struct {
	op    c10op    // non-write op, or
	frame c10frame // a frame the peer writes
	isW   bool
	stage string
}

func tr1() []c10elem { // 1.0.1 session: greeting, two request/reply exchanges, keep-alive, report
	rep := append([]byte{0x00, 0xf0, 0x00, 0x10, 0x8d, 0x30, 0x08, 0x33, 0xb2, 0xdd, 0xd9, 0x01, 0x40, 0x00, 0x00, 0x00}, []byte{}...)
	return []c10elem{
		{isW: true, frame: c10frame{1, 63, 0, renPayload(0)}, stage: "first"},
		{op: c10op{kind: 'c', typ: 2}},
		{op: c10op{kind: 'r'}},
		{isW: true, frame: c10frame{1, 12, 0, statusPayload(0)}, stage: "reply"},
		{isW: true, frame: c10frame{1, 62, 901, nil}, stage: "unsolicited"},
		{isW: true, frame: c10frame{1, 61, 902, rep}, stage: "unsolicited"},
		{op: c10op{kind: 'c', typ: 1}},
		{op: c10op{kind: 'r'}},
		{isW: true, frame: c10frame{1, 11, 1, statusPayload(0)}, stage: "reply"},
	}
}

func tr2() []c10elem { // 1.1 session: greeting, GetSupportedVersion, SetProtocolVersion, keep-alive
	return []c10elem{
		{isW: true, frame: c10frame{1, 63, 0, renPayload(0)}, stage: "first"},
		{op: c10op{kind: 'r'}},
		{isW: true, frame: c10frame{2, 56, 0, append([]byte{1, 2}, statusOK...)}, stage: "negotiation"},
		{op: c10op{kind: 'r'}},
		{isW: true, frame: c10frame{2, 57, 1, statusPayload(0)}, stage: "negotiation"},
		{isW: true, frame: c10frame{2, 62, 903, nil}, stage: "unsolicited"},
	}
}

func c10Scenarios(seed uint64, thorough bool) []c10scn {
	rng := &vrng{s: seed ^ 0xC10}
	limit := int(MaxBufferedPayloadSz)
	var out []c10scn
	add := func(s c10scn) { out = append(out, s) }
	mk := func(name string, ver int, ops []c10op) c10scn {
		s := c10scn{name: name, ver: ver, ops: append(ops, c10op{kind: 'x'})}
		if ver == 2 {
			s.timeoutMs = 600
		}
		return s
	}
	// ops of a transcript with element `at` replaced by the writes `repl` and everything after it dropped (cut) or kept
	build := func(tr []c10elem, at int, repl []c10op, keepRest bool) []c10op {
		var ops []c10op
		for i, e := range tr {
			if i == at {
				ops = append(ops, repl...)
				if !keepRest {
					break
				}
				continue
			}
			if e.isW {
				ops = append(ops, wraw(e.frame.bytes()))
			} else {
				ops = append(ops, e.op)
			}
		}
		return ops
	}
	for ti, trf := range []func() []c10elem{tr1, tr2} {
		tr := trf()
		ver := ti + 1
		add(mk(fmt.Sprintf("t%d:valid", ver), ver, build(tr, -1, nil, true)))
		strayDone := 0
		for at, e := range tr {
			if !e.isW {
				continue
			}
			fb := e.frame.bytes()
			tag := fmt.Sprintf("t%d:%s@%d", ver, e.stage, at)
			// truncation at every byte (thorough) / at every header byte and a sample of payload bytes (quick)
			for cut := 0; cut < len(fb); cut++ {
				if !thorough && cut > 10 && cut != len(fb)-1 && rng.intn(4) != 0 {
					continue
				}
				add(mk(fmt.Sprintf("%s:trunc%d", tag, cut), ver, build(tr, at, []c10op{wraw(fb[:cut])}, false)))
			}
			// length field: 0..9, ±1, limit+1, 2^32-1, with the real payload following, then the rest of the transcript
			real := uint32(len(fb))
			for _, l := range []uint32{0, 1, 5, 9, 10, real - 1, real + 1, uint32(10 + limit), uint32(10 + limit + 1), uint32(10 + limit + 2), 1 << 31, 1<<32 - 1} {
				if l == real {
					continue
				}
				m := append([]byte{}, fb...)
				binary.BigEndian.PutUint32(m[2:6], l)
				add(mk(fmt.Sprintf("%s:len%d", tag, l), ver, build(tr, at, []c10op{wraw(m)}, true)))
				add(mk(fmt.Sprintf("%s:len%d:cut", tag, l), ver, build(tr, at, []c10op{wraw(m)}, false)))
			}
			// declared over the limit with that many bytes really sent
			if e.stage != "first" || true {
				l := limit + 1 + rng.intn(3)
				add(mk(fmt.Sprintf("%s:big%d", tag, l), ver, build(tr, at, []c10op{w(func(s *vstream) { s.frame(e.frame.ver, e.frame.typ, e.frame.id, l, rng.intn(256)) })}, true)))
				add(mk(fmt.Sprintf("%s:limit", tag), ver, build(tr, at, []c10op{w(func(s *vstream) { s.frame(e.frame.ver, e.frame.typ, e.frame.id, limit, rng.intn(256)) })}, true)))
			}
			// type changes
			for _, ty := range []int{0, 4, 14, 46, 56, 57, 61, 62, 63, 72, 100, 950, 1023, e.frame.typ ^ 1} {
				if ty == e.frame.typ {
					continue
				}
				f := e.frame
				f.typ = ty
				add(mk(fmt.Sprintf("%s:typ%d", tag, ty), ver, build(tr, at, []c10op{wraw(f.bytes())}, true)))
			}
			// a type nobody handles and an id nobody awaits together with a lying length (header only, then the peer is gone):
			// whatever the client does with such a stray message, it must not size anything by the declared length
			if e.stage != "first" && strayDone < 2 {
				strayDone++
				for _, ty := range []int{100, 4, 20, 950} {
					for _, l := range []uint32{uint32(10 + limit + 1), 1 << 28, 1<<32 - 1} {
						f := c10frame{e.frame.ver, ty, e.frame.id ^ 0x5a5a0000, nil}
						m := f.bytes()
						binary.BigEndian.PutUint32(m[2:6], l)
						add(mk(fmt.Sprintf("%s:stray%d:len%d", tag, ty, l), ver, build(tr, at, []c10op{wraw(m)}, false)))
					}
				}
			}
			// payload damage: random bytes flipped, random tails, garbage instead
			nd := 6
			if thorough {
				nd = 40
			}
			for k := 0; k < nd; k++ {
				m := append([]byte{}, fb...)
				switch k % 3 {
				case 0:
					if len(m) > 10 {
						for j := 0; j <= rng.intn(3); j++ {
							m[10+rng.intn(len(m)-10)] = byte(rng.next())
						}
					}
				case 1:
					tail := make([]byte, 1+rng.intn(40))
					for j := range tail {
						tail[j] = byte(rng.next())
					}
					m = append(m, tail...)
				case 2:
					m = make([]byte, 1+rng.intn(64))
					for j := range m {
						m[j] = byte(rng.next())
					}
				}
				add(mk(fmt.Sprintf("%s:dmg%d", tag, k), ver, build(tr, at, []c10op{wraw(m)}, k%2 == 0)))
			}
		}
	}
	// the same 1.0.1 scenarios with handlers installed: a default handler that reads whole payloads, handlers that panic
	// (on the first message too)
	base := len(out)
	for i := 0; i < base; i++ {
		sc := out[i]
		if sc.ver != 1 || (i%3 != 0 && !strings.HasSuffix(sc.name, ":valid")) {
			continue
		}
		v := sc
		v.name = sc.name + "+dflt"
		v.dflt = true
		for k := 0; k < 12; k++ {
			v.behs = append(v.behs, vbeh{k: 1 << 20})
		}
		add(v)
		v2 := sc
		v2.name = sc.name + "+panics"
		v2.handlers = []int{61, 63, 12}
		v2.dflt = true
		for k := 0; k < 12; k++ {
			v2.behs = append(v2.behs, vbeh{k: k, panic: true})
		}
		add(v2)
	}
	// handlers that take the message the way the device service's handlers do — msg.UnmarshalTo(&ROAccessReport{}) /
	// (&ReaderEventNotification{}) / msg.data() — on unsolicited and on awaited+handled frames whose header declares
	// limit-1 … 2^32-1 while the peer sends 32 bytes and hangs up (and, up to limit+1, the whole payload)
	{
		greet := wraw(c10frame{1, 63, 0, renPayload(0)}.bytes())
		decl := []uint32{uint32(limit - 1), uint32(limit), uint32(limit + 1), 1 << 28, 1<<32 - 1 - 10}
		for mode := 0; mode < 4; mode++ {
			for di, p := range decl {
				for _, kind := range []byte{'d', 'u'} {
					for _, full := range []bool{false, true} {
						if full && (p > uint32(limit+1) || (di+int(kind))%2 == 0) {
							continue
						}
						sc := c10scn{ver: 1, behs: []vbeh{{mode: kind}, {mode: kind}, {k: 0}}}
						typ, id := 61, uint32(500)
						ops := []c10op{greet}
						switch mode {
						case 0:
							sc.handlers = []int{61}
						case 1:
							sc.handlers, typ = []int{63}, 63
						case 2:
							sc.dflt = true
						case 3:
							sc.handlers, typ, id = []int{12}, 12, 0
							ops = append(ops, c10op{kind: 'c', typ: 2}, c10op{kind: 'r'})
						}
						fill := rng.intn(256)
						ops = append(ops, w(func(s *vstream) {
							if full {
								s.frame(1, typ, id, int(p), fill)
								s.frame(1, 62, 7, 0, 0)
							} else {
								s.hex(vframe{ver: 1, typ: typ, id: id, lieLen: p + 10}.bytes())
								s.pat(32, fill)
							}
						}))
						sc.name = fmt.Sprintf("hv:mode%d:decl%d:%c:full=%v", mode, p, kind, full)
						sc.ops = append(ops, c10op{kind: 'x'})
						add(sc)
					}
				}
			}
		}
	}
	// flood then hang-up: KeepAlives (alone, or interleaved with reports) while the peer reads nothing, then the peer
	// closes: the ack queue fills, the write loop is stuck in its write, and Connect must still return an error
	for _, ver := range []int{1, 2} {
		for _, k := range []int{1, 5, 6, 7, 8, 20} {
			for _, mixed := range []bool{false, true} {
				if mixed && (k == 1 || k == 5) {
					continue
				}
				ops := []c10op{wraw(c10frame{1, 63, 0, renPayload(0)}.bytes())}
				if ver == 2 {
					ops = append(ops, c10op{kind: 'r'}, wraw(c10frame{2, 56, 0, append([]byte{1, 2}, statusOK...)}.bytes()),
						c10op{kind: 'r'}, wraw(c10frame{2, 57, 1, statusPayload(0)}.bytes()))
				}
				for j := 0; j < k; j++ {
					ops = append(ops, wraw(c10frame{ver, 62, uint32(7000 + j), nil}.bytes()))
					if mixed && j%2 == 1 {
						ops = append(ops, wraw(c10frame{ver, 61, uint32(8000 + j), []byte{0x00, 0xf0, 0x00, 0x04}}.bytes()))
					}
				}
				sc := mk(fmt.Sprintf("flood:v%d:k%d:mixed=%v", ver, k, mixed), ver, ops)
				sc.manual = true
				add(sc)
			}
		}
	}
	// a local Shutdown in progress: the wait for the local close after CloseConnectionResponse + EOF is legitimate here
	gr := wraw(c10frame{1, 63, 0, renPayload(0)}.bytes())
	sd := func(name string, reply c10op) {
		add(mk("sd:"+name, 1, []c10op{gr, {kind: 's'}, {kind: 'r'}, reply}))
	}
	sd("accepted", wraw(c10frame{1, 4, 0, statusPayload(0)}.bytes()))
	sd("refused", wraw(c10frame{1, 4, 0, statusPayload(100)}.bytes()))
	sd("oversize", wraw(vframe{ver: 1, typ: 4, id: 0, lieLen: uint32(10 + limit + 1)}.bytes()))
	sd("othertype", wraw(c10frame{1, 12, 0, statusPayload(0)}.bytes()))
	sd("undecodable", wraw(c10frame{1, 4, 0, []byte{1, 2, 3}}.bytes()))
	sd("silent", wraw(nil))
	// a reply that trickles in while its caller gives up: header and part of the payload, a pause longer than the caller's
	// deadline, the rest; then an ordinary exchange on the same connection (the stream must still be served) and the end
	for _, cut := range []int{10, 11, 14, 17} {
		rep := c10frame{1, 12, 0, statusPayload(0)}.bytes()
		rep2 := c10frame{1, 12, 1, statusPayload(0)}.bytes()
		add(mk(fmt.Sprintf("trickle:cut%d", cut), 1, []c10op{gr, {kind: 'C', typ: 2}, {kind: 'r'}, wraw(rep[:cut]), {kind: 'p', typ: 300},
			wraw(rep[cut:]), {kind: 'c', typ: 2}, {kind: 'r'}, wraw(rep2)}))
	}
	return out
}

// running one scenario ------------------------------------------------------------------------------------------------

func (s c10scn) run() (req, obs string) {
	var ms0, ms1 runtime.MemStats
	a, b, err := vpipe(s.tcp)
	if err != nil {
		return "c10-harness-error", err.Error()
	}
	defer a.Close()
	defer b.Close()
	sent := 0
	for _, op := range s.ops {
		if op.kind == 'w' {
			sent += len(op.s.b)
		}
	}
	runtime.GC()
	runtime.ReadMemStats(&ms0)

	rec := &vrdRec{behs: map[int]vbeh{}}
	for i, bh := range s.behs {
		rec.behs[i] = bh
	}
	opts := []ClientOpt{WithLogger(nil), WithVersion(VersionNum(s.ver))}
	if s.timeoutMs > 0 {
		opts = append(opts, WithTimeout(time.Duration(s.timeoutMs)*time.Millisecond))
	}
	for _, t := range s.handlers {
		opts = append(opts, WithMessageHandler(MessageType(t), &vrdHandler{rec: rec, party: "h"}))
	}
	if s.dflt {
		opts = append(opts, WithDefaultHandler(&vrdHandler{rec: rec, party: "d"}))
	}
	c := NewClient(opts...)
	connRes := make(chan string, 1)
	connDone := make(chan struct{})
	go func() {
		r := "panic"
		defer func() {
			recover()
			connRes <- r
			close(connDone)
		}()
		err := c.Connect(a)
		if os.Getenv("VERIF_C10_DEBUG") != "" {
			fmt.Fprintf(os.Stderr, "C10DEBUG %s: Connect = %v\n", s.name, err)
		}
		r = vconnClass(err)
	}()
	peer := &vpeer{c: b}
	got := make(chan vframe, 64)
	if !s.manual {
		go vdrain(peer, got)
	}

	type caller struct {
		id       string
		res      chan string
		done     chan struct{}
		shutdown bool
		hidden   bool // an impatient caller ('C'): registered, but what it gets is its own context's business
	}
	sdArg := ""
	var callers []*caller
	var regs []string
	var stream []string
	pos := 0
	var pending *caller
	nfake := 0
	// settle gives every outstanding caller whose reply has arrived the time to take it (a reply and the end of the
	// connection racing in the caller's select is C09's business, not this check's)
	settle := func() {
		for _, cl := range callers {
			wait := 3 * time.Millisecond
			if id, err := strconv.ParseUint(strings.TrimPrefix(cl.id, "sd"), 10, 32); err == nil && cl.id != "" {
				// the read loop has taken this caller's entry out of the await map: its reply is on the way to it
				// (or, for a truncated reply, will never come: do not wait long)
				c.awaitMu.Lock()
				_, still := c.awaiting[messageID(id)]
				c.awaitMu.Unlock()
				if !still {
					wait = 40 * time.Millisecond
				}
			}
			select {
			case <-cl.done:
			case <-time.After(wait):
			}
		}
	}
	rwait := 1500 * time.Millisecond
	if s.timeoutMs > 0 {
		rwait = time.Duration(s.timeoutMs) * time.Millisecond * 2 / 5
	}
	for _, op := range s.ops {
		switch op.kind {
		case 'w':
			pos += len(op.s.b)
			if len(op.s.b) > 0 {
				stream = append(stream, op.s.String())
			}
			wdone := make(chan struct{})
			go func() {
				b.SetWriteDeadline(time.Now().Add(3 * time.Second))
				b.Write(op.s.b)
				close(wdone)
			}()
			select {
			case <-wdone:
			case <-connDone: // the client has stopped reading
				select {
				case <-wdone:
				case <-time.After(20 * time.Millisecond):
					b.Close()
					<-wdone
				}
			}
			settle()
		case 'c':
			cl := &caller{res: make(chan string, 1), done: make(chan struct{})}
			callers = append(callers, cl)
			pending = cl
			typ := MessageType(op.typ)
			go func() {
				defer close(cl.done)
				defer func() {
					if r := recover(); r != nil {
						cl.res <- "panic"
					}
				}()
				ctx, cancel := context.WithTimeout(context.Background(), 4*time.Second)
				defer cancel()
				rt, data, err := c.SendMessage(ctx, typ, nil)
				if err != nil {
					cl.res <- errClass(err)
					return
				}
				if rt.IsValid() && len(data) < 1<<16 {
					if v, ok := interface{}(rt.NewInstance()).(interface{ UnmarshalBinary([]byte) error }); ok && v != nil {
						_ = v.UnmarshalBinary(data) // a decoder panic on a hostile reply is caught by the deferred recover
					}
				}
				cl.res <- fmt.Sprintf("ok:%d:%d:%d", rt, len(data), vfnv(fnvOff, data))
			}()
		case 'p':
			time.Sleep(time.Duration(op.typ) * time.Millisecond)
		case 'C':
			cl := &caller{res: make(chan string, 1), done: make(chan struct{}), hidden: true}
			callers = append(callers, cl)
			pending = cl
			typ := MessageType(op.typ)
			go func() {
				defer close(cl.done)
				defer func() {
					if r := recover(); r != nil {
						cl.res <- "panic"
					}
				}()
				ctx, cancel := context.WithTimeout(context.Background(), 150*time.Millisecond)
				defer cancel()
				_, _, err := c.SendMessage(ctx, typ, nil)
				cl.res <- errClass(err)
			}()
		case 's':
			cl := &caller{res: make(chan string, 1), done: make(chan struct{}), shutdown: true}
			callers = append(callers, cl)
			pending = cl
			go func() {
				defer close(cl.done)
				defer func() {
					if r := recover(); r != nil {
						cl.res <- "panic"
					}
				}()
				ctx, cancel := context.WithTimeout(context.Background(), 4*time.Second)
				defer cancel()
				cl.res <- errClass(c.Shutdown(ctx))
			}()
		case 'r':
			if s.manual { // read one non-ack frame directly, with a deadline
				dl := time.Now().Add(rwait)
				for time.Now().Before(dl) {
					f, err := peer.recv(time.Until(dl))
					if err != nil {
						break
					}
					if f.typ != int(MsgKeepAliveAck) {
						got <- f
						break
					}
				}
			}
			select {
			case f, ok := <-got:
				if ok && pending != nil && pending.shutdown {
					pending.id = fmt.Sprintf("sd%d", f.id)
					sdArg = fmt.Sprintf(" sd=%d", f.id)
					regs = append(regs, fmt.Sprintf("%d@%d", f.id, pos))
				} else if ok && pending != nil {
					pending.id = fmt.Sprint(f.id)
					regs = append(regs, fmt.Sprintf("%d@%d", f.id, pos))
				}
			case <-connDone:
			case <-time.After(map[bool]time.Duration{false: rwait, true: time.Millisecond}[s.manual]):
			}
			if pending != nil && pending.id == "" {
				nfake++
				pending.id = fmt.Sprint(4000000000 + nfake) // never sent: no id on the wire
			}
			pending = nil
		case 'x':
			b.Close()
		}
	}
	connect := ""
	select {
	case connect = <-connRes:
	case <-time.After(1000 * time.Millisecond):
		connect = "blocked"
		c.Close()
		select {
		case r := <-connRes:
			if r != "closed" {
				connect = "blocked-then-" + r
			}
		case <-time.After(2 * time.Second):
			connect = "stuck"
		}
	}
	var cres, cids []string
	for _, cl := range callers {
		r := ""
		select {
		case r = <-cl.res:
		case <-time.After(5 * time.Second):
			r = "timeout"
		}
		if r == "deadline" {
			r = "timeout"
		}
		if cl.shutdown && r != "nil" && r != "timeout" && r != "panic" {
			r = "err"
		}
		if cl.hidden {
			if r == "panic" {
				cres = append(cres, cl.id+"=panic")
			}
			continue
		}
		cres = append(cres, cl.id+"="+r)
		if !cl.shutdown && !cl.hidden {
			cids = append(cids, cl.id)
		}
	}
	runtime.ReadMemStats(&ms1)
	delta := ms1.TotalAlloc - ms0.TotalAlloc
	bound := uint64(4*(int(MaxBufferedPayloadSz)+sent) + 1<<20)
	alloc := "ok"
	if delta > bound {
		alloc = fmt.Sprintf("over:%d>%d", delta, bound)
	}
	var hs []string
	for _, t := range s.handlers {
		hs = append(hs, fmt.Sprint(t))
	}
	hs = append(hs, "62") // NewClient registers the KeepAlive handler
	var steps []string
	for _, bh := range s.behs {
		steps = append(steps, bh.String())
	}
	d := 0
	if s.dflt {
		d = 1
	}
	st := "-"
	if len(stream) > 0 {
		st = strings.Join(stream, "+")
	}
	req = fmt.Sprintf("c10 %d %s %d %s %s %s %s%s", s.ver, vjoin(hs), d, vjoin(cids), vjoin(steps), vjoin(regs), st, sdArg)
	obs = fmt.Sprintf("connect=%s callers=%s alloc=%s", connect, vjoin(cres), alloc)
	return req, obs
}

// child / parent --------------------------------------------------------------------------------------------------------

func TestVerifC10Child(t *testing.T) {
	rg := os.Getenv("VERIF_C10_CHILD")
	if rg == "" {
		t.Skip()
	}
	parts := strings.Split(rg, ":")
	from, _ := strconv.Atoi(parts[0])
	to, _ := strconv.Atoi(parts[1])
	scns := c10Scenarios(vseed(), vthorough())
	w := bufio.NewWriter(os.Stdout)
	for i := from; i < to && i < len(scns); i++ {
		fmt.Fprintf(w, "C10RUN\t%d\t%s\n", i, scns[i].name)
		w.Flush()
		req, obs := scns[i].run()
		fmt.Fprintf(w, "C10OBS\t%d\t%s\t%s\n", i, req, obs)
		w.Flush()
	}
}

func TestVerifC10(t *testing.T) {
	o := vopen(t)
	defer o.close()
	scns := c10Scenarios(vseed(), vthorough())
	only := os.Getenv("VERIF_C10_ONLY") // scenario name: replay
	next := 0
	for next < len(scns) {
		if only != "" {
			for next < len(scns) && scns[next].name != only {
				next++
			}
			if next >= len(scns) {
				break
			}
		}
		to := len(scns)
		if only != "" {
			to = next + 1
		}
		cmd := exec.Command(os.Args[0], "-test.run", "^TestVerifC10Child$", "-test.timeout", "1200s")
		cmd.Env = append(os.Environ(), fmt.Sprintf("VERIF_C10_CHILD=%d:%d", next, to))
		var stdout, stderr bytes.Buffer
		cmd.Stdout, cmd.Stderr = &stdout, &stderr
		runErr := cmd.Run()
		if os.Getenv("VERIF_C10_DEBUG") != "" {
			os.Stderr.Write(stderr.Bytes())
		}
		running := -1
		done := next
		for _, line := range strings.Split(stdout.String(), "\n") {
			f := strings.Split(line, "\t")
			switch {
			case len(f) >= 3 && f[0] == "C10RUN":
				running, _ = strconv.Atoi(f[1])
			case len(f) == 4 && f[0] == "C10OBS":
				i, _ := strconv.Atoi(f[1])
				o.line(f[2]+" #"+scns[i].name, f[3])
				done = i + 1
				running = -1
			}
		}
		if runErr != nil && running >= 0 {
			// the child died while running scenario `running`
			tail := stderr.String()
			if i := strings.Index(tail, "panic:"); i >= 0 {
				tail = tail[i:]
			}
			if len(tail) > 600 {
				tail = tail[:600]
			}
			tail = strings.ReplaceAll(strings.ReplaceAll(tail, "\n", " | "), "\t", " ")
			o.line("c10-crash "+scns[running].name, "panic "+tail)
			done = running + 1
		} else if runErr != nil && done == next {
			t.Fatalf("child failed without running anything: %v\n%s", runErr, stderr.String())
		}
		next = done
		if only != "" {
			break
		}
	}
}
