//go:build verif

package llrp

import (
	"context"
	"fmt"
	"io"
	"net"
	"os"
	"strconv"
	"strings"
	"sync"
	"testing"
	"time"
)

// c07log is a ClientLogger that lets the harness wait for the client's internal events.
type c07log struct {
	mu       sync.Mutex
	sending  []Header // headers about to be written, in order
	handled  int      // keep-alives whose handler returned
	other    int      // other inbound messages processed
	panicked []uint32 // ids of keep-alives whose handler panicked (queue full: dropped)
}

func (l *c07log) ReceivedMsg(Header, VersionNum) {}
func (l *c07log) MsgUnhandled(Header) {
	l.mu.Lock()
	l.other++
	l.mu.Unlock()
}
func (l *c07log) SendingMsg(h Header) {
	l.mu.Lock()
	l.sending = append(l.sending, h)
	l.mu.Unlock()
}
func (l *c07log) MsgHandled(h Header) {
	l.mu.Lock()
	if h.typ == MsgKeepAlive {
		l.handled++
	} else {
		l.other++
	}
	l.mu.Unlock()
}
func (l *c07log) HandlerPanic(h Header, _ error) {
	l.mu.Lock()
	l.panicked = append(l.panicked, uint32(h.id))
	l.mu.Unlock()
}
func (l *c07log) nSending() int { l.mu.Lock(); defer l.mu.Unlock(); return len(l.sending) }
func (l *c07log) nHandled() int { l.mu.Lock(); defer l.mu.Unlock(); return l.handled }
func (l *c07log) nOther() int   { l.mu.Lock(); defer l.mu.Unlock(); return l.other }
func (l *c07log) nDropped() int { l.mu.Lock(); defer l.mu.Unlock(); return len(l.panicked) }

func waitFor(d time.Duration, cond func() bool) bool {
	end := time.Now().Add(d)
	for !cond() {
		if time.Now().After(end) {
			return false
		}
		time.Sleep(200 * time.Microsecond)
	}
	return true
}

// gate lets the peer stop reading: while paused no Read is issued on the peer's end, and a pending Read is interrupted.
type gate struct {
	mu     sync.Mutex
	cv     *sync.Cond
	paused bool
	conn   net.Conn
}

func newGate(c net.Conn) *gate { g := &gate{conn: c}; g.cv = sync.NewCond(&g.mu); return g }
func (g *gate) stall() {
	g.mu.Lock()
	g.paused = true
	g.mu.Unlock()
	g.conn.SetReadDeadline(time.Now())
}
func (g *gate) resume() {
	g.mu.Lock()
	g.conn.SetReadDeadline(time.Time{})
	g.paused = false
	g.cv.Broadcast()
	g.mu.Unlock()
}
func (g *gate) Read(p []byte) (int, error) {
	for {
		g.mu.Lock()
		for g.paused {
			g.cv.Wait()
		}
		g.mu.Unlock()
		n, err := g.conn.Read(p)
		if n > 0 {
			return n, nil
		}
		if ne, ok := err.(net.Error); ok && ne.Timeout() {
			continue
		}
		return n, err
	}
}

// c07session: client over net.Pipe with the gated, recording peer reader and the event logger.
type c07session struct {
	*wsession
	lg *c07log
	g  *gate
}

func c07start(ver int) *c07session {
	a, b := net.Pipe()
	lg := &c07log{}
	s := &wsession{c: NewClient(WithLogger(lg), WithVersion(VersionNum(ver))), p: &vpeer{c: b}, cli: a, connErr: make(chan error, 1),
		frames: make(chan vframe, 1<<16), rdDone: make(chan struct{})}
	g := newGate(b)
	go func() {
		defer func() {
			if r := recover(); r != nil {
				s.connErr <- fmt.Errorf("panic: %v", r)
			}
		}()
		s.connErr <- s.c.Connect(a)
	}()
	go func() {
		defer close(s.rdDone)
		defer close(s.frames)
		r := io.TeeReader(g, rawWriter{s})
		h := make([]byte, 10)
		for {
			if _, err := io.ReadFull(r, h); err != nil {
				return
			}
			f := vframe{ver: int(h[0]>>2) & 7, typ: int(h[0]&3)<<8 | int(h[1]), id: uint32(h[6])<<24 | uint32(h[7])<<16 | uint32(h[8])<<8 | uint32(h[9])}
			n := uint32(h[2])<<24 | uint32(h[3])<<16 | uint32(h[4])<<8 | uint32(h[5])
			if n < 10 {
				io.Copy(io.Discard, r)
				return
			}
			f.payload = make([]byte, n-10)
			if _, err := io.ReadFull(r, f.payload); err != nil {
				return
			}
			s.frames <- f
		}
	}()
	return &c07session{wsession: s, lg: lg, g: g}
}

// c07script plays environment events one at a time, each waiting for its observable.
// events: k<id> | r<typ>:<len>:<seed>:<wants> | S | R
func c07script(ver int, evs []string) string {
	s := c07start(ver)
	s.greet()
	select {
	case <-s.c.ready:
	case <-time.After(3 * time.Second):
		s.finish()
		return "timeout-ready"
	}
	var cancels []context.CancelFunc
	defer func() {
		for _, c := range cancels {
			c()
		}
	}()
	stalled, inflight := false, false
	note := ""
	nframes := 0 // frames the peer has received completely
	// syncFrames waits until the peer has received every frame whose header the client has started to send
	syncFrames := func(d time.Duration) bool {
		end := time.Now().Add(d)
		for nframes < s.lg.nSending() {
			left := time.Until(end)
			if left <= 0 {
				return false
			}
			if _, ok := s.next(left); ok {
				nframes++
			} else {
				return false
			}
		}
		return true
	}
	offered, kaSent := 0, 0
	// settle: the write loop makes maximal progress — it takes every acknowledgement not dropped and every request
	// offered (unless it is parked after CloseConnection) — and the peer receives all of it
	settle := func(d time.Duration) bool {
		ok := waitFor(d, func() bool { return s.lg.nSending() >= offered+kaSent-s.lg.nDropped() && len(s.c.ackQueue) == 0 })
		return syncFrames(d) && ok
	}
	for k, ev := range evs {
		switch ev[0] {
		case 'S':
			s.g.stall()
			stalled = true
		case 'R':
			s.g.resume()
			stalled, inflight = false, false
			settle(time.Second)
		case 'm':
			var typ int
			var id uint32
			fmt.Sscanf(ev[1:], "%d:%d", &typ, &id)
			o0 := s.lg.nOther()
			s.psend(vframe{ver: ver, typ: typ, id: id})
			if !waitFor(3*time.Second, func() bool { return s.lg.nOther() > o0 }) {
				note = fmt.Sprintf(" unprocessed@%d", k)
			}
		case 'k':
			id, _ := strconv.ParseUint(ev[1:], 10, 32)
			h0, s0 := s.lg.nHandled(), s.lg.nSending()
			if err := s.psend(vframe{ver: ver, typ: 62, id: uint32(id)}); err != nil {
				note = fmt.Sprintf(" send-failed@%d", k)
				break
			}
			if !waitFor(3*time.Second, func() bool { return s.lg.nHandled() > h0 }) {
				note = fmt.Sprintf(" unhandled@%d", k)
				break
			}
			kaSent++
			if !stalled {
				// the write loop is free: it takes the acknowledgement now (unless the loop is parked)
				settle(300 * time.Millisecond)
			} else if !inflight {
				// the write loop takes this acknowledgement and blocks writing it
				if waitFor(300*time.Millisecond, func() bool { return s.lg.nSending() > s0 }) {
					inflight = true
				}
			}
		case 'r':
			var typ, n, seed, wants int
			fmt.Sscanf(ev[1:], "%d:%d:%d:%d", &typ, &n, &seed, &wants)
			payload := genPayload(seed, n)
			s0 := s.lg.nSending()
			ctx, cancel := context.WithCancel(context.Background())
			cancels = append(cancels, cancel)
			go func() {
				defer func() { recover() }()
				if wants == 1 {
					s.c.SendMessage(ctx, MessageType(typ), payload) // never answered: stays outstanding
				} else if m, err := NewByteMessage(MessageType(typ), payload); err == nil {
					s.c.SendNoWait(ctx, m)
				}
			}()
			offered++
			if stalled && inflight {
				// the write loop is blocked: this caller waits at sendQueue until the peer resumes
				time.Sleep(20 * time.Millisecond)
				break
			}
			if !waitFor(3*time.Second, func() bool { return s.lg.nSending() > s0 }) {
				note = fmt.Sprintf(" not-taken@%d", k)
				break
			}
			if stalled {
				inflight = true
			} else if !settle(3 * time.Second) {
				note = fmt.Sprintf(" timeout@%d", k)
			}
		}
		if note != "" {
			break
		}
	}
	if stalled {
		s.g.resume()
	}
	// quiescence: queue empty (or the loop parked) and no new frame for a while
	last := time.Now()
	for end := time.Now().Add(1500 * time.Millisecond); time.Now().Before(end); {
		select {
		case _, ok := <-s.frames:
			if ok {
				last = time.Now()
				nframes++
			}
		case <-time.After(5 * time.Millisecond):
		}
		if time.Since(last) > 60*time.Millisecond && (len(s.c.ackQueue) == 0 || time.Since(last) > 250*time.Millisecond) {
			break
		}
	}
	for _, c := range cancels {
		c()
	}
	raw := s.finish()
	var fr []string
	rest := raw
	for len(rest) >= 10 {
		n := int(uint32(rest[2])<<24 | uint32(rest[3])<<16 | uint32(rest[4])<<8 | uint32(rest[5]))
		if n < 10 || n > len(rest) {
			break
		}
		fr = append(fr, fmt.Sprintf("%d:%d", int(rest[0]&3)<<8|int(rest[1]), uint32(rest[6])<<24|uint32(rest[7])<<16|uint32(rest[8])<<8|uint32(rest[9])))
		rest = rest[n:]
	}
	if len(rest) != 0 {
		note += fmt.Sprintf(" stray=%d", len(rest))
	}
	var queued []string
	for {
		select {
		case id := <-s.c.ackQueue:
			queued = append(queued, strconv.FormatUint(uint64(id), 10))
			continue
		default:
		}
		break
	}
	s.lg.mu.Lock()
	var dropped []string
	for _, id := range s.lg.panicked {
		dropped = append(dropped, strconv.FormatUint(uint64(id), 10))
	}
	s.lg.mu.Unlock()
	return fmt.Sprintf("frames=%s dropped=%s queued=%s ok=1%s", strings.Join(fr, ","), strings.Join(dropped, ","), strings.Join(queued, ","), note)
}

// c07firstKA: a keep-alive as the very first message — Connect must fail and nothing may ever be written.
func c07firstKA(id uint32) string {
	s := wstart(WithVersion(Version1_0_1))
	s.psend(vframe{ver: 1, typ: 62, id: id})
	res := "connect=timeout"
	select {
	case err := <-s.connErr:
		s.connErr <- err
		if isPanic(err) {
			res = "connect=panic"
		} else if err != nil {
			res = "connect=fail"
		} else {
			res = "connect=ok"
		}
	case <-time.After(3 * time.Second):
	}
	time.Sleep(30 * time.Millisecond) // would-be acknowledgement
	raw := s.finish()
	return fmt.Sprintf("%s raw=%d", res, len(raw))
}

// c07negotiation: keep-alives while version negotiation is in progress with a slow reader; judged by the monitor.
func c07negotiation(rng *vrng, perStep int) string {
	s := wstart(WithVersion(Version1_1))
	s.greet()
	var kaIDs []uint32
	burst := func() bool {
		for i := 0; i < perStep; i++ {
			id := uint32(rng.next())
			kaIDs = append(kaIDs, id)
			s.psend(vframe{ver: 1, typ: 62, id: id})
		}
		// the reader is slow to answer: all acknowledgements must be out before it does
		for i := 0; i < perStep; i++ {
			f, ok := s.next(2 * time.Second)
			if !ok || f.typ != 72 {
				return false
			}
		}
		return true
	}
	okFlow := true
	if f, ok := s.next(3 * time.Second); ok && f.typ == 46 {
		okFlow = burst()
		s.psend(vframe{ver: 2, typ: 56, id: f.id, payload: append([]byte{1, 2}, statusTLV(0)...)})
		if g, ok := s.next(3 * time.Second); ok && g.typ == 47 {
			okFlow = burst() && okFlow
			s.psend(vframe{ver: 2, typ: 57, id: g.id, payload: statusTLV(0)})
		} else {
			okFlow = false
		}
	} else {
		okFlow = false
	}
	select {
	case <-s.c.ready:
	case <-time.After(3 * time.Second):
		okFlow = false
	}
	raw := s.finish()
	ids := make([]string, len(kaIDs))
	for i, id := range kaIDs {
		ids[i] = strconv.FormatUint(uint64(id), 10)
	}
	list := strings.Join(ids, ",")
	if list == "" {
		list = "-"
	}
	if !okFlow {
		return "check-write x" + vhex(raw) + " " + list + " " + list + " 46:0:0:1 47:1:2:1 FLOW-BROKEN"
	}
	return "check-write x" + vhex(raw) + " " + list + " " + list + " 46:0:0:1 47:1:2:1"
}

// c07outstanding: n requests written and never answered, then bursts of up to 5 keep-alives back to back
// (each burst awaited before the next); every keep-alive must be acknowledged. Judged by the monitor.
func c07outstanding(rng *vrng, n, bursts int) string {
	s := wstart(WithVersion(Version1_0_1))
	s.greet()
	<-s.c.ready
	ctx, cancel := context.WithCancel(context.Background())
	var wg sync.WaitGroup
	var issued []string
	for i := 0; i < n; i++ {
		seed := rng.intn(256)
		ln := rng.intn(40)
		issued = append(issued, fmt.Sprintf("2:%d:%d:1", ln, seed))
		wg.Add(1)
		go func() {
			defer wg.Done()
			defer func() { recover() }()
			s.c.SendMessage(ctx, MsgGetReaderConfig, genPayload(seed, ln))
		}()
	}
	got := 0
	for got < n {
		if _, ok := s.next(3 * time.Second); !ok {
			break
		}
		got++
	}
	var ids []string
	flow := got == n
	for b := 0; b < bursts && flow; b++ {
		k := 1 + rng.intn(5)
		for i := 0; i < k; i++ {
			id := uint32(rng.next())
			if i == 1 {
				id = uint32(b) // small ids collide with the outstanding requests' ids
			}
			ids = append(ids, strconv.FormatUint(uint64(id), 10))
			s.psend(vframe{ver: 1, typ: 62, id: id})
		}
		for i := 0; i < k; i++ {
			if _, ok := s.next(2 * time.Second); !ok {
				flow = false
				break
			}
		}
	}
	cancel()
	wg.Wait()
	raw := s.finish()
	req := "check-write x" + vhex(raw) + " " + strings.Join(ids, ",") + " " + strings.Join(ids, ",") + " " + strings.Join(issued, " ")
	if !flow {
		req += " FLOW-BROKEN"
	}
	return req
}

func TestVerifC07(t *testing.T) {
	o := vopen(t)
	defer o.close()
	rng := &vrng{s: vseed() ^ 0xC07}
	only := os.Getenv("VERIF_C07_ONLY")
	script := func(ver int, evs ...string) {
		st := false
		for _, e := range evs {
			if e == "S" {
				st = true
			} else if e == "R" {
				st = false
			}
		}
		if st {
			evs = append(evs, "R") // every script ends with the peer reading
		}
		req := fmt.Sprintf("ack-script %d %s", ver, strings.Join(evs, " "))
		if only != "" && only != req {
			return
		}
		o.line(req, c07script(ver, evs))
	}
	rid := func() string { return fmt.Sprintf("k%d", uint32(rng.next())) }

	// 1. keep-alives at every position of a session script, ids 0, 1, 2^31, 2^32-1, random, duplicates
	script(1, "k0")
	script(1, "k1", "k2147483648", "k4294967295", rid(), "k7", "k7", "k7")
	base := []string{"r2:3:1:1", "r3:0:0:0", "r1:100:5:1", "r20:1000:9:1"}
	for pos := 0; pos <= len(base); pos++ {
		var evs []string
		evs = append(evs, base[:pos]...)
		evs = append(evs, rid())
		evs = append(evs, base[pos:]...)
		script(1, evs...)
	}
	script(1, "k5", "r2:3:1:1", "k5", "r3:0:0:0", "k0", "r1:7:7:1", "k1", "k2") // between all, ids equal to request ids
	script(1, "r2:3:1:1", "r14:0:0:1", "k9", "k10")                                // after CloseConnection the loop is parked: queued, never written
	// 2. many requests outstanding and unanswered
	for _, n := range []int{8, 64} {
		var evs []string
		for i := 0; i < n; i++ {
			evs = append(evs, fmt.Sprintf("r2:%d:%d:1", rng.intn(30), rng.intn(256)))
		}
		evs = append(evs, "k0", "k63", rid(), "k64", rid())
		script(1, evs...)
	}
	// 3. the peer stalls its reads, a burst arrives, the peer resumes: 1..5 all acknowledged; 6 still fits (one is in
	// flight); 7 and 8: the documented drop
	// … up to 12: however many keep-alives were dropped in a row, the next one within the backlog is acknowledged again
	maxBurst := 12
	for n := 1; n <= maxBurst; n++ {
		evs := []string{"k100", "S"}
		for i := 0; i < n; i++ {
			evs = append(evs, fmt.Sprintf("k%d", i+1))
		}
		evs = append(evs, "R", "k200", "k201")
		script(1, evs...)
	}
	// 4. the same while the write loop is blocked writing a request: the queue alone takes 5
	for n := 1; n <= 10; n++ {
		evs := []string{"S", fmt.Sprintf("r2:%d:3:1", 10*n)}
		for i := 0; i < n; i++ {
			evs = append(evs, fmt.Sprintf("k%d", 1000+i))
		}
		evs = append(evs, "R", "k5", "r3:1:1:0")
		script(1, evs...)
	}
	// 4b. priority: requests wait at sendQueue while acknowledgements are queued; when the peer resumes every queued
	// acknowledgement goes out before any waiting request
	for n := 1; n <= 5; n++ {
		evs := []string{"S", "r2:9:1:1"}
		for i := 0; i < n; i++ {
			evs = append(evs, fmt.Sprintf("k%d", 500+i))
		}
		evs = append(evs, "r3:2:2:1", "r1:0:0:0", "R", "k9")
		script(1, evs...)
	}
	script(1, "S", "k1", "r2:9:1:1", "k2", "k3", "r3:1:1:1", "k4", "k5", "k6", "R")
	// 4c. other inbound messages are never acknowledged
	script(1, "m61:5", "k1", "m63:6", "m20:1", "m4:2", "k2", "m100:3", "m72:9", "m1023:4")
	if vthorough() {
		for i := 0; i < 30; i++ {
			var evs []string
			st := false
			for k := 0; k < 14; k++ {
				switch x := rng.intn(10); {
				case x < 5:
					evs = append(evs, rid())
				case x < 7:
					evs = append(evs, fmt.Sprintf("r%d:%d:%d:%d", 1+rng.intn(13), rng.intn(500), rng.intn(256), rng.intn(2)))
				case x == 7 && !st:
					evs = append(evs, "S")
					st = true
				case x == 8 && st:
					evs = append(evs, "R")
					st = false
				}
			}
			script(1, evs...)
		}
	}
	// 4d. whole-client scripts (the client LTS): keep-alives are still acknowledged after a caller has given up while
	// its reply was half-way in, and during application silence longer than the client's timeout (every write gets a
	// fresh deadline, acknowledgements included)
	for _, sc := range []string{
		"new:0 start pf:63:0:1:0 call:1:2:1001 w:1 pspart:11:12:@1:5 cancel:1 r:1 psrest ps:62:0:9 w:2 ps:62:0:10 w:3 close pc rc",
		"new:0 start pf:63:0:1:0 call:1:2:1001 w:1 pspart:10:12:@1:5 cancel:1 r:1 psrest ps:62:0:9 w:2 call:2:2:1002 w:3 ps:12:@2:6 r:2 ps:62:0:10 w:4 close pc rc",
		"new:0 start pf:63:0:1:0 call:1:2:1001 w:1 call:2:2:1002 w:2 pspart:17:12:@2:5 cancel:2 r:2 cancel:1 r:1 psrest ps:62:0:1 w:3 ps:12:@1:7 ps:62:0:2 w:4 close pc rc",
		"new:0:400 start pf:63:0:1:0 call:1:2:1001 w:1 ps:12:@1:5 r:1 zz:150 ps:62:0:1 w:2 zz:150 ps:62:0:2 w:3 zz:150 ps:62:0:3 w:4 zz:150 ps:62:0:4 w:5 close pc rc",
		"new:1:400 start pf:63:0:1:0 w:1 ps:100:0:110 zz:150 ps:62:0:1 w:2 zz:150 ps:62:0:2 w:3 zz:150 ps:62:0:3 w:4 zz:150 ps:62:0:4 w:5 close pc rc",
	} {
		req := "lts " + sc
		if only == "" || only == req {
			o.line(req, ltsPlay(sc))
		}
	}
	// 5. keep-alive as the very first message (observed here; the rule belongs to C08)
	for _, id := range []uint32{0, 77} {
		req := fmt.Sprintf("first-ka %d", id)
		if only == "" || only == req {
			o.line(req, c07firstKA(id))
		}
	}
	// 6. during negotiation with a slow reader; with 64 requests outstanding — judged by the Lean monitor
	if only == "" || only == "monitor" {
		for _, per := range []int{1, 3, 5} {
			o.line(c07negotiation(rng, per), "accept")
		}
		o.line(c07outstanding(rng, 64, 6), "accept")
		o.line(c07outstanding(rng, 16, 12), "accept")
	}
}
