//go:build verif

package llrp

import (
	"bytes"
	"encoding/binary"
	"fmt"
	"net"
	"reflect"
	"testing"
	"time"
)

// capConn is a net.Conn that records writes and serves reads from a buffer.
type capConn struct {
	rd  *bytes.Reader
	out bytes.Buffer
}

func (c *capConn) Read(b []byte) (int, error)         { return c.rd.Read(b) }
func (c *capConn) Write(b []byte) (int, error)        { return c.out.Write(b) }
func (c *capConn) Close() error                       { return nil }
func (c *capConn) LocalAddr() net.Addr                { return &net.TCPAddr{} }
func (c *capConn) RemoteAddr() net.Addr               { return &net.TCPAddr{} }
func (c *capConn) SetDeadline(t time.Time) error      { return nil }
func (c *capConn) SetReadDeadline(t time.Time) error  { return nil }
func (c *capConn) SetWriteDeadline(t time.Time) error { return nil }

func TestVerifC19(t *testing.T) {
	o := vopen(t)
	defer o.close()
	rng := &vrng{s: vseed()}
	limit := uint32(MaxBufferedPayloadSz)
	lens := []uint32{0, 9, 10, 11, 10 + limit, 10 + limit + 1, 1<<32 - 1, uint32(rng.next())}
	ids := []uint32{0, uint32(rng.next())}
	if vthorough() {
		lens = append(lens, 1, 8, 1<<31, 1<<32-2, 255, 256, 65535, 65536, uint32(rng.next()), uint32(rng.next()))
		ids = append(ids, 1, 1<<31, 1<<32-1, uint32(rng.next()))
	}

	// 1. decode: all 2^16 values of the first two bytes x lengths x ids, through Header.UnmarshalBinary
	buf := make([]byte, 10)
	for hi := 0; hi < 65536; hi++ {
		binary.BigEndian.PutUint16(buf[0:2], uint16(hi))
		for _, l := range lens {
			binary.BigEndian.PutUint32(buf[2:6], l)
			for _, id := range ids {
				binary.BigEndian.PutUint32(buf[6:10], id)
				var h Header
				obs := "err"
				if err := h.UnmarshalBinary(buf); err == nil {
					obs = fmt.Sprintf("ok %d %d %d %d", h.version, h.typ, h.payloadLen, h.id)
				}
				o.line("hdr-dec x"+vhex(buf), obs)
			}
		}
	}
	// short and long buffers, and the client's readHeader on a stream
	for n := 0; n <= 12; n++ {
		b := make([]byte, n)
		for i := range b {
			b[i] = byte(rng.next())
		}
		if n >= 6 {
			binary.BigEndian.PutUint32(b[2:6], 10+uint32(rng.intn(100)))
		}
		var h Header
		obs := "err"
		if err := h.UnmarshalBinary(b); err == nil {
			obs = fmt.Sprintf("ok %d %d %d %d", h.version, h.typ, h.payloadLen, h.id)
		}
		o.line("hdr-dec x"+vhex(b), obs)

		c := NewClient(WithLogger(nil))
		c.conn = &capConn{rd: bytes.NewReader(b)}
		obs = "err"
		if h2, err := c.readHeader(); err == nil {
			obs = fmt.Sprintf("ok %d %d %d %d", h2.version, h2.typ, h2.payloadLen, h2.id)
		}
		o.line("hdr-dec x"+vhex(b), obs)
	}

	// 2. encode: every version 0..8 (+ out-of-range samples) x every type code 0..1100 (+ samples to 65535) x payload lengths x ids
	vers := []int{0, 1, 2, 3, 4, 5, 6, 7}
	plens := []uint32{0, 1, limit, limit + 1, 1<<32 - 12, 1<<32 - 11, 1<<32 - 10, 1<<32 - 1, uint32(rng.next())}
	for _, v := range vers {
		for typ := 0; typ <= 1100; typ++ {
			for _, pl := range plens {
				id := ids[rng.intn(len(ids))]
				h := Header{version: VersionNum(v), typ: MessageType(typ), payloadLen: pl, id: messageID(id)}
				obs := "err"
				if b, err := h.MarshalBinary(); err == nil {
					obs = "ok x" + vhex(b)
				}
				req := fmt.Sprintf("hdr-enc %d %d %d %d", v, typ, pl, id)
				o.line(req, obs)
				// WriteTo must agree with MarshalBinary
				var bb bytes.Buffer
				obs2 := "err"
				if _, err := h.WriteTo(&bb); err == nil {
					obs2 = "ok x" + vhex(bb.Bytes())
				}
				o.line(req, obs2)
				// writeHeader: the client's own copy (no validation)
				c := NewClient(WithLogger(nil))
				cc := &capConn{rd: bytes.NewReader(nil)}
				c.conn = cc
				if err := c.writeHeader(h); err != nil {
					o.line(fmt.Sprintf("hdr-write %d %d %d %d", v, typ, pl, id), "err")
				} else {
					o.line(fmt.Sprintf("hdr-write %d %d %d %d", v, typ, pl, id), "ok x"+vhex(cc.out.Bytes()))
				}
			}
		}
	}
	for i := 0; i < 2000; i++ {
		v, typ, pl, id := rng.intn(256), rng.intn(65536), uint32(rng.next()), uint32(rng.next())
		h := Header{version: VersionNum(v), typ: MessageType(typ), payloadLen: pl, id: messageID(id)}
		obs := "err"
		if b, err := h.MarshalBinary(); err == nil {
			obs = "ok x" + vhex(b)
		}
		o.line(fmt.Sprintf("hdr-enc %d %d %d %d", v, typ, pl, id), obs)
		c := NewClient(WithLogger(nil))
		cc := &capConn{rd: bytes.NewReader(nil)}
		c.conn = cc
		_ = c.writeHeader(h)
		o.line(fmt.Sprintf("hdr-write %d %d %d %d", v, typ, pl, id), "ok x"+vhex(cc.out.Bytes()))
	}

	// 3. type tables: all 1024 codes (and beyond) through IsValid, Converse, NewInstance().Type()
	for typ := 0; typ < 2048; typ++ {
		mt := MessageType(typ)
		o.linef(fmt.Sprintf("isvalid %d", typ), "%v", mt.IsValid())
		conv := "none"
		if x, ok := mt.Converse(); ok {
			conv = fmt.Sprintf("some %d", x)
		}
		o.line(fmt.Sprintf("converse %d", typ), conv)
		// property monitor: the pairing prescribed by the table must be honoured
		o.line(fmt.Sprintf("check-converse %d %s", typ, conv), "accept")
		ni := "none"
		if inst := mt.NewInstance(); inst != nil {
			ni = fmt.Sprintf("some %s type=%d", reflect.TypeOf(inst).Elem().Name(), inst.Type())
		}
		o.line(fmt.Sprintf("newinstance %d", typ), ni)
		// the encode path of the client: the exported constructors refuse (panic / error) exactly the types that are not valid,
		// so that a reserved or out-of-range type can not be put on the wire through SendNoWait / SendMessage
		for k, mk := range []func() bool{
			func() bool { _ = NewHdrOnlyMsg(mt); return true },
			func() bool { _, err := NewByteMessage(mt, []byte{1, 2, 3}); return err == nil },
			func() bool { _, err := NewByteMessage(mt, nil); return err == nil },
		} {
			accepted := func() (ok bool) {
				defer func() {
					if recover() != nil {
						ok = false
					}
				}()
				return mk()
			}()
			o.linef(fmt.Sprintf("ctor-accepts %d %d", typ, k), "%v", accepted)
		}
	}
}
