//go:build verif

package llrp

// C08 — nothing is sent before a successful connection event; requests wait for setup.
//  (1) `initial …`: the real checkInitialMessage on a recorded connection, for every message type, every
//      ConnectionAttemptEvent status, and empty / truncated / oversize / garbage payloads, EOF and timeout;
//      observed: verdict, bytes written, whether the KeepAlive handler queued an ack.
//  (2) `lts …`: the whole Connect against the scripted peer, first message of every type and early callers issued
//      before Connect, during the initial read, and during each negotiation step; observed: every frame the peer
//      receives (order), each caller's result class, Connect's result.

import (
	"bytes"
	"encoding/binary"
	"fmt"
	"os"
	"testing"
	"time"
)

// stallConn serves reads from a buffer and then blocks until its deadline (a peer that stays silent).
type stallConn struct {
	capConn
	deadline time.Time
}

type timeoutErr struct{}

func (timeoutErr) Error() string   { return "i/o timeout" }
func (timeoutErr) Timeout() bool   { return true }
func (timeoutErr) Temporary() bool { return true }

func (c *stallConn) Read(b []byte) (int, error) {
	if c.rd.Len() > 0 {
		return c.rd.Read(b)
	}
	if c.deadline.IsZero() {
		time.Sleep(50 * time.Millisecond)
		return 0, timeoutErr{}
	}
	time.Sleep(time.Until(c.deadline))
	return 0, timeoutErr{}
}
func (c *stallConn) SetReadDeadline(t time.Time) error { c.deadline = t; return nil }

func c08Initial(o *vout, typ int, declared uint32, payload []byte, stall bool) {
	hdr := make([]byte, 10)
	hdr[0] = byte(1<<2) | byte(typ>>8&3)
	hdr[1] = byte(typ)
	binary.BigEndian.PutUint32(hdr[2:6], declared+10)
	stream := append(hdr, payload...)
	req := fmt.Sprintf("initial %d %d x%s", typ, declared, vhex(payload))
	o.line(req, c08Check(stream, stall))
}

func c08Check(stream []byte, stall bool) string {
	opts := []ClientOpt{WithLogger(nil)}
	var conn interface {
		written() int
	}
	var c *Client
	if stall {
		opts = append(opts, WithTimeout(30*time.Millisecond))
		c = NewClient(opts...)
		sc := &stallConn{capConn: capConn{rd: bytes.NewReader(stream)}}
		c.conn = sc
		conn = sc
	} else {
		c = NewClient(opts...)
		cc := &capConn{rd: bytes.NewReader(stream)}
		c.conn = cc
		conn = cc
	}
	verdict := "reject"
	func() {
		defer func() {
			if p := recover(); p != nil {
				verdict = "panic"
			}
		}()
		if err := c.checkInitialMessage(); err == nil {
			verdict = "accept"
		}
	}()
	return fmt.Sprintf("%s w=%d ack=%d", verdict, conn.written(), len(c.ackQueue))
}

func (c *capConn) written() int { return c.out.Len() }

func c08Types() []int {
	var ts []int
	for t := 0; t < 1024; t++ {
		if MessageType(t).NewInstance() != nil {
			ts = append(ts, t)
		}
	}
	return ts
}

func TestVerifC08(t *testing.T) {
	o := vopen(t)
	defer o.close()
	if only := os.Getenv("VERIF_C08_ONLY"); only != "" {
		o.line("lts "+only, ltsPlay(only))
		return
	}
	rng := &vrng{s: vseed()}
	limit := uint32(MaxBufferedPayloadSz)
	types := c08Types()
	statuses := []uint16{0, 1, 2, 3, 4, 5, 255, 65535}
	if vthorough() {
		for s := 6; s < 255; s++ {
			statuses = append(statuses, uint16(s))
		}
		types = append(types, 0, 5, 60, 73, 101, 899, 900, 1022)
	}
	// (1) the pure decision
	for _, typ := range types {
		for _, st := range statuses {
			p := renPayload(st)
			c08Initial(o, typ, uint32(len(p)), p, false)
		}
		c08Initial(o, typ, 0, nil, false)                                     // empty
		p := renPayload(0)
		c08Initial(o, typ, uint32(len(p)), p[:len(p)-3], false)               // truncated: stream ends inside the payload
		c08Initial(o, typ, uint32(len(p))+4, p, false)                        // declared longer than what arrives
		c08Initial(o, typ, uint32(len(p))-2, p, false)                        // declared shorter: the event parameter is cut
		c08Initial(o, typ, limit+1, nil, false)                               // oversize claim, nothing follows
		c08Initial(o, typ, limit+1, p, false)                                 // oversize claim with some bytes
		g := make([]byte, 1+rng.intn(40))
		for i := range g {
			g[i] = byte(rng.next())
		}
		c08Initial(o, typ, uint32(len(g)), g, false) // garbage
	}
	// ReaderEventNotification payload variants
	ren := renPayload(0)
	noEvent := append([]byte{}, ren[:16]...) // data parameter with the timestamp only
	binary.BigEndian.PutUint16(noEvent[2:], 16)
	c08Initial(o, 63, uint32(len(noEvent)), noEvent, false)
	twoEvents := append(append([]byte{}, ren...), 0x01, 0x01, 0x00, 0x04) // + ConnectionCloseEvent
	binary.BigEndian.PutUint16(twoEvents[2:], uint16(len(twoEvents)))
	c08Initial(o, 63, uint32(len(twoEvents)), twoEvents, false)
	for i := 0; i < len(ren); i++ { // every single-byte corruption of the good payload
		for _, x := range []byte{0x01, 0x80, 0xff} {
			q := append([]byte{}, ren...)
			q[i] ^= x
			c08Initial(o, 63, uint32(len(q)), q, false)
		}
	}
	for n := 0; n < len(ren); n++ { // every prefix
		c08Initial(o, 63, uint32(n), ren[:n], false)
	}
	c08Initial(o, 63, limit, ren, false) // at the limit, short stream
	// damage that comes only AFTER a well-formed "connection attempt: success" event: the notification is malformed all
	// the same.  Stray bytes after the data parameter and inside it, a following parameter whose declared length overruns
	// the buffer, and every corruption / cut of a notification that carries further events after the attempt event.
	for n := 1; n <= 5; n++ {
		junk := make([]byte, n)
		for i := range junk {
			junk[i] = byte(rng.next())
		}
		after := append(append([]byte{}, ren...), junk...)
		c08Initial(o, 63, uint32(len(after)), after, false)
		inside := append(append([]byte{}, ren...), junk...)
		binary.BigEndian.PutUint16(inside[2:], uint16(len(inside)))
		c08Initial(o, 63, uint32(len(inside)), inside, false)
	}
	for _, tail := range [][]byte{{0x01, 0x01, 0x00, 0x20}, {0x01, 0x01, 0x00, 0x03}, {0x01, 0x01, 0xff, 0xff}, {0x03, 0xff, 0x00, 0x08, 1, 2, 3, 4},
		{0x00, 0xf6, 0x00, 0x04}, {0x01, 0x1f, 0x00, 0x08, 0, 0, 0, 1}, {0x81, 0, 1}} {
		inside := append(append([]byte{}, ren...), tail...)
		binary.BigEndian.PutUint16(inside[2:], uint16(len(inside)))
		c08Initial(o, 63, uint32(len(inside)), inside, false)
		after := append(append([]byte{}, ren...), tail...)
		c08Initial(o, 63, uint32(len(after)), after, false)
	}
	for i := len(ren); i < len(twoEvents); i++ {
		for _, x := range []byte{0x01, 0x04, 0x80, 0xff} {
			q := append([]byte{}, twoEvents...)
			q[i] ^= x
			c08Initial(o, 63, uint32(len(q)), q, false)
		}
	}
	for n := len(ren); n < len(twoEvents); n++ {
		q := append([]byte{}, twoEvents[:n]...) // cut inside the second event; the data parameter still claims the full length
		c08Initial(o, 63, uint32(n), q, false)
		q2 := append([]byte{}, twoEvents[:n]...)
		binary.BigEndian.PutUint16(q2[2:], uint16(n)) // … and with the data parameter's length adjusted to the cut
		c08Initial(o, 63, uint32(n), q2, false)
	}
	// no message: EOF at every offset of the header, and a silent peer (timeout)
	for n := 0; n < 10; n++ {
		f := vframe{ver: 1, typ: 63, id: 0, payload: ren}.bytes()
		o.line("initial none", c08Check(f[:n], false))
	}
	o.line("initial none", c08Check(nil, true))
	o.line("initial none", c08Check([]byte{4, 63, 0}, true))
	o.line("initial 63 22 x"+vhex(ren[:7]), c08Check(vframe{ver: 1, typ: 63, payload: ren}.bytes()[:17], true))
	// malformed header (length < 10)
	o.line("initial none", c08Check([]byte{4, 63, 0, 0, 0, 9, 0, 0, 0, 0}, false))

	// (2) the whole Connect
	scripts := c08Scripts(types)
	// setup that fails after the writer has started (negotiation fails) with many parked callers, repeated: whatever the
	// schedule between Connect's return and the callers' wake-up, no caller's request may reach the wire
	reps := 40
	if vthorough() {
		reps = 400
	}
	for i := 0; i < reps; i++ {
		for _, fail := range []string{"ps:12:0:5", "ps:100:0:100", "ps:56:0:18 w:2 ps:57:1:100", "ps:56:0:18 w:2 ps:12:1:5"} {
			sc := "new:1"
			res := ""
			for c := 1; c <= 8; c++ {
				if c%4 == 0 {
					sc += fmt.Sprintf(" nw:%d:2:%d", c, 1000+c)
				} else {
					sc += fmt.Sprintf(" call:%d:2:%d", c, 1000+c)
				}
				res += fmt.Sprintf(" r:%d", c)
			}
			scripts = append(scripts, sc+" spin:6 z start pf:63:0:1:0 w:1 "+fail+" rc"+res)
		}
	}
	for _, s := range scripts {
		if ltsAbort() {
			break
		}
		o.line("lts "+s, ltsPlay(s))
	}
}

func c08Scripts(types []int) []string {
	var out []string
	for _, neg := range []int{0, 1} {
		for _, typ := range types {
			for _, ok := range []int{0, 1} {
				if typ == 63 && ok == 1 {
					continue
				}
				// first message of this type: rejected, nothing written; one caller issued before Connect, one during the read
				out = append(out, fmt.Sprintf("new:%d call:1:2:1001 z start z call:2:2:1002 z pf:%d:7:%d:0 rc r:1 r:2", neg, typ, ok))
			}
		}
		out = append(out,
			fmt.Sprintf("new:%d start pf:63:0:1:1 rc", neg),                                 // oversize REN
			fmt.Sprintf("new:%d call:1:2:1001 z start pf:62:9:1:1 rc r:1", neg),             // oversize KeepAlive
			fmt.Sprintf("new:%d call:1:2:1001 z start z pc rc r:1", neg),                    // EOF
			fmt.Sprintf("new:%d call:1:2:1001 z start z pcut:4:63:0:0 rc r:1", neg),         // EOF inside the header
			fmt.Sprintf("new:%d:60 call:1:2:1001 z start tmo rc r:1", neg),                  // silent peer, client with timeout
			fmt.Sprintf("new:%d nw:1:2:1001 z start pf:62:3:1:0 rc r:1", neg),               // SendNoWait as early caller
			fmt.Sprintf("new:%d shutdown:1 z start pf:63:0:0:0 rc r:1", neg),                // Shutdown as early caller
			fmt.Sprintf("new:%d call:1:2:1001 z cancel:1 r:1 start pf:63:0:0:0 rc", neg),    // early caller cancelled
			fmt.Sprintf("new:%d close call:1:2:1001 r:1 start pf:63:0:1:0 rc", neg))         // closed before Connect
	}
	// accepted greeting: an early caller at each point of setup reaches the wire only after negotiation
	out = append(out,
		"new:0 call:1:2:1001 z n:0 start z n:0 pf:63:0:1:0 w:1 close r:1 pc rc",
		"new:0 start z call:1:3:1002 z n:0 pf:63:0:1:0 w:1 close r:1 pc rc",
		"new:1 call:1:2:1001 z start z n:0 pf:63:0:1:0 w:1 n:1 ps:100:0:110 w:2 close r:1 pc rc",
		"new:1 start z call:1:2:1001 z pf:63:0:1:0 w:1 n:1 ps:100:0:110 w:2 close r:1 pc rc",
		"new:1 start pf:63:0:1:0 w:1 call:1:2:1001 z n:1 ps:100:0:110 w:2 close r:1 pc rc",
		"new:1 call:1:2:1001 z start pf:63:0:1:0 w:1 n:1 ps:56:0:18 w:2 n:2 ps:57:1:0 w:3 close r:1 pc rc",
		"new:1 start pf:63:0:1:0 w:1 call:1:2:1001 z n:1 ps:56:0:18 w:2 n:2 ps:57:1:0 w:3 close r:1 pc rc",
		"new:1 start pf:63:0:1:0 w:1 ps:56:0:18 w:2 call:1:2:1001 z n:2 ps:57:1:0 w:3 close r:1 pc rc",
		"new:1 start pf:63:0:1:0 w:1 ps:56:0:18 w:2 nw:1:2:1001 z n:2 ps:57:1:0 w:3 r:1 close pc rc",
		"new:1 nw:1:2:1001 z start pf:63:0:1:0 w:1 n:1 ps:100:0:110 w:2 r:1 close pc rc",
		// Shutdown is a caller like any other: issued before Connect / during the initial read / while a negotiation message is
		// outstanding, its CloseConnection reaches the wire only after negotiation (here it is answered and ends the session)
		"new:1 shutdown:1 z start z n:0 pf:63:0:1:0 w:1 n:1 ps:100:0:110 w:2 ps:4:@1:0 r:1 pc rc",
		"new:1 start z shutdown:1 z pf:63:0:1:0 w:1 n:1 ps:56:0:18 w:2 n:2 ps:57:1:0 w:3 ps:4:@1:0 r:1 pc rc",
		"new:1 start pf:63:0:1:0 w:1 shutdown:1 z n:1 ps:56:0:18 w:2 n:2 ps:57:1:0 w:3 ps:4:@1:0 r:1 pc rc",
		"new:1 start pf:63:0:1:0 w:1 ps:56:0:18 w:2 shutdown:1 z n:2 ps:57:1:0 w:3 ps:4:@1:0 r:1 pc rc",
		"new:0 shutdown:1 z n:0 start z n:0 pf:63:0:1:0 w:1 ps:4:@1:0 r:1 pc rc",
		// negotiation fails: wrong reply type, error status, reader rejects SetProtocolVersion, connection ends, local close
		"new:1 call:1:2:1001 z start pf:63:0:1:0 w:1 call:2:2:1002 z n:1 ps:12:0:5 rc r:1 r:2",
		"new:1 call:1:2:1001 z start pf:63:0:1:0 w:1 ps:100:0:100 rc r:1",
		// an ERROR_MESSAGE is a failure whatever status it carries (also Success): the reader did not confirm anything
		"new:1 call:1:2:1001 z start pf:63:0:1:0 w:1 ps:56:0:18 w:2 ps:100:1:0 rc r:1",
		"new:1 call:1:2:1001 z start pf:63:0:1:0 w:1 ps:100:0:0 rc r:1",
		"new:1 call:1:2:1001 z start pf:63:0:1:0 w:1 ps:56:0:18 w:2 call:2:2:1002 z ps:57:1:100 rc r:1 r:2",
		"new:1 call:1:2:1001 z start pf:63:0:1:0 w:1 ps:56:0:18 w:2 ps:12:1:5 rc r:1",
		"new:1 call:1:2:1001 z start pf:63:0:1:0 w:1 pc rc r:1",
		"new:1 call:1:2:1001 z start pf:63:0:1:0 w:1 ps:56:0:18 w:2 call:2:2:1002 z pc rc r:1 r:2",
		"new:1 call:1:2:1001 z start pf:63:0:1:0 w:1 pcut:3:100:0:110 rc r:1",
		"new:1 call:1:2:1001 z start pf:63:0:1:0 w:1 pcut:13:100:0:110 rc r:1",
		"new:1 call:1:2:1001 z start pf:63:0:1:0 w:1 close rc r:1",
		"new:1 call:1:2:1001 z start pf:63:0:1:0 w:1 ps:56:0:18 w:2 close rc r:1",
		// unsolicited traffic during negotiation does not open the gate
		"new:1 call:1:2:1001 z start pf:63:0:1:0 w:1 ps:62:0:3 w:2 ps:61:0:4 ps:100:0:110 w:3 close r:1 pc rc")
	return out
}
