//go:build verif

package llrp

import (
	"context"
	"encoding/binary"
	"fmt"
	"hash/fnv"
	"io"
	"net"
	"os"
	"strconv"
	"strings"
	"sync"
	"testing"
	"time"
)

// genPayload is the test payload both sides can generate (LLRP.genPayload): byte i = seed + 131·i + ⌊i/251⌋.
func genPayload(seed, n int) []byte {
	b := make([]byte, n)
	for i := range b {
		b[i] = byte(seed + 131*i + i/251)
	}
	return b
}

func fnv32(b []byte) uint32 {
	h := fnv.New32a()
	h.Write(b)
	return h.Sum32()
}

// splitRaw splits a raw stream by hand into frame summaries "ver:typ:id:len:fnv" and the number of stray bytes.
func splitRaw(raw []byte) (string, int) {
	var parts []string
	for len(raw) >= 10 {
		n := int(binary.BigEndian.Uint32(raw[2:6]))
		if n < 10 || n > len(raw) {
			break
		}
		parts = append(parts, fmt.Sprintf("%d:%d:%d:%d:%d", int(raw[0]>>2)&7, int(raw[0]&3)<<8|int(raw[1]),
			binary.BigEndian.Uint32(raw[6:10]), n-10, fnv32(raw[10:n])))
		raw = raw[n:]
	}
	return strings.Join(parts, ","), len(raw)
}

// c05seq plays a dequeue order deterministically: one item at a time, each waiting for its frame.
// items: a<id> | r<typ>:<len>:<seed>:<wants> | v<n> (ignored here: the version never changes without negotiation)
func c05seq(ver int, items []string) string {
	s := wstart(WithVersion(VersionNum(ver)))
	s.greet()
	select {
	case <-s.c.ready:
	case <-time.After(3 * time.Second):
		s.finish()
		return "timeout-ready"
	}
	note := ""
	parked := false // a CloseConnection was written: the loop takes nothing more (the model says so too)
	for k, it := range items {
		if parked {
			// offered but never taken: nothing more may appear on the wire
			switch it[0] {
			case 'a':
				id, _ := strconv.ParseUint(it[1:], 10, 32)
				s.psend(vframe{ver: ver, typ: 62, id: uint32(id)})
			case 'r':
				var typ, n, seed, wants int
				fmt.Sscanf(it[1:], "%d:%d:%d:%d", &typ, &n, &seed, &wants)
				ctx, cancel := context.WithTimeout(context.Background(), 30*time.Millisecond)
				func() {
					defer func() { recover() }()
					if m, err := NewByteMessage(MessageType(typ), genPayload(seed, n)); err == nil {
						s.c.SendNoWait(ctx, m)
					}
				}()
				cancel()
			}
			continue
		}
		switch it[0] {
		case 'a':
			id, _ := strconv.ParseUint(it[1:], 10, 32)
			s.psend(vframe{ver: ver, typ: 62, id: uint32(id)})
			if _, ok := s.next(3 * time.Second); !ok {
				note = fmt.Sprintf(" timeout@%d", k)
			}
		case 'r':
			var typ, n, seed, wants int
			fmt.Sscanf(it[1:], "%d:%d:%d:%d", &typ, &n, &seed, &wants)
			payload := genPayload(seed, n)
			done := make(chan string, 1)
			go func() {
				defer func() {
					if r := recover(); r != nil {
						done <- "panic"
					}
				}()
				ctx, cancel := context.WithTimeout(context.Background(), 5*time.Second)
				defer cancel()
				if wants == 1 {
					_, _, err := s.c.SendMessage(ctx, MessageType(typ), payload)
					done <- errClass(err)
				} else {
					m, err := NewByteMessage(MessageType(typ), payload)
					if err != nil {
						done <- "err"
						return
					}
					done <- errClass(s.c.SendNoWait(ctx, m))
				}
			}()
			f, ok := s.next(4 * time.Second)
			if ok && typ == 14 {
				parked = true
			}
			if !ok {
				note = fmt.Sprintf(" timeout@%d", k)
			} else if wants == 1 {
				rt := 12
				if typ == 14 {
					rt = 4
				}
				s.psend(vframe{ver: ver, typ: rt, id: f.id, payload: statusTLV(0)})
			}
			if note == "" || wants == 0 {
				select {
				case r := <-done:
					if r == "panic" {
						note += " panic"
					}
				case <-time.After(6 * time.Second):
					note += " caller-stuck"
				}
			}
		}
		if note != "" {
			break
		}
	}
	raw := s.finish()
	sum, rest := splitRaw(raw)
	return fmt.Sprintf("%s rest=%d%s", sum, rest, note)
}

type c05issued struct {
	typ, n, seed int
	must         bool
}

// c05stress: concurrent senders, keep-alives interleaved by the peer, some callers cancelling, optional shutdown
// with late senders. Returns the oracle request (monitor input) for the recorded raw stream.
func c05stress(rng *vrng, senders, perSender int, sizes []int, tcp bool, shutdown bool, kas int) string {
	s := wstartOn(tcp, WithVersion(Version1_0_1))
	s.greet()
	select {
	case <-s.c.ready:
	case <-time.After(3 * time.Second):
		s.finish()
		return "timeout-ready"
	}
	// the peer answers every request frame except those whose id falls in the "never answered" class
	respDone := make(chan struct{})
	go func() {
		defer close(respDone)
		for f := range s.frames {
			if f.typ == 72 {
				continue
			}
			if f.typ != 14 && f.id%7 == 3 {
				continue // unanswered: its caller will time out
			}
			rt := 12
			if f.typ == 14 {
				rt = 4
			}
			s.psend(vframe{ver: 1, typ: rt, id: f.id, payload: statusTLV(0)})
		}
	}()
	// keep-alives at random moments
	kaIDs := []uint32{0, 1, 1 << 31, 1<<32 - 1, 7, 7}
	for len(kaIDs) < kas {
		kaIDs = append(kaIDs, uint32(rng.next()))
	}
	kaIDs = kaIDs[:kas]
	kaGaps := make([]time.Duration, kas)
	for i := range kaGaps {
		kaGaps[i] = time.Duration(200+rng.intn(3000)) * time.Microsecond
	}
	kaDone := make(chan struct{})
	go func() {
		defer close(kaDone)
		for i, id := range kaIDs {
			time.Sleep(kaGaps[i])
			s.psend(vframe{ver: 1, typ: 62, id: id})
		}
	}()

	var mu sync.Mutex
	var issued []c05issued
	var wg sync.WaitGroup
	sender := func(seedBase uint64, count int, late bool) {
		defer wg.Done()
		defer func() { recover() }()
		r := &vrng{s: seedBase}
		for k := 0; k < count; k++ {
			n := sizes[r.intn(len(sizes))]
			typ := []int{1, 2, 3, 20, 40, 1023}[r.intn(6)]
			seed := r.intn(256)
			payload := genPayload(seed, n)
			mode := r.intn(10)
			to := 400 * time.Millisecond
			if late {
				to = 150 * time.Millisecond
			}
			switch {
			case mode == 0: // cancelled almost at once
				to = time.Duration(r.intn(300)) * time.Microsecond
			case mode == 1:
				to = time.Duration(1+r.intn(5)) * time.Millisecond
			}
			ctx, cancel := context.WithTimeout(context.Background(), to)
			var err error
			if mode >= 7 {
				var m Message
				m, err = NewByteMessage(MessageType(typ), payload)
				if err == nil {
					err = s.c.SendNoWait(ctx, m)
				}
			} else {
				_, _, err = s.c.SendMessage(ctx, MessageType(typ), payload)
			}
			cancel()
			mu.Lock()
			issued = append(issued, c05issued{typ, n, seed, err == nil})
			mu.Unlock()
		}
	}
	for i := 0; i < senders; i++ {
		wg.Add(1)
		go sender(rng.next(), perSender, false)
	}
	wg.Wait()
	<-kaDone
	if shutdown {
		// graceful shutdown racing with late senders: nothing may follow CloseConnection
		for i := 0; i < 3; i++ {
			wg.Add(1)
			go sender(rng.next(), 2, true)
		}
		wg.Add(1)
		go func() {
			defer wg.Done()
			defer func() { recover() }()
			ctx, cancel := context.WithTimeout(context.Background(), 2*time.Second)
			defer cancel()
			err := s.c.Shutdown(ctx)
			mu.Lock()
			issued = append(issued, c05issued{14, 0, 0, err == nil})
			mu.Unlock()
		}()
		wg.Wait()
	} else {
		time.Sleep(30 * time.Millisecond) // let the last acknowledgements out
	}
	raw := s.finish()
	<-respDone
	var sb strings.Builder
	sb.WriteString("check-write x")
	sb.WriteString(vhex(raw))
	sb.WriteString(" ")
	for i, id := range kaIDs {
		if i > 0 {
			sb.WriteString(",")
		}
		sb.WriteString(strconv.FormatUint(uint64(id), 10))
	}
	if len(kaIDs) == 0 {
		sb.WriteString("-")
	}
	sb.WriteString(" -")
	for _, r := range issued {
		m := 0
		if r.must {
			m = 1
		}
		fmt.Fprintf(&sb, " %d:%d:%d:%d", r.typ, r.n, r.seed, m)
	}
	return sb.String()
}

// c05closeMid: the client is closed locally while the payload of a frame is on its way — the peer has taken the header
// and `before` payload bytes, stops reading while Close() is called, then reads on. The connection is healthy
// throughout, so the stream must still be whole frames. Returns the check-write request for the raw bytes.
func c05closeMid(size, seed, before int, tcp bool) string {
	var a, b net.Conn
	if tcp {
		ln, err := net.Listen("tcp", "127.0.0.1:0")
		if err != nil {
			return "listen-failed"
		}
		acc := make(chan net.Conn, 1)
		go func() { c, _ := ln.Accept(); acc <- c }()
		a, err = net.DialTimeout("tcp", ln.Addr().String(), 3*time.Second)
		if err != nil {
			return "dial-failed"
		}
		b = <-acc
		ln.Close()
	} else {
		a, b = net.Pipe()
	}
	c := NewClient(WithLogger(nil), WithVersion(Version1_0_1))
	connErr := make(chan error, 1)
	go func() {
		defer func() {
			if r := recover(); r != nil {
				connErr <- fmt.Errorf("panic: %v", r)
			}
		}()
		connErr <- c.Connect(a)
	}()
	(&vpeer{c: b}).send(vframe{ver: 1, typ: 63, id: 0, payload: renPayload(0)})
	select {
	case <-c.ready:
	case <-time.After(3 * time.Second):
		a.Close()
		b.Close()
		return "timeout-ready"
	}
	payload := genPayload(seed, size)
	sent := make(chan error, 1)
	go func() {
		m, err := NewByteMessage(MessageType(2), payload)
		if err != nil {
			sent <- err
			return
		}
		ctx, cancel := context.WithTimeout(context.Background(), 3*time.Second)
		defer cancel()
		sent <- c.SendNoWait(ctx, m)
	}()
	raw := make([]byte, 10+before)
	b.SetReadDeadline(time.Now().Add(3 * time.Second))
	if _, err := io.ReadFull(b, raw); err != nil {
		a.Close()
		b.Close()
		return "timeout-first-bytes"
	}
	func() {
		defer func() { recover() }()
		c.Close()
	}()
	time.Sleep(5 * time.Millisecond)
	rest := make(chan []byte, 1)
	go func() {
		b.SetReadDeadline(time.Now().Add(5 * time.Second))
		r, _ := io.ReadAll(b)
		rest <- r
	}()
	a.SetReadDeadline(time.Now()) // release the read loop; the write loop finishes what it is writing
	select {
	case <-connErr:
	case <-time.After(3 * time.Second):
	}
	a.Close()
	raw = append(raw, (<-rest)...)
	b.Close()
	must := 0
	select {
	case err := <-sent:
		if err == nil {
			must = 1
		}
	case <-time.After(time.Second):
	}
	return fmt.Sprintf("check-write x%s - - 2:%d:%d:%d", vhex(raw), size, seed, must)
}

// c05writeStall: a client with a write deadline (WithTimeout d) whose peer takes only `k` bytes of a request's frame and
// then stops reading for 1.5 d, while it keeps the read side alive with event notifications; afterwards the peer reads
// whatever else arrives. The write fails on its deadline, so the connection ends — and what the peer has received must
// be a PREFIX of the frame (C05.failed_stream_is_prefix): nothing may be written again, and nothing may follow a
// part-written header. Returns the wr-prefix request for the raw bytes.
func c05writeStall(k, size, seed int, d time.Duration) string {
	a, b := net.Pipe()
	c := NewClient(WithLogger(nil), WithVersion(Version1_0_1), WithTimeout(d))
	connErr := make(chan error, 1)
	go func() {
		defer func() {
			if r := recover(); r != nil {
				connErr <- fmt.Errorf("panic: %v", r)
			}
		}()
		connErr <- c.Connect(a)
	}()
	peer := &vpeer{c: b}
	peer.send(vframe{ver: 1, typ: 63, id: 0, payload: renPayload(0)})
	select {
	case <-c.ready:
	case <-time.After(3 * time.Second):
		a.Close()
		b.Close()
		return "timeout-ready"
	}
	payload := genPayload(seed, size)
	go func() {
		m, err := NewByteMessage(MessageType(2), payload)
		if err != nil {
			return
		}
		ctx, cancel := context.WithTimeout(context.Background(), 3*time.Second)
		defer cancel()
		_ = c.SendNoWait(ctx, m)
	}()
	raw := make([]byte, k)
	b.SetReadDeadline(time.Now().Add(3 * time.Second))
	if _, err := io.ReadFull(b, raw); err != nil {
		a.Close()
		b.Close()
		return "timeout-first-bytes"
	}
	// stall: read nothing, but keep sending notifications so that the client's READ deadline never fires
	stop := time.After(d + d/2)
	var wmu sync.Mutex
stall:
	for i := uint32(1); ; i++ {
		select {
		case <-stop:
			break stall
		case <-time.After(d / 5):
			wmu.Lock()
			b.SetWriteDeadline(time.Now().Add(d / 5))
			b.Write(vframe{ver: 1, typ: 63, id: i, payload: renPayload(0)}.bytes())
			wmu.Unlock()
		}
	}
	rest := make(chan []byte, 1)
	go func() {
		b.SetReadDeadline(time.Now().Add(4 * d))
		r, _ := io.ReadAll(b)
		rest <- r
	}()
	// keep the read side alive a little longer: a client that retried its write gets the chance to complete it
	for i := uint32(100); i < 110; i++ {
		time.Sleep(d / 5)
		wmu.Lock()
		b.SetWriteDeadline(time.Now().Add(d / 5))
		b.Write(vframe{ver: 1, typ: 63, id: i, payload: renPayload(0)}.bytes())
		wmu.Unlock()
	}
	select {
	case <-connErr:
	case <-time.After(2 * time.Second):
	}
	a.Close()
	raw = append(raw, (<-rest)...)
	b.Close()
	return fmt.Sprintf("wr-prefix 1 x%s r2:%d:%d:0", vhex(raw), size, seed)
}

func TestVerifC05(t *testing.T) {
	o := vopen(t)
	defer o.close()
	rng := &vrng{s: vseed() ^ 0xC05}
	only := os.Getenv("VERIF_C05_ONLY")
	limit := int(MaxBufferedPayloadSz)

	seq := func(ver int, items ...string) {
		req := fmt.Sprintf("wr-seq %d %s", ver, strings.Join(items, " "))
		if only != "" && only != req {
			return
		}
		o.line(req, c05seq(ver, items))
	}
	// A. deterministic dequeue orders, compared frame by frame (version, type, id, length, payload hash)
	seq(1, "r2:0:0:1")
	seq(1, "r2:1:9:1", "r3:2:1:0", "a5", "r1:3:2:1", "a0", "a4294967295", "r20:9:3:0", "r40:10:4:1", "r1023:11:5:1")
	seq(1, "a1", "a2", "r2:255:1:1", "r2:256:2:0", "r2:1023:3:1", "r2:4096:4:0", "a2147483648", "r2:65535:5:1", "r2:65536:6:1")
	seq(1, fmt.Sprintf("r2:%d:7:1", limit), "a9", fmt.Sprintf("r3:%d:8:0", limit+1), "r2:0:0:0", "a9")
	seq(1, "r2:3:1:1", "r14:0:0:1")
	seq(1, "r2:3:1:0", "a8", "r14:3:5:1") // CloseConnection with a payload must still be a whole frame
	seq(1, "r2:3:1:1", "r14:0:0:1", "a5", "r3:2:2:0", "a6") // offered after CloseConnection: never taken, nothing more on the wire
	seq(1, "r14:1:200:0")
	seq(1, "r14:64:3:1")
	if vthorough() {
		seq(1, "r2:4194304:7:1", "a9", "r3:4194304:8:0", "a10")
		for i := 0; i < 20; i++ {
			var items []string
			for k := 0; k < 12; k++ {
				if rng.intn(3) == 0 {
					items = append(items, fmt.Sprintf("a%d", uint32(rng.next())))
				} else {
					items = append(items, fmt.Sprintf("r%d:%d:%d:%d", 1+rng.intn(40), rng.intn(3000), rng.intn(256), rng.intn(2)))
				}
			}
			seq(1, items...)
		}
	}

	// A'. local Close() while a payload is in flight on a healthy connection: the frame is still completed
	for i, cm := range []struct {
		size, before int
		tcp          bool
	}{{100 << 10, 1000, false}, {40000, 0, false}, {limit, 70000, false}, {300000, 33000, false}, {4 << 20, 5000, true}, {65537, 65536, false}} {
		tag := fmt.Sprintf("close-mid:%d", i)
		if only != "" && only != tag {
			continue
		}
		o.line(c05closeMid(cm.size, 17+i, cm.before, cm.tcp)+" #"+tag, "accept")
	}

	// A''. a peer that takes a few bytes of a frame and stalls beyond the client's write deadline (read side kept alive)
	for i, ws := range []struct{ k, size int }{{1, 0}, {4, 64}, {7, 1000}, {9, 0}, {10, 3000}, {12, 100}} {
		tag := fmt.Sprintf("write-stall:%d", i)
		if only != "" && only != tag {
			continue
		}
		line := ""
		for attempt := 0; attempt < 3; attempt++ { // "timeout-…": the machine was too slow to set the scene; try again
			line = c05writeStall(ws.k, ws.size, 40+i, 250*time.Millisecond)
			if !strings.HasPrefix(line, "timeout-") {
				break
			}
		}
		o.line(line+" #"+tag, "accept")
	}

	// B. concurrent stress, judged by the Lean monitor on the raw stream
	small := []int{0, 0, 1, 2, 3, 10, 100, 255, 256, 1000, 4096, 65535, 65536}
	big := append(append([]int{}, small...), limit, limit+1)
	type cfg struct {
		senders, per int
		sizes        []int
		tcp, shut    bool
		kas          int
	}
	cfgs := []cfg{
		{1, 12, small, false, false, 6}, {2, 10, small, true, true, 8}, {4, 8, small, false, true, 10},
		{8, 6, small, true, false, 12}, {16, 5, small, false, true, 16}, {16, 5, small, true, true, 16},
		{3, 2, big, true, false, 6}, {2, 3, big, false, true, 6},
	}
	if vthorough() {
		cfgs = append(cfgs, cfg{64, 6, small, true, true, 40}, cfg{64, 4, small, false, false, 40},
			cfg{2, 1, []int{4 << 20}, true, false, 4}, cfg{2, 1, []int{4 << 20}, false, true, 4}, cfg{32, 8, small, true, true, 30})
	}
	for i, c := range cfgs {
		tag := fmt.Sprintf("stress:%d", i)
		if only != "" && only != tag {
			continue
		}
		req := c05stress(rng, c.senders, c.per, c.sizes, c.tcp, c.shut, c.kas)
		// the case line carries the configuration in a trailing comment-free way: the key is the index
		o.line(req, "accept")
		_ = tag
	}
}
