//go:build verif

package llrp

import (
	"os"
	"path/filepath"
	"strings"
	"testing"
)

// TestVerifC02: the bytes the real encoders produce vs the declarative layout over the pinned table,
// plus the recorded real-reader messages of testdata/ as golden decode / re-encode cases.
func TestVerifC02(t *testing.T) {
	o := vopen(t)
	defer o.close()
	s := loadSchema(t)
	rng := &vrng{s: vseed() ^ 0xC02}
	per := 30
	if vthorough() {
		per = 250
	}
	var stable stableChk
	type bigCase struct {
		c *sContainer
		v *gval
	}
	var bigs []bigCase
	for _, n := range []int{3900, 5200} {
		if n > 3900 && !vthorough() {
			break
		}
		c, v := s.bigReport(rng, n)
		bigs = append(bigs, bigCase{c, v})
	}
	for _, bc := range bigs {
		p := s.newGo(bc.c)
		s.toGo(bc.c, bc.v, p.Elem())
		b, res := vmarshal(p)
		obs := res
		if res == "ok" {
			obs = "ok x" + vhex(b)
			stable.note(o, b)
		}
		o.line("layout "+bc.c.Name+" "+bc.v.String(), obs)
		if res == "ok" {
			p2 := s.newGo(bc.c)
			r := vunmarshal(p2, b)
			if r == "ok" {
				r = "ok " + s.fromGo(bc.c, p2.Elem()).String()
			}
			o.line("dec-layout "+bc.c.Name+" "+bc.v.String(), r)
		}
	}
	for _, v := range s.topOfRange(rng) {
		c := s.params["Custom"]
		p := s.newGo(c)
		s.toGo(c, v, p.Elem())
		b, res := vmarshal(p)
		obs := res
		if res == "ok" {
			obs = "ok x" + vhex(b)
		}
		o.line("layout "+c.Name+" "+v.String(), obs)
	}
	for _, c := range s.all {
		for i := 0; i < per; i++ {
			g := &vgen{s: s, r: rng, big: vthorough() && i%4 == 0, budget: 60}
			v := g.value(c, 0)
			p := s.newGo(c)
			s.toGo(c, v, p.Elem())
			b, res := vmarshal(p)
			if res == "ok" {
				stable.note(o, b)
			}
			obs := res
			if res == "ok" {
				obs = "ok x" + vhex(b)
			}
			o.line("layout "+c.Name+" "+v.String(), obs)
			// conversely: decoding the conformant encoding yields the value it denotes
			if res == "ok" {
				p2 := s.newGo(c)
				r := vunmarshal(p2, b)
				if r == "ok" {
					r = "ok " + s.fromGo(c, p2.Elem()).String()
				}
				o.line("dec-layout "+c.Name+" "+v.String(), r)
			}
		}
	}
	// recordings from real readers
	files, _ := filepath.Glob("testdata/*.bytes")
	more, _ := filepath.Glob("testdata/roAccessReports/*.bytes")
	files = append(files, more...)
	for _, f := range files {
		name := filepath.Base(f)
		name = name[:strings.Index(name, "-")]
		c := s.msgs[name]
		if c == nil {
			t.Fatalf("no message type for recording %s", f)
		}
		b, err := os.ReadFile(f)
		if err != nil {
			t.Fatal(err)
		}
		p := s.newGo(c)
		r := vunmarshal(p, b)
		if r == "ok" {
			v := s.fromGo(c, p.Elem())
			o.line("dec "+c.Name+" x"+vhex(b), "ok "+v.String())
			// what the recording denotes lays out to the recorded bytes again (readers emit sub-parameters in table order)
			b2, _ := vmarshal(p)
			o.line("layout "+c.Name+" "+v.String(), "ok x"+vhex(b2))
			o.line("same x"+vhex(b)+" x"+vhex(b2), "yes")
		} else {
			o.line("dec "+c.Name+" x"+vhex(b), r)
		}
	}
}
