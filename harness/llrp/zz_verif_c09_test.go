//go:build verif

package llrp

// C09 — close, shutdown, failure and cancellation never leave a caller stuck.
// Deterministic fault scripts (`lts …`, see zz_verif_lts_test.go) compared with the oracle's run of the LTS, and the
// outcome of every ended session judged again by the Lean monitor `check-c09`.
//
// A session script = prologue (no negotiation / 1.0.1 reader / 1.1 reader) + body (3 requests with replies, a
// keep-alive, a report). At every position of it, with 0..4 extra callers blocked in the phase that position allows
// (waiting for ready, awaiting a reply, queued behind a parked write loop), one of the faults is injected:
//   vanish      the peer closes at the frame boundary
//   cut-in      the peer sends the first k bytes of its next frame and vanishes (header / payload offsets)
//   cut-out     the peer reads only j bytes of the client's next frame and vanishes
//   close       Client.Close (twice), a late send, then the connection ends
//   shutdown    Client.Shutdown (reply ok / error status / cancelled), a late send, …
//   cancel      the blocked callers' contexts end; replies arriving later for them are discarded; the session goes on
// Two further families need a peer that pauses inside a frame / stops reading:
//   cancel-mid  the peer sends a reply's header and part of its payload (the read loop has looked the caller up and is
//   close-mid   reading the payload), the awaiting caller is cancelled / the client is closed, the peer sends the rest;
//               afterwards another request/reply exchange, a keep-alive and Connect's return must still work
//   crossing    1..3 KeepAlives cross the CloseConnection on the wire: the peer has stopped reading, so the write loop
//               is blocked writing CloseConnection (or the request before it) while the read loop queues the acks; when
//               the peer resumes, nothing may follow the CloseConnection frame (acks queued earlier precede it)

import (
	"fmt"
	"os"
	"strings"
	"testing"
)

// the design-phase defect and its neighbours: the connection ends during negotiation, client without timeout
var c09Fixed = []string{
	"new:1 start pf:63:0:1:0 w:1 pc rc",
	"new:1 call:1:2:1001 z start pf:63:0:1:0 w:1 pc rc r:1",
	"new:1 start pf:63:0:1:0 w:1 call:1:2:1001 z pcut:4:100:0:110 rc r:1",
	"new:1 start pf:63:0:1:0 w:1 ps:56:0:18 w:2 pc rc",
	"new:1 start pf:63:0:1:0 w:1 close rc",
	// Close before Connect; second close; Close with nothing else
	"new:0 close close start pf:63:0:1:0 pc rc",
	"new:0 start pf:63:0:1:0 close close close pc rc",
	// EOF after CloseConnectionResponse is the orderly end
	"new:0 start pf:63:0:1:0 shutdown:1 w:1 ps:4:@1:0 r:1 pc rc",
	"new:0 start pf:63:0:1:0 shutdown:1 w:1 ps:4:@1:0 pc r:1 rc",
	// a CloseConnection answered by an ERROR_MESSAGE — whatever status it carries, also Success — is a refused shutdown: the
	// caller gets an error and the client is not closed by it (the connection goes on until the peer ends it)
	"new:0 start pf:63:0:1:0 shutdown:1 w:1 ps:100:@1:0 r:1 pc rc",
	"new:0 start pf:63:0:1:0 shutdown:1 w:1 ps:100:@1:101 r:1 pc rc",
	// more keep-alives than the acknowledgement queue holds while the write loop is parked behind CloseConnection: the
	// surplus is dropped, the read loop goes on to the CloseConnectionResponse
	"new:0 start pf:63:0:1:0 shutdown:1 w:1 ps:62:101:0 ps:62:102:0 ps:62:103:0 ps:62:104:0 ps:62:105:0 ps:62:106:0 ps:62:107:0 ps:62:108:0 ps:4:@1:0 r:1 pc rc",
	"new:1 start pf:63:0:1:0 w:1 ps:56:0:18 w:2 ps:57:1:0 shutdown:1 w:3 ps:62:101:0 ps:62:102:0 ps:62:103:0 ps:62:104:0 ps:62:105:0 ps:62:106:0 ps:62:107:0 ps:4:@3:0 r:1 pc rc",
	// a Shutdown that gave up before its CloseConnection reached the write loop (nothing was written) leaves no trace: an
	// unrequested CloseConnectionResponse followed by the end of the stream is a failed connection, not an orderly end
	"new:0 shutdown:1 z cancel:1 r:1 start pf:63:0:1:0 z ps:4:77:0 pc rc",
	"new:0 start z shutdown:1 z cancel:1 r:1 pf:63:0:1:0 z ps:4:77:0 pc rc",
	"new:1 shutdown:1 z cancel:1 r:1 start pf:63:0:1:0 w:1 ps:56:0:18 w:2 ps:57:1:0 z ps:4:77:0 pc rc",
	"new:1 start pf:63:0:1:0 w:1 shutdown:1 z cancel:1 r:1 ps:56:0:18 w:2 ps:57:1:0 z ps:4:77:0 pc rc",
}

type c09seg struct {
	ops []string
	// bookkeeping after the segment
	issue   int    // caller issued by this segment (0 = none) — outstanding until its reply segment
	reply   int    // caller answered by this segment
	writes  int    // frames the client writes in this segment
	ready   bool   // the gate is open after this segment
	inbound string // the inbound frame of this segment as "typ:id:pay" (for cut-in), "" if none / first frame
}

func c09Session(flavour int) []c09seg {
	var segs []c09seg
	switch flavour {
	case 0:
		segs = append(segs, c09seg{ops: []string{"new:0", "start"}}, c09seg{ops: []string{"pf:63:0:1:0"}, ready: true})
	case 1:
		segs = append(segs, c09seg{ops: []string{"new:1", "start"}}, c09seg{ops: []string{"pf:63:0:1:0", "w:1"}, writes: 1},
			c09seg{ops: []string{"ps:100:0:110"}, ready: true, inbound: "100:0:110"})
	default:
		segs = append(segs, c09seg{ops: []string{"new:1", "start"}}, c09seg{ops: []string{"pf:63:0:1:0", "w:1"}, writes: 1},
			c09seg{ops: []string{"ps:56:0:18", "w:2"}, writes: 1, inbound: "56:0:18"},
			c09seg{ops: []string{"ps:57:1:0"}, ready: true, inbound: "57:1:0"})
	}
	body := []c09seg{
		{ops: []string{"call:1:2:1001", "w:+"}, issue: 1, writes: 1},
		{ops: []string{"ps:12:@1:1", "r:1"}, reply: 1, inbound: "12:@1:1"},
		{ops: []string{"ps:62:50:2", "w:+"}, writes: 1, inbound: "62:50:2"},
		{ops: []string{"call:2:3:1002", "w:+"}, issue: 2, writes: 1},
		{ops: []string{"ps:13:@2:3", "r:2"}, reply: 2, inbound: "13:@2:3"},
		{ops: []string{"ps:61:51:4"}, inbound: "61:51:4"},
		{ops: []string{"call:3:1:1003", "w:+"}, issue: 3, writes: 1},
		{ops: []string{"ps:11:@3:5", "r:3"}, reply: 3, inbound: "11:@3:5"},
	}
	for i := range body {
		body[i].ready = true
	}
	return append(segs, body...)
}

type c09state struct {
	ops         []string
	written     int
	ready       bool
	outstanding []int // callers whose request is on the wire, unanswered
	waiting     []int // callers blocked before ready
}

func (st *c09state) add(seg c09seg) {
	for _, op := range seg.ops {
		if op == "w:+" {
			st.written += seg.writes
			st.ops = append(st.ops, fmt.Sprintf("w:%d", st.written))
		} else {
			st.ops = append(st.ops, op)
		}
	}
	for _, op := range seg.ops {
		if strings.HasPrefix(op, "w:") && op != "w:+" {
			st.written += seg.writes
		}
	}
	if seg.issue != 0 {
		st.outstanding = append(st.outstanding, seg.issue)
	}
	if seg.reply != 0 {
		st.outstanding = c09remove(st.outstanding, seg.reply)
	}
	if seg.ready {
		st.ready = true
	}
}

func c09remove(l []int, c int) []int {
	out := []int{}
	for _, x := range l {
		if x != c {
			out = append(out, x)
		}
	}
	return out
}

// block adds k extra callers blocked in the phase the position allows.
func (st *c09state) block(k int) {
	for i := 0; i < k; i++ {
		c := 10 + i
		st.ops = append(st.ops, fmt.Sprintf("call:%d:2:%d", c, 1000+c))
		if st.ready {
			st.written++
			st.ops = append(st.ops, fmt.Sprintf("w:%d", st.written))
			st.outstanding = append(st.outstanding, c)
		} else {
			st.ops = append(st.ops, "z")
			st.waiting = append(st.waiting, c)
		}
	}
}

func (st *c09state) returns() []string {
	var ops []string
	for _, c := range append(append([]int{}, st.waiting...), st.outstanding...) {
		ops = append(ops, fmt.Sprintf("r:%d", c))
	}
	return ops
}

func c09Scripts(thorough bool) (out []string, tags []string) {
	emit := func(tag string, ops []string) {
		out = append(out, strings.Join(ops, " "))
		tags = append(tags, tag)
	}
	ks := []int{0, 2}
	if thorough {
		ks = []int{0, 1, 2, 3, 4}
	}
	for flavour := 0; flavour < 3; flavour++ {
		segs := c09Session(flavour)
		for p := 1; p <= len(segs); p++ {
			for _, k := range ks {
				base := func() *c09state {
					st := &c09state{}
					for _, sg := range segs[:p] {
						st.add(sg)
					}
					st.block(k)
					return st
				}
				// vanish at the frame boundary
				st := base()
				emit("vanish", append(append(st.ops, "pc", "rc"), st.returns()...))
				// cut inside the next inbound frame
				if p < len(segs) && segs[p].inbound != "" || p == 1 {
					frame := "63:0:0"
					length := 10 + 22
					if p > 1 {
						frame = segs[p].inbound
						length = 10 + len(ltsPayload(atoiS(strings.Split(frame, ":")[0]), uint64(atoiS(strings.Split(frame, ":")[2]))))
					}
					offs := []int{1, 9, 10, length - 1}
					if thorough {
						offs = nil
						for o := 1; o < length; o++ {
							offs = append(offs, o)
						}
					}
					seen := map[int]bool{}
					for _, o := range offs {
						if o <= 0 || o >= length || seen[o] {
							continue
						}
						if strings.HasPrefix(frame, "62:") && o >= 10 {
							// a KeepAlive cut inside its (unusual) payload: the ack is queued before the read fails and
							// races with the peer's disappearance; the header offsets cover the frame
							continue
						}
						seen[o] = true
						st := base()
						emit("cut-in", append(append(st.ops, fmt.Sprintf("pcut:%d:%s", o, frame), "rc"), st.returns()...))
					}
				}
				// cut inside the client's next outbound frame (a new request; only once the gate is open)
				st = base()
				if st.ready {
					offs := []int{0, 4, 10, 17}
					if thorough {
						offs = nil
						for o := 0; o < 18; o++ {
							offs = append(offs, o)
						}
					}
					for _, o := range offs {
						st := base()
						ops := append(st.ops, fmt.Sprintf("pcutout:%d", o), "call:20:2:1020", "rc", "r:20")
						emit("cut-out", append(ops, st.returns()...))
					}
				}
				// Close (twice), then a late send, then the connection ends
				st = base()
				ops := append(st.ops, "close")
				ops = append(ops, st.returns()...)
				ops = append(ops, "close", "call:90:2:1090", "r:90", "nw:91:2:1091", "r:91", "pc", "rc")
				emit("close", ops)
				// Shutdown: needs the gate (before it, Shutdown is just another early caller: covered by C08)
				st = base()
				if st.ready {
					for _, variant := range []string{"ok", "status", "cancel", "error-message", "vanish", "cut-response"} {
						st := base()
						ops := append(st.ops, "shutdown:9", fmt.Sprintf("w:%d", st.written+1), "call:92:2:1092", "z", fmt.Sprintf("n:%d", st.written+1))
						switch variant {
						case "ok":
							ops = append(ops, "ps:4:@9:0", "r:9")
						case "error-message":
							ops = append(ops, "ps:100:@9:100", "r:9", "close")
						case "status":
							ops = append(ops, "ps:4:@9:100", "r:9", "close")
						case "cancel":
							ops = append(ops, "cancel:9", "r:9", "ps:4:@9:0", "close")
						case "vanish":
							// the peer disappears at the frame boundary right after the client's CloseConnection: no response was received,
							// so this is a failure of the connection, not its graceful end
							ops = append(ops, "pc", "r:9")
						case "cut-response":
							ops = append(ops, "pcut:4:4:@9:0", "r:9")
						}
						ops = append(ops, st.returns()...)
						if variant == "vanish" || variant == "cut-response" {
							ops = append(ops, "r:92", "rc")
						} else {
							ops = append(ops, "r:92", "pc", "rc")
						}
						emit("shutdown-"+variant, ops)
					}
				}
				// cancel the blocked callers; late replies are discarded; the session goes on and ends with Close
				if k > 0 {
					st := base()
					if !st.ready && k > 1 {
						continue // several callers released together at ready are picked in a free order
					}
					ops := st.ops
					extra := append(append([]int{}, st.waiting...), st.outstanding...)
					var cancelled []int
					for _, c := range extra {
						if c >= 10 {
							ops = append(ops, fmt.Sprintf("cancel:%d", c), fmt.Sprintf("r:%d", c))
							cancelled = append(cancelled, c)
						}
					}
					if st.ready {
						for _, c := range cancelled {
							ops = append(ops, fmt.Sprintf("ps:12:@%d:%d", c, 900+c))
						}
					}
					st2 := &c09state{ops: ops, written: st.written, ready: st.ready}
					for _, c := range st.outstanding {
						if c < 10 {
							st2.outstanding = append(st2.outstanding, c)
						}
					}
					for _, sg := range segs[p:] {
						st2.add(sg)
					}
					ops = append(st2.ops, "close")
					ops = append(ops, st2.returns()...)
					emit("cancel", append(ops, "pc", "rc"))
				}
			}
		}
	}
	// --- cancel-mid / close-mid / crossing
	for flavour := 0; flavour < 3; flavour++ {
		segs := c09Session(flavour)
		pro := func() *c09state {
			st := &c09state{}
			for _, sg := range segs {
				if len(sg.ops) > 0 && strings.HasPrefix(sg.ops[0], "call:1:") {
					break
				}
				st.add(sg)
			}
			return st
		}
		offs := []int{10, 11, 14, 17}
		if thorough {
			offs = []int{10, 11, 12, 13, 14, 15, 16, 17}
		}
		for _, k := range offs {
			for _, others := range []int{0, 1} {
				st := pro()
				ops := append(st.ops, "call:1:2:1001", fmt.Sprintf("w:%d", st.written+1))
				w := st.written + 1
				if others == 1 {
					w++
					ops = append(ops, "call:2:3:1002", fmt.Sprintf("w:%d", w))
				}
				mid := append(append([]string{}, ops...), fmt.Sprintf("pspart:%d:12:@1:7", k), "cancel:1", "r:1", "psrest",
					"call:3:1:1003", fmt.Sprintf("w:%d", w+1), "ps:11:@3:8", "r:3")
				if others == 1 {
					mid = append(mid, "ps:13:@2:9", "r:2")
				}
				mid = append(mid, "ps:62:60:0", fmt.Sprintf("w:%d", w+2), "close", "pc", "rc")
				emit("cancel-mid", mid)
				cm := append(append([]string{}, ops...), fmt.Sprintf("pspart:%d:12:@1:7", k), "close", "r:1")
				if others == 1 {
					cm = append(cm, "r:2")
				}
				emit("close-mid", append(cm, "psrest", "pc", "rc"))
			}
		}
		for n := 1; n <= 3; n++ {
			for _, order := range []string{"after", "before"} {
				for _, others := range []int{0, 1} {
					st := pro()
					ops := st.ops
					w := st.written
					if others == 1 {
						w++
						ops = append(ops, "call:1:2:1001", fmt.Sprintf("w:%d", w))
					}
					ops = append(ops, "pstall")
					if order == "after" {
						// the write loop is blocked writing CloseConnection while the KeepAlives are handled
						ops = append(ops, "shutdown:9", "ws:14")
					} else {
						// … blocked writing the request before it; Shutdown waits on sendQueue; the acks go first
						ops = append(ops, "call:5:3:1005", "ws:3", "shutdown:9", "z")
					}
					for i := 0; i < n; i++ {
						ops = append(ops, fmt.Sprintf("ps:62:%d:0", 70+i))
					}
					ops = append(ops, fmt.Sprintf("kh:%d", n), "presume")
					total := w + 1
					if order == "before" {
						total = w + 1 + n + 1
					}
					ops = append(ops, fmt.Sprintf("w:%d", total), fmt.Sprintf("n:%d", total), "ps:4:@9:0", "r:9")
					if order == "before" {
						ops = append(ops, "r:5")
					}
					if others == 1 {
						ops = append(ops, "r:1")
					}
					emit("crossing-"+order, append(ops, "pc", "rc"))
				}
			}
		}
	}
	return
}

func atoiS(s string) int {
	n := 0
	fmt.Sscanf(s, "%d", &n)
	return n
}

// c09Monitor turns the observation of an ended session into the request of the Lean monitor.
func c09Monitor(script, obs string) (string, string) {
	if !strings.HasPrefix(obs, "wr=[") {
		return "", ""
	}
	get := func(key string) string {
		i := strings.Index(obs, key+"=[")
		if i < 0 {
			return ""
		}
		rest := obs[i+len(key)+2:]
		return rest[:strings.Index(rest, "]")]
	}
	conn := obs[strings.Index(obs, "conn=")+5:]
	conn = conn[:strings.Index(conn, " ")]
	if conn == "run" {
		conn = "none"
	}
	local, failed := 0, 0
	cancelled := map[string]bool{}
	for _, op := range strings.Fields(script) {
		switch {
		case op == "close":
			local = 1
		case op == "pc" || strings.HasPrefix(op, "pcut"):
			failed = 1
		case strings.HasPrefix(op, "cancel:"):
			cancelled[op[7:]] = true
		}
	}
	toks := []string{}
	for _, r := range strings.Fields(get("res")) {
		kv := strings.SplitN(r, "=", 2)
		cls := kv[1]
		if strings.HasPrefix(cls, "reply:") {
			cls = "reply"
		}
		if strings.HasPrefix(script, "") && strings.Contains(script, "shutdown:"+kv[0]+" ") && cls == "nil" {
			local = 1
		}
		switch cls {
		case "reply", "nil", "closed", "ctx", "panic":
		case "run":
			cls = "timeout"
		default:
			cls = "other"
		}
		c := 0
		if cancelled[kv[0]] {
			c = 1
		}
		toks = append(toks, fmt.Sprintf("c:%d:%s", c, cls))
	}
	wire := []string{}
	for _, w := range strings.Fields(get("wr")) {
		wire = append(wire, strings.Split(w, ":")[0])
	}
	ws := "-"
	if len(wire) > 0 {
		ws = strings.Join(wire, ",")
	}
	return fmt.Sprintf("check-c09 local=%d failed=%d conn=%s wire=%s %s", local, failed, conn, ws, strings.Join(toks, " ")), "accept"
}

func TestVerifC09(t *testing.T) {
	o := vopen(t)
	defer o.close()
	if only := os.Getenv("VERIF_C09_ONLY"); only != "" {
		o.line("lts "+only, ltsPlay(only))
		return
	}
	for _, s := range c09Fixed {
		o.line("lts "+s+" #fixed", ltsPlay(s))
	}
	// closing from several goroutines at the same instant: one closes, the others are told "already closed", none panics
	races := 60
	if vthorough() {
		races = 600
	}
	for i := 0; i < races; i++ {
		for _, s := range []string{"new:0 cclose:4", "new:0 start pf:63:0:1:0 cclose:4 pc rc", "new:0 start pf:63:0:1:0 call:1:2:1001 w:1 cclose:3 r:1 pc rc"} {
			o.line("lts "+s+" #close-race", ltsPlay(s))
		}
	}
	scripts, tags := c09Scripts(vthorough())
	for i, s := range scripts {
		if ltsAbort() {
			break
		}
		obs := ltsPlay(s)
		o.line("lts "+s+" #"+tags[i], obs)
		// sessions with an established connection that were ended: judged by the monitor as well.
		// (a Shutdown that returns an error is an expected "other" result; such sessions are left to the script comparison)
		if strings.Contains(s, "shutdown") && !strings.HasPrefix(tags[i], "shutdown-ok") {
			continue
		}
		if req, want := c09Monitor(s, obs); req != "" && c09Established(s) {
			o.line(req+" #"+tags[i], want)
		}
	}
}

// c09Established: the fault was injected after the gate had opened (the monitor's soundness theorem is about
// established sessions; failed setups are C08's subject)
func c09Established(script string) bool {
	return strings.Contains(script, "call:1:2:1001 w:")
}
