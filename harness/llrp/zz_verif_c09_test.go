//go:build verif

package llrp

// C09 — close, shutdown, failure and cancellation never leave a caller stuck.
// Deterministic fault scripts (`lts …`, see zz_verif_lts_test.go) compared with the oracle's run of the LTS.

import (
	"os"
	"testing"
)

// the design-phase defect and its neighbours: the connection ends during negotiation, client without timeout
var c09Fixed = []string{
	"new:1 start pf:63:0:1:0 w:1 pc rc",
	"new:1 call:1:2:1001 z start pf:63:0:1:0 w:1 pc rc r:1",
	"new:1 start pf:63:0:1:0 w:1 call:1:2:1001 z pcut:4:100:0:110 rc r:1",
	"new:1 start pf:63:0:1:0 w:1 ps:56:0:18 w:2 pc rc",
	"new:1 start pf:63:0:1:0 w:1 close rc",
}

func TestVerifC09(t *testing.T) {
	o := vopen(t)
	defer o.close()
	if only := os.Getenv("VERIF_C09_ONLY"); only != "" {
		o.line("lts "+only, ltsPlay(only))
		return
	}
	for _, s := range c09Fixed {
		o.line("lts "+s, ltsPlay(s))
	}
}
