//go:build verif

package llrp

// A scripted LLRP peer that shares no code with the library: headers are built and parsed by hand.

import (
	"context"
	"encoding/binary"
	"errors"
	"fmt"
	"io"
	"net"
	"time"
)

type vframe struct {
	ver, typ int
	id       uint32
	payload  []byte
	// declared length to put in the header when it should differ from the real one (0 = real)
	lieLen uint32
}

type vpeer struct {
	c net.Conn
}

func (f vframe) bytes() []byte {
	n := uint32(10 + len(f.payload))
	if f.lieLen != 0 {
		n = f.lieLen
	}
	b := make([]byte, 10, 10+len(f.payload))
	b[0] = byte(f.ver<<2) | byte(f.typ>>8&3)
	b[1] = byte(f.typ)
	binary.BigEndian.PutUint32(b[2:6], n)
	binary.BigEndian.PutUint32(b[6:10], f.id)
	return append(b, f.payload...)
}

func (p *vpeer) send(f vframe) error {
	p.c.SetWriteDeadline(time.Now().Add(3 * time.Second))
	_, err := p.c.Write(f.bytes())
	return err
}

func (p *vpeer) sendRaw(b []byte) error {
	p.c.SetWriteDeadline(time.Now().Add(3 * time.Second))
	_, err := p.c.Write(b)
	return err
}

// recv reads one frame written by the client (header parsed by hand).
func (p *vpeer) recv(timeout time.Duration) (vframe, error) {
	p.c.SetReadDeadline(time.Now().Add(timeout))
	h := make([]byte, 10)
	if _, err := io.ReadFull(p.c, h); err != nil {
		return vframe{}, err
	}
	f := vframe{ver: int(h[0]>>2) & 7, typ: int(h[0]&3)<<8 | int(h[1]), id: binary.BigEndian.Uint32(h[6:10])}
	n := binary.BigEndian.Uint32(h[2:6])
	if n < 10 {
		return f, fmt.Errorf("client wrote a header with length %d", n)
	}
	f.payload = make([]byte, n-10)
	if _, err := io.ReadFull(p.c, f.payload); err != nil {
		return f, err
	}
	return f, nil
}

// renPayload is a ReaderEventNotification payload carrying a ConnectionAttemptEvent with the given status
// (TLV 246 { TLV 128 UTCTimestamp; TLV 256 ConnectionAttemptEvent }), laid out by hand.
func renPayload(status uint16) []byte {
	b := []byte{0x00, 0xf6, 0x00, 0x16, 0x00, 0x80, 0x00, 0x0c, 0, 5, 0xab, 0xcd, 0xef, 1, 2, 3, 0x01, 0x00, 0x00, 0x06, 0, 0}
	binary.BigEndian.PutUint16(b[20:], status)
	return b
}

type vsession struct {
	c       *Client
	p       *vpeer
	connErr chan error
	cliConn net.Conn
}

// vstart creates a client over net.Pipe, starts Connect and plays the reader's greeting.
func vstart(greet bool, opts ...ClientOpt) *vsession {
	a, b := net.Pipe()
	opts = append([]ClientOpt{WithLogger(nil)}, opts...)
	s := &vsession{c: NewClient(opts...), p: &vpeer{c: b}, connErr: make(chan error, 1), cliConn: a}
	go func() { s.connErr <- s.c.Connect(a) }()
	if greet {
		s.p.send(vframe{ver: 1, typ: 63, id: 0, payload: renPayload(0)})
	}
	return s
}

func (s *vsession) stop() {
	s.c.Close()
	s.p.c.Close()
	s.cliConn.Close()
	select {
	case <-s.connErr:
	case <-time.After(2 * time.Second):
	}
}

// errClass canonicalises an error: nil | closed | ctx | deadline | status | err
func errClass(err error) string {
	var se *StatusError
	switch {
	case err == nil:
		return "nil"
	case errors.Is(err, ErrClientClosed):
		return "closed"
	case errors.Is(err, context.Canceled):
		return "ctx"
	case errors.Is(err, context.DeadlineExceeded):
		return "deadline"
	case errors.As(err, &se):
		return "status"
	}
	return "err"
}
