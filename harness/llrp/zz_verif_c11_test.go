//go:build verif

package llrp

import (
	"bytes"
	"fmt"
	"runtime"
	"testing"
	"time"
)

// decodeObs runs the real decoder of c on data under a watchdog and canonicalises the outcome.
func (s *vschema) decodeObs(c *sContainer, data []byte) string {
	in := make([]byte, len(data))
	copy(in, data)
	p := s.newGo(c)
	done := make(chan string, 1)
	go func() { done <- vunmarshal(p, in) }()
	var r string
	select {
	case r = <-done:
	case <-time.After(5 * time.Second):
		return "timeout"
	}
	if !bytes.Equal(in, data) {
		return "modified-input"
	}
	if r == "ok" {
		return "ok " + s.fromGo(c, p.Elem()).String()
	}
	return r
}

func TestVerifC11(t *testing.T) {
	o := vopen(t)
	defer o.close()
	s := loadSchema(t)
	rng := &vrng{s: vseed() ^ 0xC11}
	per := 6
	if vthorough() {
		per = 40
	}
	hung := 0
	emit := func(c *sContainer, d []byte) {
		obs := s.decodeObs(c, d)
		o.line("dec "+c.Name+" x"+vhex(d), obs)
		if obs == "timeout" {
			// a decoder that does not return keeps a core busy for good: a dozen of them are finding enough, and more
			// would only starve the rest of the run
			if hung++; hung >= 12 {
				t.SkipNow()
			}
		}
	}
	for _, c := range s.all {
		emit(c, nil)
		for i := 0; i < per; i++ {
			g := &vgen{s: s, r: rng, budget: 25}
			v := g.value(c, 0)
			p := s.newGo(c)
			s.toGo(c, v, p.Elem())
			b, res := vmarshal(p)
			if res != "ok" {
				continue
			}
			emit(c, b)
			// truncation at every point (sampled when long)
			step := 1
			if len(b) > 80 && !vthorough() {
				step = len(b)/40 + 1
			}
			for n := 0; n < len(b); n += step {
				emit(c, b[:n])
			}
			// lying TLV lengths and type codes
			offs := tlvOffsets(b)
			if len(offs) > 12 {
				offs = offs[:12]
			}
			for _, off := range offs {
				l := int(b[off+2])<<8 | int(b[off+3])
				for _, nl := range []int{0, 1, 2, 3, 4, l - 1, l + 1, l + 4, 0xffff} {
					if nl < 0 {
						continue
					}
					m := append([]byte{}, b...)
					putU16(m, off+2, nl)
					emit(c, m)
				}
				m := append([]byte{}, b...)
				m[off+1] ^= 1 // neighbouring type code
				emit(c, m)
				m = append([]byte{}, b...)
				m[off] = 0x8d // TV EPC96 where a TLV stood
				emit(c, m)
				m = append([]byte{}, b...)
				m[off] |= 0x04 // reserved bit set in a TLV type
				emit(c, m)
			}
			// 16-bit fields (counts, lengths) forced to extremes at random offsets
			for k := 0; k < 6 && len(b) >= 2; k++ {
				off := rng.intn(len(b) - 1)
				for _, nv := range []int{0, 1, 0xffff, len(b), len(b) + 1} {
					m := append([]byte{}, b...)
					putU16(m, off, nv)
					emit(c, m)
				}
			}
			// single byte corruption, trailing junk
			for k := 0; k < 4 && len(b) > 0; k++ {
				m := append([]byte{}, b...)
				m[rng.intn(len(m))] = byte(rng.next())
				emit(c, m)
			}
			for _, extra := range []int{1, 2, 3, 4, 5} {
				m := append(append([]byte{}, b...), g.randBytes(extra)...)
				emit(c, m)
			}
		}
		// short TV / TLV shaped inputs and random strings
		for _, d := range [][]byte{{0x8d}, {0x8d, 1, 2, 3, 4, 5}, {0x89}, {0x81, 0}, {0, 0xf0, 0, 0}, {0, 0xf0, 0, 3}, {0, 0xf1, 0, 4}, {0, 0x80, 0, 0xc},
			{3, 0xff, 0, 4}, {0xff}, {0, 0}, {0, 0, 0}, {0x80}} {
			emit(c, d)
		}
		for k := 0; k < 12; k++ {
			emit(c, (&vgen{r: rng}).randBytes(rng.intn(28)))
		}
	}
	// deep self-nesting (ParameterError inside ParameterError …): time must stay proportional to the input also on the
	// failure path — a decoder that re-decodes a child on error takes 2^depth steps (watchdog: timeout)
	if pe := s.params["ParameterError"]; pe != nil {
		chain := func(depth int, innermost []byte) []byte {
			b := innermost
			for i := 0; i < depth; i++ {
				body := append([]byte{0x01, 0x21, 0x00, 0x65}, b...) // ParameterType 289, ErrorCode 101, then the nested parameter
				l := 4 + len(body)
				b = append([]byte{0x01, 0x21, byte(l >> 8), byte(l)}, body...)
			}
			return b[4:] // the body of the outermost ParameterError
		}
		for _, depth := range []int{1, 2, 8, 24, 48, 64, 200} {
			emit(pe, chain(depth, nil))                                                    // well-formed chain
			emit(pe, chain(depth, []byte{0x01, 0x21, 0x00, 0x07, 0xaa, 0xbb, 0xcc}))       // innermost body one byte short
			emit(pe, chain(depth, []byte{0x01, 0x20, 0x00, 0x08, 0x00, 0x01, 0x00, 0x65})) // a FieldError where only a ParameterError or FieldError may follow
			emit(pe, chain(depth, []byte{0x01, 0x21, 0x00, 0x03}))                         // innermost declares less than its header
		}
		// the same chains inside an LLRPStatus inside a response message
		if st := s.msgs["ErrorMessage"]; st != nil {
			for _, depth := range []int{8, 64} {
				inner := chain(depth, []byte{0x01, 0x21, 0x00, 0x07, 0xaa, 0xbb, 0xcc})
				peTLV := append([]byte{0x01, 0x21, byte((4 + len(inner)) >> 8), byte(4 + len(inner))}, inner...)
				body := append([]byte{0x00, 0x65, 0x00, 0x00}, peTLV...)
				l := 4 + len(body)
				emit(st, append([]byte{0x01, 0x1f, byte(l >> 8), byte(l)}, body...))
			}
		}
	}
	// allocation and time stay proportional to the input: a large valid report and large garbage
	// lying counts: a valid encoding of every type in which one 16-bit position at a time claims 0xFFFF, cut shortly
	// after — and short all-0xFF inputs. What the decoder allocates for such an input must stay a small multiple of
	// the INPUT (the claimed count buys nothing): measured around the UnmarshalBinary call alone.
	{
		var m0, m1 runtime.MemStats
		worst := map[string]uint64{}
		measure := func(c *sContainer, in []byte) {
			p := s.newGo(c)
			data := append([]byte(nil), in...)
			runtime.ReadMemStats(&m0)
			_ = vunmarshal(p, data)
			runtime.ReadMemStats(&m1)
			a := m1.TotalAlloc - m0.TotalAlloc
			if a > 48*uint64(len(in))+16<<10 && a > worst[c.key()] {
				worst[c.key()] = a
				o.line(fmt.Sprintf("resource-bound %s %d", c.key(), len(in)), fmt.Sprintf("balloon: %d bytes allocated for the %d-byte input x%s", a, len(in), vhex(in)))
			}
		}
		for _, c := range s.all {
			g := &vgen{s: s, r: rng, budget: 6}
			v := g.value(c, 2)
			p := s.newGo(c)
			s.toGo(c, v, p.Elem())
			enc, res := vmarshal(p)
			if res != "ok" {
				continue
			}
			for pos := 0; pos+2 <= len(enc) && pos < 64; pos++ {
				q := append([]byte(nil), enc...)
				q[pos], q[pos+1] = 0xff, 0xff
				cut := pos + 2 + rng.intn(6)
				if cut > len(q) {
					cut = len(q)
				}
				measure(c, q[:cut])
			}
			for n := 2; n <= 12; n += 2 {
				measure(c, bytes.Repeat([]byte{0xff}, n))
			}
			if len(worst) == 0 || worst[c.key()] == 0 {
				o.line(fmt.Sprintf("resource-bound %s lying-counts", c.key()), "bounded")
			}
		}
	}
	var ms0, ms1 runtime.MemStats
	for _, name := range []string{"ROAccessReport", "GetReaderCapabilitiesResponse", "AddROSpec", "CustomMessage"} {
		c := s.msgs[name]
		big := (&vgen{r: rng}).randBytes(64 * 1024)
		runtime.ReadMemStats(&ms0)
		t0 := time.Now()
		obs := s.decodeObs(c, big)
		el := time.Since(t0)
		runtime.ReadMemStats(&ms1)
		alloc := ms1.TotalAlloc - ms0.TotalAlloc
		verdict := "bounded"
		if el > 2*time.Second {
			verdict = "slow"
		}
		if alloc > 64*uint64(len(big))+1<<20 {
			verdict = "balloon"
		}
		if len(obs) > 16 {
			obs = obs[:2]
		}
		o.line("resource-bound "+name+" 65536", verdict)
	}
	// large WELL-FORMED inputs whose repeatable parameters alternate (a run of one type never gets long) or come in long
	// runs: time and allocation must stay proportional to the input here too
	trd := append([]byte{0x00, 0xF0, 0x00, 0x11, 0x8D}, make([]byte, 12)...)                   // TagReportData{EPC96}
	cus := []byte{0x03, 0xFF, 0x00, 0x0D, 0x00, 0x00, 0x65, 0x1A, 0x00, 0x00, 0x00, 0x07, 0x2A} // Custom{25882, 7, [0x2A]}
	for _, shape := range []string{"alternating", "runs"} {
		var body []byte
		for i := 0; i < 5000; i++ {
			if shape == "alternating" {
				body = append(append(body, trd...), cus...)
			} else {
				body = append(body, trd...)
			}
		}
		if shape == "runs" {
			for i := 0; i < 5000; i++ {
				body = append(body, cus...)
			}
		}
		runtime.GC()
		runtime.ReadMemStats(&ms0)
		t0 := time.Now()
		rep := &ROAccessReport{}
		err := rep.UnmarshalBinary(body) // the decoder alone: no conversion of the result
		el := time.Since(t0)
		runtime.ReadMemStats(&ms1)
		alloc := ms1.TotalAlloc - ms0.TotalAlloc
		verdict := "bounded"
		if err != nil || len(rep.TagReportData) != 5000 || len(rep.Custom) != 5000 {
			verdict = fmt.Sprintf("rejected: %v (%d reports, %d custom)", err, len(rep.TagReportData), len(rep.Custom))
		}
		if el > 1500*time.Millisecond {
			verdict = fmt.Sprintf("slow: %v for %d bytes", el.Round(time.Millisecond), len(body))
		}
		if alloc > 64*uint64(len(body))+1<<20 {
			verdict = fmt.Sprintf("balloon: %d bytes allocated for %d bytes", alloc, len(body))
		}
		o.line("resource-bound ROAccessReport "+shape, verdict)
	}
}
