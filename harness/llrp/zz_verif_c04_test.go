//go:build verif

package llrp

// C04 — the inbound stream stays frame-aligned whatever handlers do.
// Scripted sessions against the real Client: the peer writes sequences of well-formed frames (payload sizes 0 … limit+1 …
// several MiB) in arbitrary chunks; handlers read k of n bytes or panic; callers await some of the ids. Observed through
// the ClientLogger hooks, a byte-counting net.Conn, the handlers and the callers' results; compared with the oracle.

import (
	"context"
	"fmt"
	"os"
	"strings"
	"sync/atomic"
	"testing"
	"time"
)

type c04frame struct {
	ver, typ int
	id       uint32
	caller   int // >= 0: the id of that caller's request is used
	n, fill  int
	beh      vbeh
}

type c04phase struct {
	newCallers int
	cancel     []int
	frames     []c04frame
}

type c04session struct {
	name     string
	handlers []int // besides KeepAlive (62), which is always given a scripted handler
	dflt     bool
	phases   []c04phase
}

func (s c04session) run(r *vrng, style int, tcp bool) (req, obs string) {
	a, b, err := vpipe(tcp)
	if err != nil {
		return "c04-harness-error", err.Error()
	}
	defer a.Close()
	defer b.Close()
	cc := &vcountConn{Conn: a}
	greet := vframe{ver: 1, typ: 63, id: 0, payload: renPayload(0)}.bytes()
	rec := &vrdRec{conn: cc, behs: map[int]vbeh{}, shift: 1, base: int64(len(greet))}
	hs := append([]int{62}, s.handlers...)
	opts := []ClientOpt{WithVersion(Version1_0_1), WithLogger(rec)}
	for _, t := range hs {
		opts = append(opts, WithMessageHandler(MessageType(t), &vrdHandler{rec: rec, party: "h"}))
	}
	if s.dflt {
		opts = append(opts, WithDefaultHandler(&vrdHandler{rec: rec, party: "d"}))
	}
	c := NewClient(opts...)
	connRes := make(chan string, 1)
	go func() {
		res := "panic"
		defer func() {
			recover()
			connRes <- res
		}()
		res = vconnClass(c.Connect(cc))
	}()
	peer := &vpeer{c: b}
	got := make(chan vframe, 64)
	go vdrain(peer, got)
	written := int64(0)
	write := func(chunks [][]byte) bool {
		for _, ch := range chunks {
			b.SetWriteDeadline(time.Now().Add(20 * time.Second))
			if _, err := b.Write(ch); err != nil {
				return false
			}
			written += int64(len(ch))
		}
		// (TCP) wait until the client has taken everything
		dl := time.Now().Add(20 * time.Second)
		for atomic.LoadInt64(&cc.n) < written && time.Now().Before(dl) {
			time.Sleep(200 * time.Microsecond)
		}
		return atomic.LoadInt64(&cc.n) >= written
	}
	if !write([][]byte{greet}) {
		return "c04-harness-error", "greeting not consumed"
	}

	type caller struct {
		id     uint32
		res    chan string
		done   chan struct{}
		cancel context.CancelFunc
	}
	var callers []*caller
	var steps []string
	var pendingMods string
	st := &vstream{}
	frameIdx := 0 // index among the frames after the greeting
	fail := ""
	for _, ph := range s.phases {
		for k := 0; k < ph.newCallers; k++ {
			ctx, cancel := context.WithTimeout(context.Background(), 60*time.Second)
			cl := &caller{res: make(chan string, 1), done: make(chan struct{}), cancel: cancel}
			go func() {
				defer close(cl.done)
				defer func() {
					if r := recover(); r != nil {
						cl.res <- "panic"
					}
				}()
				rt, data, err := c.SendMessage(ctx, MsgGetReaderConfig, nil)
				if err != nil {
					cl.res <- errClass(err)
					return
				}
				cl.res <- fmt.Sprintf("ok:%d:%d:%d", rt, len(data), vfnv(fnvOff, data))
			}()
			select {
			case f, ok := <-got:
				if !ok {
					fail = "request not received"
				}
				cl.id = f.id
			case <-time.After(5 * time.Second):
				fail = "request not received"
			}
			callers = append(callers, cl)
			pendingMods += fmt.Sprintf("+%d", cl.id)
		}
		for _, k := range ph.cancel {
			if k < len(callers) {
				callers[k].cancel()
				select {
				case <-callers[k].done:
				case <-time.After(5 * time.Second):
					fail = "cancelled caller did not return"
				}
				pendingMods += fmt.Sprintf("-%d", callers[k].id)
			}
		}
		if fail != "" {
			break
		}
		phs := &vstream{}
		for _, f := range ph.frames {
			id := f.id
			if f.caller >= 0 && f.caller < len(callers) {
				id = callers[f.caller].id
			}
			off := len(st.b) + len(phs.b)
			phs.frame(f.ver, f.typ, id, f.n, f.fill)
			phs.bounds[len(phs.bounds)-1] = off - len(st.b)
			rec.mu.Lock()
			rec.behs[frameIdx+1] = f.beh
			rec.mu.Unlock()
			steps = append(steps, f.beh.String()+pendingMods)
			pendingMods = ""
			frameIdx++
		}
		st.b = append(st.b, phs.b...)
		st.desc = append(st.desc, phs.desc...)
		if !write(vchunks(r, phs.b, phs.bounds, style)) {
			fail = "stream not consumed"
			break
		}
		// let the callers whose replies have arrived take them
		for _, cl := range callers {
			// frames are complete here: once the read loop has taken the caller's entry out of the await map the
			// reply is in its channel
			c.awaitMu.Lock()
			_, still := c.awaiting[messageID(cl.id)]
			c.awaitMu.Unlock()
			wait := 2 * time.Millisecond
			if !still {
				wait = 3 * time.Second
			}
			select {
			case <-cl.done:
			case <-time.After(wait):
			}
		}
	}
	b.Close()
	fin := ""
	select {
	case r := <-connRes:
		fin = map[string]string{"error": "err"}[r]
		if fin == "" {
			fin = r
		}
	case <-time.After(3 * time.Second):
		fin = "wait"
		c.Close()
		select {
		case r := <-connRes:
			if r != "closed" {
				fin = "wait-then-" + r
			}
		case <-time.After(3 * time.Second):
			fin = "stuck"
		}
	}
	var cres, cids []string
	for _, cl := range callers {
		res := "timeout"
		select {
		case res = <-cl.res:
		case <-time.After(5 * time.Second):
		}
		cl.cancel()
		cres = append(cres, fmt.Sprintf("%d=%s", cl.id, res))
		cids = append(cids, fmt.Sprint(cl.id))
	}
	var hstr []string
	for _, t := range hs {
		hstr = append(hstr, fmt.Sprint(t))
	}
	d := 0
	if s.dflt {
		d = 1
	}
	if pendingMods != "" { // registrations after the last frame: attach to a frame that never comes
		steps = append(steps, "k0"+pendingMods)
	}
	req = fmt.Sprintf("c04 %s %d - %s %s %s", vjoin(hstr), d, vjoin(cids), vjoin(steps), st.String())
	if fail != "" {
		return req, "harness: " + fail
	}
	rec.mu.Lock()
	defer rec.mu.Unlock()
	obs = fmt.Sprintf("hdrs=%s deliv=%s unh=%s callers=%s fin=%s", vjoin(rec.hdrs), vjoin(rec.deliv), vjoin(rec.unh), vjoin(cres), fin)
	return req, obs
}

func c04Sessions(seed uint64, thorough bool) []c04session {
	rng := &vrng{s: seed ^ 0xC04}
	limit := int(MaxBufferedPayloadSz)
	var out []c04session
	behFor := func(n int, pick int) vbeh {
		switch pick % 11 {
		case 0:
			return vbeh{k: 0}
		case 1:
			return vbeh{k: 1}
		case 2:
			return vbeh{k: n / 2}
		case 3:
			return vbeh{k: n - 1 + boolInt(n == 0)}
		case 4:
			return vbeh{k: n}
		case 5:
			return vbeh{k: n + 5}
		case 6:
			return vbeh{k: 0, panic: true}
		case 7:
			return vbeh{k: n / 2, panic: true}
		case 9:
			return vbeh{mode: 'd'}
		case 10:
			return vbeh{mode: 'u'}
		}
		return vbeh{k: n, panic: true}
	}
	types := []int{12, 61, 62, 63, 11, 13, 1023}
	smallSizes := []int{0, 0, 1, 2, 9, 10, 11, 100, 255, 256, 257, 4096, 70000}
	// 1. random sessions of small frames: every dispatch path, every handler behaviour, callers registered and cancelled on the way
	nrand := 24
	if thorough {
		nrand = 150
	}
	for si := 0; si < nrand; si++ {
		s := c04session{name: fmt.Sprintf("rand%d", si), dflt: rng.intn(3) == 0}
		switch rng.intn(3) {
		case 0:
			s.handlers = []int{12, 61}
		case 1:
			s.handlers = []int{61}
		}
		ncallers := 0
		answered := map[int]bool{}
		for p := 0; p < 1+rng.intn(3); p++ {
			ph := c04phase{newCallers: rng.intn(4)}
			if ncallers > 0 && rng.intn(4) == 0 {
				k := rng.intn(ncallers)
				if !answered[k] {
					ph.cancel = []int{k}
					answered[k] = true // a later frame with its id is unsolicited; keep it possible
				}
			}
			ncallers += ph.newCallers
			for f := 0; f < 2+rng.intn(8); f++ {
				n := smallSizes[rng.intn(len(smallSizes))]
				fr := c04frame{ver: 1 + rng.intn(2), typ: types[rng.intn(len(types))], id: uint32(1000 + rng.intn(100000)), caller: -1, n: n, fill: rng.intn(256)}
				if ncallers > 0 && rng.intn(2) == 0 {
					fr.caller = rng.intn(ncallers) // possibly already answered or cancelled: then nobody awaits it any more
					// replies carry reply types (a request-typed or unsolicited-typed frame under an awaited id is C03's subject)
					fr.typ = []int{12, 11, 13, 100}[rng.intn(4)]
				}
				fr.beh = behFor(n, rng.intn(11))
				ph.frames = append(ph.frames, fr)
			}
			s.phases = append(s.phases, ph)
		}
		out = append(out, s)
	}
	// 2. the buffering limit and beyond, on every dispatch path, each followed by a small frame that must be found
	big := []int{limit - 1, limit, limit + 1, limit + 2, 2*limit + 3}
	if thorough {
		big = append(big, 3<<20+1, 5<<20)
	} else {
		big = append(big, 2<<20+7)
	}
	for bi, n := range big {
		for path := 0; path < 6; path++ {
			s := c04session{name: fmt.Sprintf("big%d:path%d", n, path)}
			ph := c04phase{}
			fr := c04frame{ver: 1, id: uint32(77000 + bi), caller: -1, n: n, fill: rng.intn(256), beh: behFor(n, bi+path)}
			switch path {
			case 0: // awaited only
				ph.newCallers, fr.caller, fr.typ = 1, 0, 11
			case 1: // awaited and handled
				s.handlers, ph.newCallers, fr.caller, fr.typ = []int{12}, 1, 0, 12
			case 2: // awaited, default handler
				s.dflt, ph.newCallers, fr.caller, fr.typ = true, 1, 0, 11
			case 3: // handler only
				s.handlers, fr.typ = []int{61}, 61
			case 4: // default only
				s.dflt, fr.typ = true, 61
			case 5: // nobody
				fr.typ = 61
			}
			tail := c04frame{ver: 1, typ: 62, id: 424242, caller: -1, n: 3, fill: 9, beh: vbeh{k: 3}}
			ph.frames = []c04frame{fr, tail}
			s.phases = []c04phase{ph}
			out = append(out, s)
			if path >= 1 && path <= 4 && n <= limit+2 {
				// the same with a handler that takes the payload the way the device service does
				s2 := s
				s2.name += ":unmarshal"
				fr2 := fr
				fr2.beh = vbeh{mode: "du"[(bi+path)%2]}
				ph2 := ph
				ph2.frames = []c04frame{fr2, tail}
				s2.phases = []c04phase{ph2}
				out = append(out, s2)
			}
		}
	}
	// 3. every handler behaviour on one medium frame, streamed and buffered
	for pick := 0; pick < 11; pick++ {
		for _, awaited := range []bool{false, true} {
			n := 3000 + pick
			s := c04session{name: fmt.Sprintf("beh%d:%v", pick, awaited), handlers: []int{12}}
			ph := c04phase{}
			fr := c04frame{ver: 1, typ: 12, id: 5, caller: -1, n: n, fill: pick, beh: behFor(n, pick)}
			if awaited {
				ph.newCallers, fr.caller = 1, 0
			}
			ph.frames = []c04frame{fr, {ver: 1, typ: 12, id: 6, caller: -1, n: 8, fill: 1, beh: vbeh{k: 8}}}
			s.phases = []c04phase{ph}
			out = append(out, s)
		}
	}
	// 4. a slow consumer: the handler of a streamed report takes longer than any patience a dispatcher might have; it
	// still gets its whole payload and the next frames are parsed at their own first byte, after it has returned
	{
		s := c04session{name: "slow-handler", handlers: []int{61}}
		ph := c04phase{}
		ph.frames = []c04frame{
			{ver: 1, typ: 61, id: 2001, caller: -1, n: 4000, fill: 3, beh: vbeh{k: 4000, slow: 3300 * time.Millisecond}},
			{ver: 1, typ: 61, id: 2002, caller: -1, n: 600, fill: 5, beh: vbeh{k: 600}},
			{ver: 1, typ: 62, id: 2003, caller: -1, n: 0, fill: 0, beh: vbeh{k: 0}},
		}
		s.phases = []c04phase{ph}
		out = append(out, s)
	}
	return out
}

func boolInt(b bool) int {
	if b {
		return 1
	}
	return 0
}

func TestVerifC04(t *testing.T) {
	o := vopen(t)
	defer o.close()
	rng := &vrng{s: vseed() ^ 0x4C04}
	only := os.Getenv("VERIF_C04_ONLY")
	for _, s := range c04Sessions(vseed(), vthorough()) {
		if only != "" && !strings.HasPrefix(only, s.name+"/") {
			continue
		}
		// the same stream under different segmentations (metamorphic): all must give the oracle's single prediction
		variants := []struct {
			style int
			tcp   bool
		}{{0, false}, {1, false}, {2, true}, {1, true}}
		if strings.HasPrefix(s.name, "big") && !vthorough() {
			variants = variants[1:3]
		}
		for _, v := range variants {
			tag := fmt.Sprintf("%s/%d/%v", s.name, v.style, v.tcp)
			if only != "" && only != tag {
				continue
			}
			// a panic that escapes one of the library's goroutines kills this process: leave the name of the session behind
			os.WriteFile(os.Getenv("VERIF_OUT")+".cur", []byte(tag), 0o644)
			req, obs := s.run(rng, v.style, v.tcp)
			o.line(req+" #"+tag, obs)
		}
	}
}
