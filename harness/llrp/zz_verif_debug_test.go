//go:build verif

package llrp

import (
	"encoding"
	"encoding/hex"
	"fmt"
	"os"
	"strings"
	"testing"
)

// TestVerifDebug: VERIF_DEBUG="dec <Type> <hex>" prints the real decoder's verdict with its error text.
func TestVerifDebug(t *testing.T) {
	d := os.Getenv("VERIF_DEBUG")
	if d == "" {
		t.Skip()
	}
	s := loadSchema(t)
	parts := strings.Fields(d)
	c := s.msgs[parts[1]]
	if c == nil {
		c = s.params[parts[1]]
	}
	b, _ := hex.DecodeString(strings.TrimPrefix(parts[2], "x"))
	p := s.newGo(c)
	func() {
		defer func() {
			if r := recover(); r != nil {
				fmt.Println("PANIC:", r)
			}
		}()
		err := p.Interface().(encoding.BinaryUnmarshaler).UnmarshalBinary(b)
		fmt.Println("RESULT:", err)
		fmt.Println("VALUE:", s.fromGo(c, p.Elem()).String())
	}()
}
