//go:build verif

package llrp

// Script executor shared by the C03 / C08 / C09 harnesses: plays the op language of lean/LLRP/Oracle/LTSim.lean against
// the REAL Client over net.Pipe, one operation at a time; every wait has a deadline (→ "stuck@<op index>"), panics of
// the calls are recovered (→ "panic"). The peer builds and parses headers by hand (zz_verif_peer_test.go) and reads
// everything the client writes in the background, so client writes never block on the script.

import (
	"context"
	"encoding/binary"
	"fmt"
	"net"
	"os"
	"runtime"
	"sort"
	"strconv"
	"strings"
	"sync"
	"sync/atomic"
	"time"
)

func ltsPayload(typ int, tok uint64) []byte {
	switch typ {
	case 100, 57, 4: // ErrorMessage, SetProtocolVersionResponse, CloseConnectionResponse: LLRPStatus with status = tok
		b := []byte{0x01, 0x1f, 0x00, 0x08, 0, 0, 0, 0}
		binary.BigEndian.PutUint16(b[4:], uint16(tok))
		return b
	case 56: // GetSupportedVersionResponse: current, max, LLRPStatus Success. The layout of the two version bytes is the
		// subject of C06/C02 (the generated codec shifts them); it is taken from the library so that this harness follows it.
		b, _ := (&GetSupportedVersionResponse{CurrentVersion: VersionNum(tok / 16), MaxSupportedVersion: VersionNum(tok % 16)}).MarshalBinary()
		return b
	}
	if tok == 0 {
		return nil
	}
	b := make([]byte, 8)
	binary.BigEndian.PutUint64(b, tok)
	return b
}

func ltsToken(typ int, data []byte) uint64 {
	switch {
	case (typ == 100 || typ == 57 || typ == 4) && len(data) == 8:
		return uint64(binary.BigEndian.Uint16(data[4:]))
	case typ == 47 && len(data) == 1:
		if data[0] >= 0x20 { // tolerate either layout of the version byte (C06)
			return uint64(data[0] >> 5)
		}
		return uint64(data[0])
	case len(data) == 0:
		return 0
	case len(data) == 8:
		return binary.BigEndian.Uint64(data)
	}
	return 999999
}

type ltsCaller struct {
	cancel context.CancelFunc
	done   chan struct{}
	res    string
}

type ltsRun struct {
	c        *Client
	cli, srv net.Conn
	peer     *vpeer
	mu       sync.Mutex
	frames   []vframe
	notify   chan struct{}
	rdDone   chan struct{}
	callers  map[int]*ltsCaller
	order    []int
	connErr  chan error
	connRes  string
	started  bool
	closes   []string
	waitFor  time.Duration
	peerShut bool
	lg       *c07log // the client's logger: synchronisation points (write about to start, KeepAlive handled)
	g        *gate   // lets the peer stop reading what the client writes
	pending  []byte  // rest of a frame of which the peer has sent only a part (pspart / psrest)
	outLimit int // -1 = unlimited; otherwise the number of bytes the peer still reads before it vanishes
	spinStop chan struct{} // "spin:n": n callers that keep calling SendNoWait with an already-cancelled context
	spinWG   sync.WaitGroup
	spinAcc  int64 // how many of those calls returned nil (guarded by mu)
	spun     bool
}

func newLtsRun() *ltsRun {
	return &ltsRun{callers: map[int]*ltsCaller{}, notify: make(chan struct{}, 1), rdDone: make(chan struct{}),
		connErr: make(chan error, 1), waitFor: 1500 * time.Millisecond, outLimit: -1}
}

// peerReader consumes everything the client writes, byte-wise, and parses complete frames out of it. When a byte budget
// was set by "pcutout:j" it reads exactly that many more bytes and then closes the peer's side (the peer vanishes
// inside an outbound frame).
func (r *ltsRun) peerReader() {
	defer close(r.rdDone)
	var buf []byte
	chunk := make([]byte, 4096)
	for {
		r.mu.Lock()
		lim := r.outLimit
		r.mu.Unlock()
		if lim == 0 {
			r.srv.Close()
			return
		}
		// one byte at a time: a Read that is already blocked when a budget is set must not overshoot it
		var k int
		var err error
		if r.g != nil {
			k, err = r.g.Read(chunk[:1])
		} else {
			k, err = r.srv.Read(chunk[:1])
		}
		if k > 0 {
			buf = append(buf, chunk[:k]...)
			r.mu.Lock()
			if r.outLimit > 0 {
				r.outLimit -= k
			}
			for len(buf) >= 10 {
				ln := int(binary.BigEndian.Uint32(buf[2:6]))
				if ln < 10 || len(buf) < ln {
					break
				}
				f := vframe{ver: int(buf[0]>>2) & 7, typ: int(buf[0]&3)<<8 | int(buf[1]), id: binary.BigEndian.Uint32(buf[6:10]),
					payload: append([]byte{}, buf[10:ln]...)}
				r.frames = append(r.frames, f)
				buf = buf[ln:]
			}
			r.mu.Unlock()
			select {
			case r.notify <- struct{}{}:
			default:
			}
		}
		if err != nil {
			return
		}
	}
}

func (r *ltsRun) nframes() int {
	r.mu.Lock()
	defer r.mu.Unlock()
	return len(r.frames)
}

// widOf returns the id carried by caller c's request (identified by its payload token pay) as the peer saw it.
func (r *ltsRun) widByToken(tok uint64) (uint32, bool) {
	r.mu.Lock()
	defer r.mu.Unlock()
	typ := int(tok >> 32)
	tok &= 1<<32 - 1
	for _, f := range r.frames {
		if f.typ != 72 && (typ == 0 || f.typ == typ) && ltsToken(f.typ, f.payload) == tok {
			return f.id, true
		}
	}
	return 0, false
}

func callResult(typ MessageType, data []byte, err error) string {
	if err == nil {
		return fmt.Sprintf("reply:%d:%d", typ, ltsToken(int(typ), data))
	}
	k := errClass(err)
	if k == "deadline" || k == "status" {
		k = "err"
	}
	return k
}

func (r *ltsRun) spawn(c int, f func(ctx context.Context) string) {
	ctx, cancel := context.WithCancel(context.Background())
	lc := &ltsCaller{cancel: cancel, done: make(chan struct{})}
	r.callers[c] = lc
	r.order = append(r.order, c)
	go func() {
		defer close(lc.done)
		defer func() {
			if p := recover(); p != nil {
				lc.res = "panic"
			}
		}()
		lc.res = f(ctx)
	}()
}

// tokens of the requests issued by callers (caller -> token), so that "@c" can be resolved from what the peer saw
type ltsTokens map[int]uint64

func (r *ltsRun) resolveID(s string, toks ltsTokens) uint32 {
	if strings.HasPrefix(s, "@") {
		c, _ := strconv.Atoi(s[1:])
		if id, ok := r.widByToken(toks[c]); ok {
			return id
		}
		return 4242
	}
	n, _ := strconv.ParseUint(s, 10, 32)
	return uint32(n)
}

func (r *ltsRun) waitUntil(cond func() bool, ch <-chan struct{}) bool {
	deadline := time.After(r.waitFor)
	for {
		if cond() {
			return true
		}
		select {
		case <-ch:
		case <-time.After(time.Millisecond):
		case <-deadline:
			return cond()
		}
	}
}

// play runs the script and returns the observation in the oracle's format.
func (r *ltsRun) play(ops []string) string {
	toks := ltsTokens{}
	atoi := func(s string) int { n, _ := strconv.Atoi(s); return n }
	stuck := -1
	early := -1
	for i, op := range ops {
		p := strings.Split(op, ":")
		switch p[0] {
		case "new":
			r.lg = &c07log{}
			opts := []ClientOpt{WithLogger(r.lg)}
			if p[1] == "0" {
				opts = append(opts, WithVersion(Version1_0_1))
			}
			if len(p) > 2 {
				opts = append(opts, WithTimeout(time.Duration(atoi(p[2]))*time.Millisecond))
			}
			r.c = NewClient(opts...)
			r.cli, r.srv = net.Pipe()
			r.peer = &vpeer{c: r.srv}
			r.g = newGate(r.srv)
			go r.peerReader()
		case "pstall":
			r.g.stall()
		case "presume":
			r.g.resume()
		case "pspart":
			typ := atoi(p[2])
			tok, _ := strconv.ParseUint(p[4], 10, 64)
			b := vframe{ver: 1, typ: typ, id: r.resolveID(p[3], toks), payload: ltsPayload(typ, tok)}.bytes()
			k := atoi(p[1])
			if k > len(b) {
				k = len(b)
			}
			r.peerSend(b[:k])
			r.pending = b[k:]
		case "psrest":
			r.peerSend(r.pending)
			r.pending = nil
		case "ws":
			typ := MessageType(atoi(p[1]))
			if !r.waitUntil(func() bool {
				r.lg.mu.Lock()
				defer r.lg.mu.Unlock()
				for _, h := range r.lg.sending {
					if h.typ == typ {
						return true
					}
				}
				return false
			}, nil) {
				stuck = i
			}
		case "kh":
			n := atoi(p[1])
			if !r.waitUntil(func() bool { return r.lg.nHandled() >= n }, nil) {
				stuck = i
			}
		case "start":
			r.started = true
			go func() {
				defer func() {
					if p := recover(); p != nil {
						r.connErr <- fmt.Errorf("panic: %v", p)
					}
				}()
				r.connErr <- r.c.Connect(r.cli)
			}()
		case "pf":
			f := vframe{ver: 1, typ: atoi(p[1]), id: uint32(atoi(p[2])), payload: renPayload(1)}
			if p[3] == "1" {
				f.payload = renPayload(0)
			}
			if p[4] == "1" {
				f.payload = nil
				f.lieLen = 10 + uint32(MaxBufferedPayloadSz) + 1
			}
			r.peerSend(f.bytes())
		case "ps":
			typ := atoi(p[1])
			tok, _ := strconv.ParseUint(p[3], 10, 64)
			f := vframe{ver: 1, typ: typ, id: r.resolveID(p[2], toks), payload: ltsPayload(typ, tok)}
			r.peerSend(f.bytes())
		case "pcut":
			typ := atoi(p[2])
			tok, _ := strconv.ParseUint(p[4], 10, 64)
			f := vframe{ver: 1, typ: typ, id: r.resolveID(p[3], toks), payload: ltsPayload(typ, tok)}
			b := f.bytes()
			if k := atoi(p[1]); k > 0 && k < len(b) {
				r.peerSend(b[:k])
			}
			r.srv.Close()
			r.peerShut = true
		case "pc":
			r.srv.Close()
			r.peerShut = true
		case "pcutout":
			r.mu.Lock()
			r.outLimit = atoi(p[1])
			r.mu.Unlock()
			if atoi(p[1]) == 0 {
				// the reader is blocked in Read with no budget left: the next byte would be one too many, so vanish now
				r.srv.Close()
			}
			r.peerShut = true
		case "tmo":
			// the client's own deadline fires; nothing to do here
		case "call":
			c, typ := atoi(p[1]), atoi(p[2])
			tok, _ := strconv.ParseUint(p[3], 10, 64)
			toks[c] = tok
			r.spawn(c, func(ctx context.Context) string {
				return callResult(r.c.SendMessage(ctx, MessageType(typ), ltsPayload(typ, tok)))
			})
		case "nw":
			c, typ := atoi(p[1]), atoi(p[2])
			tok, _ := strconv.ParseUint(p[3], 10, 64)
			toks[c] = tok
			r.spawn(c, func(ctx context.Context) string {
				m, err := NewByteMessage(MessageType(typ), ltsPayload(typ, tok))
				if err != nil {
					return "err"
				}
				if err := r.c.SendNoWait(ctx, m); err != nil {
					return callResult(0, nil, err)
				}
				return "nil"
			})
		case "shutdown":
			c := atoi(p[1])
			toks[c] = 14 << 32 // identified by its type: CloseConnection has no payload
			r.spawn(c, func(ctx context.Context) string {
				if err := r.c.Shutdown(ctx); err != nil {
					return callResult(0, nil, err)
				}
				return "nil"
			})
		case "spin":
			// callers that are actively running (not parked) when the gate moves: SendNoWait with a cancelled context, over
			// and over, until the script ends.  While the gate is closed every such call fails and writes nothing.
			r.spun = true
			if r.spinStop == nil {
				r.spinStop = make(chan struct{})
			}
			expired, cancel := context.WithCancel(context.Background())
			cancel()
			for k := 0; k < atoi(p[1]); k++ {
				r.spinWG.Add(1)
				go func() {
					defer r.spinWG.Done()
					defer func() { recover() }()
					for {
						select {
						case <-r.spinStop:
							return
						default:
						}
						if err := r.c.SendNoWait(expired, NewHdrOnlyMsg(MsgEnableEventsAndReports)); err == nil {
							r.mu.Lock()
							r.spinAcc++
							r.mu.Unlock()
						}
					}
				}()
			}
		case "cancel":
			if lc := r.callers[atoi(p[1])]; lc != nil {
				lc.cancel()
			}
		case "close":
			func() {
				defer func() {
					if p := recover(); p != nil {
						r.closes = append(r.closes, "panic")
					}
				}()
				if err := r.c.Close(); err != nil {
					r.closes = append(r.closes, errClass(err))
				} else {
					r.closes = append(r.closes, "nil")
				}
			}()
		case "cclose":
			// n goroutines leave a spin barrier together and call Close(): exactly one closes, the others are told so
			n := atoi(p[1])
			var ready, goNow int32
			resCh := make(chan string, n)
			for k := 0; k < n; k++ {
				go func() {
					defer func() {
						if p := recover(); p != nil {
							resCh <- "panic"
						}
					}()
					atomic.AddInt32(&ready, 1)
					for atomic.LoadInt32(&goNow) == 0 {
					}
					if err := r.c.Close(); err != nil {
						resCh <- errClass(err)
					} else {
						resCh <- "nil"
					}
				}()
			}
			for atomic.LoadInt32(&ready) < int32(n) {
				runtime.Gosched()
			}
			atomic.StoreInt32(&goNow, 1)
			var rs []string
			for k := 0; k < n; k++ {
				select {
				case x := <-resCh:
					rs = append(rs, x)
				case <-time.After(r.waitFor):
					rs = append(rs, "stuck")
				}
			}
			sort.Slice(rs, func(i, j int) bool { // nil first, as in the model's order
				return (rs[i] == "nil" && rs[j] != "nil") || (rs[i] != "nil" && rs[j] != "nil" && rs[i] < rs[j])
			})
			r.closes = append(r.closes, rs...)
		case "w":
			n := atoi(p[1])
			if !r.waitUntil(func() bool { return r.nframes() >= n }, r.notify) {
				stuck = i
			}
		case "r":
			lc := r.callers[atoi(p[1])]
			if lc == nil {
				stuck = i
				break
			}
			select {
			case <-lc.done:
			case <-time.After(r.waitFor):
				stuck = i
			}
		case "rc":
			if r.connRes == "" {
				select {
				case err := <-r.connErr:
					r.connRes = connClass(err)
				case <-time.After(r.waitFor):
					stuck = i
				}
			}
		case "z":
			time.Sleep(3 * time.Millisecond)
		case "zz": // nothing happens for this many milliseconds (the model has no clock: a pause)
			time.Sleep(time.Duration(atoi(p[1])) * time.Millisecond)
		case "n":
			time.Sleep(5 * time.Millisecond)
			if r.nframes() > atoi(p[1]) {
				early = i
			}
		default:
			return "bad-op " + op
		}
		if stuck >= 0 || early >= 0 {
			break
		}
	}
	obs := ""
	if early >= 0 {
		if r.spinStop != nil {
			close(r.spinStop)
			r.spinWG.Wait()
			r.spinStop = nil
		}
		r.cleanup()
		return fmt.Sprintf("early-write@%d", early)
	}
	if stuck >= 0 {
		obs = fmt.Sprintf("stuck@%d", stuck)
	}
	// tear down, collecting what is observable without waiting for anything that is not already there
	res := []string{}
	for _, c := range r.order {
		lc := r.callers[c]
		select {
		case <-lc.done:
			res = append(res, fmt.Sprintf("%d=%s", c, lc.res))
		default:
			res = append(res, fmt.Sprintf("%d=run", c))
		}
	}
	if r.connRes == "" {
		select {
		case err := <-r.connErr:
			r.connRes = connClass(err)
		default:
			r.connRes = "run"
		}
	}
	connRes := r.connRes
	if r.spinStop != nil {
		close(r.spinStop)
		r.spinWG.Wait()
		time.Sleep(2 * time.Millisecond) // a write that is in flight arrives
	}
	r.cleanup()
	if stuck >= 0 {
		return obs
	}
	wr := []string{}
	r.mu.Lock()
	defer r.mu.Unlock()
	for _, f := range r.frames {
		wr = append(wr, fmt.Sprintf("%d:%d:%d", f.typ, f.id, ltsToken(f.typ, f.payload)))
	}
	out := fmt.Sprintf("wr=[%s] res=[%s] conn=%s close=[%s]", strings.Join(wr, " "), strings.Join(res, " "), connRes, strings.Join(r.closes, " "))
	if r.spun {
		out += fmt.Sprintf(" spin=%d", r.spinAcc)
	}
	return out
}

func connClass(err error) string {
	if os.Getenv("VERIF_LTS_DEBUG") != "" {
		fmt.Fprintln(os.Stderr, "Connect returned:", err)
	}
	if err != nil && strings.HasPrefix(err.Error(), "panic:") {
		return "panic"
	}
	if errClass(err) == "closed" {
		return "closed"
	}
	return "fail"
}

func (r *ltsRun) peerSend(b []byte) {
	r.srv.SetWriteDeadline(time.Now().Add(r.waitFor))
	r.srv.Write(b)
}

func (r *ltsRun) cleanup() {
	if r.c == nil {
		return
	}
	func() {
		defer func() { recover() }()
		r.c.Close()
	}()
	for _, lc := range r.callers {
		lc.cancel()
	}
	if r.g != nil {
		r.g.resume()
	}
	r.srv.Close()
	r.cli.Close()
	select {
	case <-r.rdDone:
	case <-time.After(2 * time.Second):
	}
	if r.started && r.connRes == "run" {
		select {
		case <-r.connErr:
		case <-time.After(2 * time.Second):
		}
	}
	for _, lc := range r.callers {
		select {
		case <-lc.done:
		case <-time.After(2 * time.Second):
		}
	}
}

// ltsStuck counts scripts that hung; once a run has produced enough of them the families stop early (each hang costs
// seconds, and the first ones are already reported)
var ltsStuck int

func ltsAbort() bool { return ltsStuck > 8 }

func ltsPlay(script string) string {
	obs := newLtsRun().play(strings.Fields(script))
	if strings.HasPrefix(obs, "stuck@") {
		ltsStuck++
	}
	return obs
}

func sortedKeys(m map[int]*ltsCaller) []int {
	ks := []int{}
	for k := range m {
		ks = append(ks, k)
	}
	sort.Ints(ks)
	return ks
}
