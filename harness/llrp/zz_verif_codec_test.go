//go:build verif

package llrp

// Codec harness shared by C01, C02 and C11: a schema-driven value type (`gval`), a reflection walker between gval
// and the generated Go structs, the canonical text form shared with the Lean oracle (LLRP.Model.Sexp), random
// value generation, and adversarial byte mutation.

import (
	"bytes"
	"encoding"
	"encoding/json"
	"fmt"
	"os"
	"path/filepath"
	"reflect"
	"strconv"
	"strings"
	"testing"
)

type sField struct {
	Name string `json:"name"`
	Kind string `json:"kind"`
	// parsed
	k      string
	size   int
	bits   int
	bit    int
	part   bool
	signed bool
	isBool bool
	elem   int
	length int
}
type sSlot struct {
	Name       string  `json:"name"`
	Ty         string  `json:"ty"`
	Optional   bool    `json:"optional"`
	Repeatable bool    `json:"repeatable"`
	Group      *string `json:"group"`
}
type sContainer struct {
	Name   string   `json:"name"`
	TypeID int      `json:"typeId"`
	IsMsg  bool     `json:"isMsg"`
	Fields []sField `json:"fields"`
	Slots  []sSlot  `json:"slots"`
}

type vschema struct {
	all    []*sContainer
	params map[string]*sContainer
	msgs   map[string]*sContainer
}

func (s *sSlot) isChoice() bool { return s.Group != nil && !s.Optional && !s.Repeatable }

func (c *sContainer) canInline() bool {
	return !c.IsMsg && len(c.Slots) == 0 && len(c.Fields) == 1 && c.Fields[0].k == "scalar"
}

func (c *sContainer) key() string {
	if c.IsMsg {
		return "m:" + c.Name
	}
	return "p:" + c.Name
}

func loadSchema(t testing.TB) *vschema {
	p := filepath.Join(os.Getenv("VERIF_DIR"), "build", "schema.json")
	b, err := os.ReadFile(p)
	if err != nil {
		t.Fatal(err)
	}
	var all []*sContainer
	if err := json.Unmarshal(b, &all); err != nil {
		t.Fatal(err)
	}
	s := &vschema{all: all, params: map[string]*sContainer{}, msgs: map[string]*sContainer{}}
	for _, c := range all {
		for i := range c.Fields {
			f := &c.Fields[i]
			parts := strings.Fields(f.Kind)
			f.k = strings.TrimPrefix(parts[0], ".")
			atoi := func(i int) int { n, _ := strconv.Atoi(parts[i]); return n }
			switch f.k {
			case "scalar":
				f.size, f.bits, f.bit = atoi(1), atoi(2), atoi(3)
				f.part, f.signed, f.isBool = parts[4] == "true", parts[5] == "true", parts[6] == "true"
			case "pad":
				f.size = atoi(1)
			case "fixedArr":
				f.elem, f.length = atoi(1), atoi(2)
			case "arr":
				f.elem = atoi(1)
			case "str", "bitArr", "rest":
			default:
				t.Fatalf("unknown field kind %q", f.Kind)
			}
		}
		if c.IsMsg {
			s.msgs[c.Name] = c
		} else {
			s.params[c.Name] = c
		}
	}
	return s
}

// ---------------------------------------------------------------- values

type gf struct {
	kind  byte // 'n' number, 'x' bytes, 'l' list of numbers, 'b' bit array
	u     uint64
	neg   bool // number is negative: value is -int64(u) … stored as int64 in i
	i     int64
	sgn   bool // print i instead of u
	bytes []byte
	nums  []uint64
	nbits int
}

type gval struct {
	fs   []gf
	subs [][]*gval
}

func (f gf) print(sb *strings.Builder) {
	switch f.kind {
	case 'n':
		if f.sgn {
			sb.WriteString(strconv.FormatInt(f.i, 10))
		} else {
			sb.WriteString(strconv.FormatUint(f.u, 10))
		}
	case 'x':
		sb.WriteByte('x')
		sb.WriteString(vhex(f.bytes))
	case 'l':
		sb.WriteString("(n")
		for _, n := range f.nums {
			sb.WriteByte(' ')
			sb.WriteString(strconv.FormatUint(n, 10))
		}
		sb.WriteByte(')')
	case 'b':
		fmt.Fprintf(sb, "(b %d x%s)", f.nbits, vhex(f.bytes))
	}
}

func (v *gval) print(sb *strings.Builder) {
	sb.WriteString("((")
	for i, f := range v.fs {
		if i > 0 {
			sb.WriteByte(' ')
		}
		f.print(sb)
	}
	sb.WriteString(") (")
	for i, vs := range v.subs {
		if i > 0 {
			sb.WriteByte(' ')
		}
		sb.WriteByte('(')
		for j, x := range vs {
			if j > 0 {
				sb.WriteByte(' ')
			}
			x.print(sb)
		}
		sb.WriteByte(')')
	}
	sb.WriteString("))")
}

func (v *gval) String() string {
	var sb strings.Builder
	v.print(&sb)
	return sb.String()
}

// ---------------------------------------------------------------- reflection walker

// toGo writes v into dst (an addressable value of c's Go type).
func (s *vschema) toGo(c *sContainer, v *gval, dst reflect.Value) {
	if c.canInline() {
		setScalar(dst, v.fs[0])
		return
	}
	fi := 0
	for i := range c.Fields {
		f := &c.Fields[i]
		if f.k == "pad" {
			continue
		}
		val := v.fs[fi]
		fi++
		switch f.k {
		case "scalar":
			setScalar(dst.FieldByName(f.Name), val)
		case "bitArr":
			dst.FieldByName(f.Name + "NumBits").SetUint(uint64(val.nbits))
			setBytes(dst.FieldByName(f.Name), val.bytes, true)
		case "str":
			dst.FieldByName(f.Name).SetString(string(val.bytes))
		case "fixedArr", "rest":
			setBytes(dst.FieldByName(f.Name), val.bytes, false)
		case "arr":
			fv := dst.FieldByName(f.Name)
			if f.elem == 1 {
				if len(val.bytes) == 0 {
					continue
				}
				sl := reflect.MakeSlice(fv.Type(), len(val.bytes), len(val.bytes))
				for j, b := range val.bytes {
					sl.Index(j).SetUint(uint64(b))
				}
				fv.Set(sl)
			} else {
				if len(val.nums) == 0 {
					continue
				}
				sl := reflect.MakeSlice(fv.Type(), len(val.nums), len(val.nums))
				for j, n := range val.nums {
					sl.Index(j).SetUint(n)
				}
				fv.Set(sl)
			}
		}
	}
	for i := range c.Slots {
		sl := &c.Slots[i]
		sub := s.params[sl.Ty]
		vs := v.subs[i]
		fv := dst.FieldByName(sl.Name)
		switch {
		case sl.Repeatable:
			if len(vs) == 0 {
				continue
			}
			out := reflect.MakeSlice(fv.Type(), len(vs), len(vs))
			for j, x := range vs {
				s.toGo(sub, x, out.Index(j))
			}
			fv.Set(out)
		case sl.Optional:
			if len(vs) == 0 {
				continue
			}
			p := reflect.New(fv.Type().Elem())
			s.toGo(sub, vs[0], p.Elem())
			fv.Set(p)
		default:
			if len(vs) == 0 {
				continue // absent member of a choice group stays zero
			}
			s.toGo(sub, vs[0], fv)
		}
	}
}

func setScalar(dst reflect.Value, f gf) {
	switch dst.Kind() {
	case reflect.Bool:
		dst.SetBool(f.u != 0)
	case reflect.Int8, reflect.Int16, reflect.Int32, reflect.Int64, reflect.Int:
		dst.SetInt(f.i)
	default:
		dst.SetUint(f.u)
	}
}

func setBytes(dst reflect.Value, b []byte, keepEmpty bool) {
	if len(b) == 0 && !keepEmpty {
		return
	}
	c := make([]byte, len(b))
	copy(c, b)
	dst.SetBytes(c)
}

func getScalar(src reflect.Value, f *sField) gf {
	switch src.Kind() {
	case reflect.Bool:
		if src.Bool() {
			return gf{kind: 'n', u: 1}
		}
		return gf{kind: 'n', u: 0}
	case reflect.Int8, reflect.Int16, reflect.Int32, reflect.Int64, reflect.Int:
		return gf{kind: 'n', i: src.Int(), sgn: true}
	default:
		return gf{kind: 'n', u: src.Uint()}
	}
}

// present: the encoder's own test for a value-typed member of a choice group
func (s *vschema) choicePresent(sub *sContainer, fv reflect.Value) bool {
	if sub.canInline() {
		return !fv.IsZero()
	}
	for i := range sub.Fields {
		f := &sub.Fields[i]
		if f.k == "pad" {
			continue
		}
		x := fv.FieldByName(f.Name)
		if x.Kind() == reflect.Slice && x.IsNil() {
			return false
		}
	}
	return true
}

// fromGo reads a value of c's Go type.
func (s *vschema) fromGo(c *sContainer, src reflect.Value) *gval {
	v := &gval{}
	if c.canInline() {
		v.fs = []gf{getScalar(src, &c.Fields[0])}
		return v
	}
	for i := range c.Fields {
		f := &c.Fields[i]
		switch f.k {
		case "pad":
		case "scalar":
			v.fs = append(v.fs, getScalar(src.FieldByName(f.Name), f))
		case "bitArr":
			v.fs = append(v.fs, gf{kind: 'b', nbits: int(src.FieldByName(f.Name + "NumBits").Uint()), bytes: src.FieldByName(f.Name).Bytes()})
		case "str":
			v.fs = append(v.fs, gf{kind: 'x', bytes: []byte(src.FieldByName(f.Name).String())})
		case "fixedArr", "rest":
			v.fs = append(v.fs, gf{kind: 'x', bytes: src.FieldByName(f.Name).Bytes()})
		case "arr":
			fv := src.FieldByName(f.Name)
			if f.elem == 1 {
				b := make([]byte, fv.Len())
				for j := range b {
					b[j] = byte(fv.Index(j).Uint())
				}
				v.fs = append(v.fs, gf{kind: 'x', bytes: b})
			} else {
				n := make([]uint64, fv.Len())
				for j := range n {
					n[j] = fv.Index(j).Uint()
				}
				v.fs = append(v.fs, gf{kind: 'l', nums: n})
			}
		}
	}
	for i := range c.Slots {
		sl := &c.Slots[i]
		sub := s.params[sl.Ty]
		fv := src.FieldByName(sl.Name)
		var vs []*gval
		switch {
		case sl.Repeatable:
			for j := 0; j < fv.Len(); j++ {
				vs = append(vs, s.fromGo(sub, fv.Index(j)))
			}
		case sl.Optional:
			if !fv.IsNil() {
				vs = append(vs, s.fromGo(sub, fv.Elem()))
			}
		case sl.isChoice():
			if s.choicePresent(sub, fv) {
				vs = append(vs, s.fromGo(sub, fv))
			}
		default:
			vs = append(vs, s.fromGo(sub, fv))
		}
		v.subs = append(v.subs, vs)
	}
	return v
}

func (s *vschema) newGo(c *sContainer) reflect.Value {
	t, ok := verifTypes[c.key()]
	if !ok {
		panic("no Go type for " + c.key())
	}
	return reflect.New(t)
}

// marshal / unmarshal with panic capture
func vmarshal(p reflect.Value) (b []byte, res string) {
	defer func() {
		if r := recover(); r != nil {
			res = "panic"
		}
	}()
	m, ok := p.Interface().(encoding.BinaryMarshaler)
	if !ok {
		return nil, "nomarshaler"
	}
	b, err := m.MarshalBinary()
	if err != nil {
		return nil, "err"
	}
	return b, "ok"
}

func vunmarshal(p reflect.Value, data []byte) (res string) {
	defer func() {
		if r := recover(); r != nil {
			res = "panic"
		}
	}()
	u, ok := p.Interface().(encoding.BinaryUnmarshaler)
	if !ok {
		return "nounmarshaler"
	}
	if err := u.UnmarshalBinary(data); err != nil {
		return "err"
	}
	return "ok"
}

// ---------------------------------------------------------------- generation

type vgen struct {
	s      *vschema
	r      *vrng
	big    bool // thorough: longer arrays/strings
	budget int  // remaining node budget: keeps TLV sizes well inside 16 bits
}

func (g *vgen) number(f *sField) gf {
	bitsz := 8*(f.size-1) + f.bits
	if f.isBool {
		return gf{kind: 'n', u: uint64(g.r.intn(2))}
	}
	var max uint64
	if bitsz >= 64 {
		max = ^uint64(0)
	} else {
		max = (uint64(1) << uint(bitsz)) - 1
	}
	var u uint64
	switch g.r.intn(8) {
	case 0:
		u = 0
	case 1:
		u = 1 & max
	case 2:
		u = max
	case 3:
		u = max - 1
	case 4:
		u = (max >> 1) + 1 // sign boundary
	case 5:
		u = max >> 1
	default:
		u = g.r.next() & max
	}
	if f.signed {
		// reinterpret as two's complement of that width
		sh := uint(64 - bitsz)
		i := int64(u<<sh) >> sh
		return gf{kind: 'n', i: i, sgn: true}
	}
	return gf{kind: 'n', u: u}
}

func (g *vgen) length() int {
	lens := []int{0, 1, 2, 3, 7, 8, 9}
	if g.big {
		lens = append(lens, 15, 16, 17, 31, 64, 255, 256, 1000)
	}
	n := lens[g.r.intn(len(lens))]
	if g.r.intn(4) == 0 {
		n = g.r.intn(24)
	}
	if !g.big && g.r.intn(12) == 0 {
		// now and then a long one in the quick tier too: chunked writers / readers show only beyond their chunk size
		n = []int{31, 32, 33, 40, 64, 65, 100, 255, 256, 300}[g.r.intn(10)]
	}
	return n
}

// text builds a valid UTF-8 string of about n bytes: ASCII mixed with 2-, 3- and 4-byte characters, so that the number
// of characters differs from the number of bytes
func (g *vgen) text(n int) []byte {
	var b []byte
	runes := []rune{'é', 'ß', 'Ω', 'ж', '°', '€', '中', '日', 'ก', '\u2028', '😀', '𝄞', '\u00a0', '\u07ff', '\u0800', '\uffff', '\U00010000', '\U0010ffff'}
	for len(b) < n {
		if g.r.intn(3) == 0 {
			b = append(b, string(runes[g.r.intn(len(runes))])...)
		} else {
			b = append(b, byte(32+g.r.intn(95)))
		}
	}
	// U+0000 is a character like any other: now and then inside the text, at its end, or both (a count that covers
	// trailing NULs is still the count)
	switch g.r.intn(8) {
	case 0:
		b = append(b, 0, 0)
	case 1, 2:
		// only a one-byte character may be overwritten (the text stays valid UTF-8)
		for i := len(b) / 2; i < len(b); i++ {
			if b[i] < 0x80 {
				b[i] = 0
				break
			}
		}
		if len(b) > 2 && g.r.intn(2) == 0 {
			b = append(b, 'x', 0)
		}
	}
	return b
}

func (g *vgen) randBytes(n int) []byte {
	b := make([]byte, n)
	for i := range b {
		b[i] = byte(g.r.next())
	}
	return b
}

func (g *vgen) value(c *sContainer, depth int) *gval {
	v := &gval{}
	g.budget--
	for i := range c.Fields {
		f := &c.Fields[i]
		switch f.k {
		case "pad":
		case "scalar":
			v.fs = append(v.fs, g.number(f))
		case "fixedArr":
			v.fs = append(v.fs, gf{kind: 'x', bytes: g.randBytes(f.elem * f.length)})
		case "arr":
			n := g.length()
			if f.elem == 1 {
				v.fs = append(v.fs, gf{kind: 'x', bytes: g.randBytes(n)})
			} else {
				nums := make([]uint64, n)
				for j := range nums {
					nums[j] = g.r.next() & ((uint64(1) << uint(8*f.elem)) - 1)
					if g.r.intn(6) == 0 {
						nums[j] = (uint64(1) << uint(8*f.elem)) - 1
					}
				}
				v.fs = append(v.fs, gf{kind: 'l', nums: nums})
			}
		case "str":
			n := g.length()
			var b []byte
			if g.r.intn(2) == 0 {
				b = make([]byte, n)
				for j := range b {
					b[j] = byte(32 + g.r.intn(95)) // printable ASCII
				}
			} else {
				b = g.text(n) // valid UTF-8 with multi-byte characters (the JSON clause's domain is valid UTF-8)
			}
			v.fs = append(v.fs, gf{kind: 'x', bytes: b})
		case "bitArr":
			nbits := []int{0, 1, 7, 8, 9, 15, 16, 17, 96, 13}[g.r.intn(10)]
			if g.r.intn(3) == 0 {
				nbits = g.r.intn(200)
			}
			if g.r.intn(48) == 0 {
				// top of the 16-bit range: the byte count (n+7)/8 must not be computed in 16 bits
				nbits = []int{65528, 65529, 65535, 65521}[g.r.intn(4)]
			}
			v.fs = append(v.fs, gf{kind: 'b', nbits: nbits, bytes: g.randBytes((nbits + 7) / 8)})
		case "rest":
			v.fs = append(v.fs, gf{kind: 'x', bytes: g.randBytes(g.length())})
		}
	}
	// choice groups: pick one member per group
	chosen := map[string]int{}
	for i := range c.Slots {
		sl := &c.Slots[i]
		if sl.isChoice() {
			if _, ok := chosen[*sl.Group]; !ok {
				var members []int
				for j := range c.Slots {
					if c.Slots[j].isChoice() && *c.Slots[j].Group == *sl.Group {
						members = append(members, j)
					}
				}
				chosen[*sl.Group] = members[g.r.intn(len(members))]
			}
		}
	}
	for i := range c.Slots {
		sl := &c.Slots[i]
		sub := g.s.params[sl.Ty]
		var vs []*gval
		deep := depth > 5 || g.budget <= 0
		switch {
		case sl.isChoice():
			if chosen[*sl.Group] == i {
				x := g.value(sub, depth+1)
				g.makePresent(sub, x)
				vs = append(vs, x)
			}
		case sl.Repeatable:
			n := []int{0, 1, 2, 3}[g.r.intn(4)]
			if deep {
				n = 0
				if !sl.Optional {
					n = 1 // the table says 1..n; the decoder accepts 0 as well, the generator honours the table
				}
			}
			if !sl.Optional && n == 0 {
				n = 1
			}
			for j := 0; j < n; j++ {
				vs = append(vs, g.value(sub, depth+1))
			}
		case sl.Optional:
			if !deep && g.r.intn(2) == 0 {
				vs = append(vs, g.value(sub, depth+1))
			}
		default:
			vs = append(vs, g.value(sub, depth+1))
		}
		v.subs = append(v.subs, vs)
	}
	return v
}

// makePresent adjusts a generated choice-group member so that the encoder's "present" test holds
// (documented representation: the absent alternative is the zero value).
func (g *vgen) makePresent(sub *sContainer, x *gval) {
	if sub.canInline() {
		if x.fs[0].u == 0 && !x.fs[0].sgn {
			x.fs[0].u = 1 + g.r.next()%1000
		}
		if x.fs[0].sgn && x.fs[0].i == 0 {
			x.fs[0].i = 1
		}
	}
}

// ---------------------------------------------------------------- mutation (C11)

func putU16(b []byte, i int, v int) {
	if i+1 < len(b) {
		b[i] = byte(v >> 8)
		b[i+1] = byte(v)
	}
}

// tlvOffsets finds plausible TLV headers (type < 1024 with a length that fits) by scanning; used to aim mutations
func tlvOffsets(b []byte) []int {
	var out []int
	for i := 0; i+4 <= len(b); i++ {
		if b[i] <= 3 {
			l := int(b[i+2])<<8 | int(b[i+3])
			if l >= 4 && i+l <= len(b) {
				out = append(out, i)
			}
		}
	}
	return out
}

// ---------------------------------------------------------------- bytes stay what they were; messages beyond 64 KiB

// stableChk: the bytes an encoder returned must still be the same after the next encoder call (a returned slice that
// aliases a recycled buffer is overwritten by the next call). A difference is reported through the oracle's `same` verb.
type stableChk struct{ prev, cp []byte }

func (k *stableChk) note(o *vout, b []byte) {
	if k.prev != nil && !bytes.Equal(k.prev, k.cp) {
		o.line("same x"+vhex(k.cp)+" x"+vhex(k.prev), "yes")
	}
	k.prev, k.cp = b, append([]byte(nil), b...)
}

// bigReport: an ROAccessReport whose payload exceeds 64 KiB although every parameter in it is small (n TagReportData
// with minimal content): sizes and remaining-byte counts at message level do not fit 16 bits
func (s *vschema) bigReport(r *vrng, n int) (*sContainer, *gval) {
	c := s.msgs["ROAccessReport"]
	g := &vgen{s: s, r: r, budget: 0}
	v := g.value(c, 6) // deep: only what the table requires
	for i := range c.Slots {
		if c.Slots[i].Ty == "TagReportData" {
			sub := s.params["TagReportData"]
			v.subs[i] = nil
			for j := 0; j < n; j++ {
				g2 := &vgen{s: s, r: r, budget: 0}
				v.subs[i] = append(v.subs[i], g2.value(sub, 6))
			}
		}
	}
	return c, v
}

// ---------------------------------------------------------------- recycled values, concurrent encoders, the top of the TLV range

// recycleTop empties a decoded message / parameter for reuse the way applications recycle report structs: every slice
// field of the top-level struct is cut to length 0 (its capacity, with whatever the elements held, stays), every other
// field is zeroed
func recycleTop(v reflect.Value) {
	if v.Kind() != reflect.Struct {
		v.Set(reflect.Zero(v.Type()))
		return
	}
	for i := 0; i < v.NumField(); i++ {
		f := v.Field(i)
		if !f.CanSet() {
			continue
		}
		if f.Kind() == reflect.Slice && !f.IsNil() {
			f.Set(f.Slice(0, 0))
		} else {
			f.Set(reflect.Zero(f.Type()))
		}
	}
}

// topOfRange: Custom parameters whose total TLV size is just below, at and at the top of what the 16-bit length can say
func (s *vschema) topOfRange(r *vrng) []*gval {
	c := s.params["Custom"]
	var out []*gval
	for _, total := range []int{65531, 65532, 65534, 65535} {
		data := make([]byte, total-12)
		for i := range data {
			data[i] = byte(r.next())
		}
		v := &gval{fs: []gf{{kind: 'n', u: 25882}, {kind: 'n', u: 7}, {kind: 'x', bytes: data}}}
		for range c.Slots {
			v.subs = append(v.subs, nil)
		}
		out = append(out, v)
	}
	return out
}
