//go:build verif

package llrp

import (
	"context"
	"encoding/binary"
	"fmt"
	"io"
	"net"
	"sync"
	"os"
	"strings"
	"testing"
	"time"
)

// ---- helpers shared by the write-side harnesses (C05, C06, C07) ----

// wsession is a Client over net.Pipe whose peer side is read by a goroutine that never stops reading and
// reports whole frames (header parsed by hand); Connect runs under recover.
type wsession struct {
	c       *Client
	p       *vpeer
	cli     net.Conn
	connErr chan error // result of Connect; "panic: …" errors for panics
	frames  chan vframe
	rdDone  chan struct{} // closed when the peer's reader has seen the end of the stream
	rawMu   sync.Mutex
	raw     []byte // every byte the peer received, in order
	wmu     sync.Mutex // serialises the peer's writes
}

func wstart(opts ...ClientOpt) *wsession { return wstartOn(false, opts...) }

// wstartOn creates the client over net.Pipe or loopback TCP.
func wstartOn(tcp bool, opts ...ClientOpt) *wsession {
	var a, b net.Conn
	if tcp {
		ln, err := net.Listen("tcp", "127.0.0.1:0")
		if err != nil {
			panic(err)
		}
		acc := make(chan net.Conn, 1)
		go func() { c, _ := ln.Accept(); acc <- c }()
		a, err = net.DialTimeout("tcp", ln.Addr().String(), 3*time.Second)
		if err != nil {
			panic(err)
		}
		b = <-acc
		ln.Close()
	} else {
		a, b = net.Pipe()
	}
	opts = append([]ClientOpt{WithLogger(nil)}, opts...)
	s := &wsession{c: NewClient(opts...), p: &vpeer{c: b}, cli: a, connErr: make(chan error, 1),
		frames: make(chan vframe, 1<<16), rdDone: make(chan struct{})}
	go func() {
		defer func() {
			if r := recover(); r != nil {
				s.connErr <- fmt.Errorf("panic: %v", r)
			}
		}()
		s.connErr <- s.c.Connect(a)
	}()
	// the peer's reader never stops reading; it records the raw bytes and, independently, splits them into frames
	go func() {
		defer close(s.rdDone)
		defer close(s.frames)
		r := io.TeeReader(b, rawWriter{s})
		h := make([]byte, 10)
		for {
			if _, err := io.ReadFull(r, h); err != nil {
				return
			}
			f := vframe{ver: int(h[0]>>2) & 7, typ: int(h[0]&3)<<8 | int(h[1]), id: binary.BigEndian.Uint32(h[6:10])}
			n := binary.BigEndian.Uint32(h[2:6])
			if n < 10 {
				io.Copy(io.Discard, r) // unparseable from here on: keep recording
				return
			}
			f.payload = make([]byte, n-10)
			if _, err := io.ReadFull(r, f.payload); err != nil {
				return
			}
			s.frames <- f
		}
	}()
	return s
}

type rawWriter struct{ s *wsession }

func (w rawWriter) Write(b []byte) (int, error) {
	w.s.rawMu.Lock()
	w.s.raw = append(w.s.raw, b...)
	w.s.rawMu.Unlock()
	return len(b), nil
}

func (s *wsession) rawBytes() []byte {
	s.rawMu.Lock()
	defer s.rawMu.Unlock()
	return append([]byte(nil), s.raw...)
}

// psend writes one frame from the peer (serialised).
func (s *wsession) psend(f vframe) error {
	s.wmu.Lock()
	defer s.wmu.Unlock()
	return s.p.send(f)
}

// finish closes the client, lets Connect return, closes the client's end and waits until the peer has read
// everything that was written; returns the complete raw stream.
func (s *wsession) finish() []byte {
	s.c.Close()
	// unblock the client's read loop without touching its write side, so that Connect returns only after the
	// write loop has finished the frame it may be writing
	s.cli.SetReadDeadline(time.Now())
	select {
	case <-s.connErr:
	case <-time.After(3 * time.Second):
	}
	s.cli.Close()
	select {
	case <-s.rdDone:
	case <-time.After(3 * time.Second):
	}
	s.p.c.Close()
	return s.rawBytes()
}

func (s *wsession) greet() { s.psend(vframe{ver: 1, typ: 63, id: 0, payload: renPayload(0)}) }

func (s *wsession) stop() {
	s.c.Close()
	s.p.c.Close()
	s.cli.Close()
	select {
	case <-s.connErr:
	case <-time.After(2 * time.Second):
	}
}

// next waits for the next frame the client writes.
func (s *wsession) next(d time.Duration) (vframe, bool) {
	select {
	case f, ok := <-s.frames:
		return f, ok
	case <-time.After(d):
		return vframe{}, false
	}
}

func fmtFrame(f vframe) string { return fmt.Sprintf("%d:%d:%d:x%s", f.ver, f.typ, f.id, vhex(f.payload)) }
func fmtFrames(fs []vframe) string {
	parts := make([]string, len(fs))
	for i, f := range fs {
		parts[i] = fmtFrame(f)
	}
	return strings.Join(parts, ",")
}

// statusTLV is an LLRPStatus parameter (TLV 287) with an empty description, laid out by hand.
func statusTLV(code uint16) []byte {
	b := []byte{0x01, 0x1f, 0x00, 0x08, 0, 0, 0, 0}
	binary.BigEndian.PutUint16(b[4:], code)
	return b
}

func isPanic(err error) bool { return err != nil && strings.HasPrefix(err.Error(), "panic:") }

// ---- C06 ----

// c06reply: how the scripted reader reacts to one negotiation message.
type c06reply struct {
	tok     string // oracle token
	lost    bool
	over    bool
	typ     int
	payload []byte
}

func rep(typ int, payload []byte) c06reply {
	return c06reply{tok: fmt.Sprintf("%d=x%s", typ, vhex(payload)), typ: typ, payload: payload}
}
func repLost() c06reply        { return c06reply{tok: "lost", lost: true} }
func repOver(typ int) c06reply { return c06reply{tok: fmt.Sprintf("over=%d", typ), over: true, typ: typ} }

var c06post = []byte{0, 0, 0, 0, 0, 0, 0}

// c06run plays one negotiation and returns the observation in the oracle's format.
func c06run(clientMax int, r1, r2 c06reply, ka [3]bool) string {
	opts := []ClientOpt{WithVersion(VersionNum(clientMax))}
	if r1.lost || r2.lost {
		opts = append(opts, WithTimeout(400*time.Millisecond)) // without a timeout Connect never returns (C09)
	}
	s := wstart(opts...)
	defer s.stop()
	s.greet()

	var seen []vframe
	react := func(f vframe, r c06reply, kaOn bool, kaID uint32) string {
		if kaOn {
			if err := s.p.send(vframe{ver: 1, typ: 62, id: kaID}); err != nil {
				return "harness-send-failed"
			}
			a, ok := s.next(2 * time.Second)
			if !ok {
				return "timeout-ack"
			}
			seen = append(seen, a)
		}
		switch {
		case r.lost:
			s.p.c.Close()
		case r.over:
			s.p.send(vframe{ver: f.ver, typ: r.typ, id: f.id, lieLen: 10 + uint32(MaxBufferedPayloadSz) + 1})
		default:
			s.p.send(vframe{ver: f.ver, typ: r.typ, id: f.id, payload: r.payload})
		}
		return ""
	}

	result := ""
	deadline := time.After(5 * time.Second)
	frames := s.frames
loop:
	for {
		select {
		case f, ok := <-frames:
			if !ok {
				frames = nil // peer closed (lost): wait for Connect's verdict
				continue
			}
			seen = append(seen, f)
			switch f.typ {
			case 46:
				if e := react(f, r1, ka[0], 4097); e != "" {
					return e
				}
			case 47:
				if e := react(f, r2, ka[1], 4098); e != "" {
					return e
				}
			}
		case <-s.c.ready:
			result = "ok"
			break loop
		case err := <-s.connErr:
			if isPanic(err) {
				return "panic"
			}
			result = "fail"
			s.connErr <- err
			break loop
		case <-deadline:
			return "timeout"
		}
	}
	// a frame may have been queued by the reader goroutine just before the verdict
	for drained := false; !drained && frames != nil; {
		select {
		case f, ok := <-frames:
			if !ok {
				drained = true
				break
			}
			seen = append(seen, f)
		default:
			drained = true
		}
	}
	obs := fmt.Sprintf("frames=%s result=%s ver=%d post=", fmtFrames(seen), result, s.c.ver())
	if result != "ok" {
		return obs
	}
	// subsequent traffic: one request (answered), then one keep-alive
	var post []vframe
	done := make(chan error, 1)
	go func() {
		defer func() {
			if r := recover(); r != nil {
				done <- fmt.Errorf("panic: %v", r)
			}
		}()
		ctx, cancel := context.WithTimeout(context.Background(), 3*time.Second)
		defer cancel()
		_, _, err := s.c.SendMessage(ctx, MsgGetReaderConfig, c06post)
		done <- err
	}()
	f, ok := s.next(3 * time.Second)
	if !ok {
		return obs + "timeout"
	}
	post = append(post, f)
	s.p.send(vframe{ver: f.ver, typ: 12, id: f.id, payload: statusTLV(0)})
	select {
	case err := <-done:
		if isPanic(err) {
			return obs + "panic"
		}
	case <-time.After(3 * time.Second):
		return obs + "timeout"
	}
	if ka[2] {
		s.p.send(vframe{ver: 1, typ: 62, id: 4099})
		a, ok := s.next(2 * time.Second)
		if !ok {
			return obs + fmtFrames(post) + ",timeout-ack"
		}
		post = append(post, a)
	}
	return obs + fmtFrames(post)
}

func TestVerifC06(t *testing.T) {
	o := vopen(t)
	defer o.close()
	rng := &vrng{s: vseed() ^ 0xC06}
	only := os.Getenv("VERIF_C06_ONLY")

	emit := func(clientMax int, r1, r2 c06reply, ka [3]bool) {
		kf := ""
		for _, k := range ka {
			if k {
				kf += "1"
			} else {
				kf += "0"
			}
		}
		req := fmt.Sprintf("negotiate %d %s %s %s", clientMax, r1.tok, r2.tok, kf)
		if only != "" && only != req {
			return
		}
		o.line(req, c06run(clientMax, r1, r2, ka))
	}
	gsvr := func(cur, max int, status uint16) c06reply {
		return rep(56, append([]byte{byte(cur), byte(max)}, statusTLV(status)...))
	}
	noKA := [3]bool{}
	allKA := [3]bool{true, true, true}
	spvOK := rep(57, statusTLV(0))

	// step-2 reactions
	r2s := []c06reply{
		spvOK,
		rep(57, statusTLV(110)), rep(57, statusTLV(101)), rep(57, statusTLV(401)),
		rep(100, statusTLV(110)), rep(100, statusTLV(0)), // ERROR_MESSAGE is not a SetProtocolVersionResponse
		rep(56, append([]byte{2, 2}, statusTLV(0)...)), rep(4, statusTLV(0)), rep(1023, nil),
		rep(57, nil), rep(57, []byte{0x01, 0x1f, 0x00}), rep(57, append(statusTLV(0), 0xff)),
		repOver(57), repLost(),
	}
	// step-1 reactions other than success
	r1bad := []c06reply{
		gsvr(1, 2, 101), gsvr(1, 2, 110), gsvr(2, 2, 401),
		rep(100, statusTLV(110)), rep(100, statusTLV(0)), rep(100, statusTLV(100)), rep(100, statusTLV(101)), rep(100, statusTLV(401)), rep(100, statusTLV(65535)),
		rep(57, statusTLV(0)), rep(4, statusTLV(0)), rep(12, statusTLV(0)), rep(1023, nil),
		rep(56, nil), rep(56, []byte{1}), rep(56, []byte{1, 2}), rep(56, append([]byte{1, 2}, 0x01, 0x1f, 0x00)),
		rep(56, append(append([]byte{1, 2}, statusTLV(0)...), 0)), rep(100, nil), rep(100, []byte{0xde, 0xad, 0xbe, 0xef}),
		repOver(56), repOver(100), repLost(),
	}

	// 1. a client limited to 1.0.1: whatever the reader would answer, nothing is asked
	for _, ka := range [][3]bool{noKA, {false, false, true}} {
		emit(1, gsvr(1, 2, 0), spvOK, ka)
		emit(1, rep(100, statusTLV(110)), spvOK, ka)
		emit(1, repLost(), repLost(), ka)
	}
	// 2. every reader (current, max) pair in the 3-bit version space, switch accepted; with and without keep-alives
	for cur := 0; cur < 8; cur++ {
		for max := 0; max < 8; max++ {
			emit(2, gsvr(cur, max, 0), spvOK, noKA)
			if cur <= 2 && max <= 2 || vthorough() {
				emit(2, gsvr(cur, max, 0), spvOK, allKA)
			}
		}
	}
	// the shifted form an unrepaired codec would emit, and a few whole-byte values beyond 3 bits
	for _, cm := range [][2]int{{0x20, 0x40}, {0x40, 0x40}, {255, 255}, {1, 255}, {2, 128}, {128, 1}, {rng.intn(256), rng.intn(256)}} {
		emit(2, gsvr(cm[0], cm[1], 0), spvOK, noKA)
	}
	// 3. every failing / special first reaction
	for _, r1 := range r1bad {
		emit(2, r1, spvOK, noKA)
		emit(2, r1, spvOK, [3]bool{true, false, true})
	}
	// 4. every second reaction, for the readers that need a switch
	for _, cm := range [][2]int{{1, 2}, {2, 1}, {1, 7}, {0, 1}} {
		for _, r2 := range r2s {
			emit(2, gsvr(cm[0], cm[1], 0), r2, noKA)
			emit(2, gsvr(cm[0], cm[1], 0), r2, [3]bool{rng.intn(2) == 0, true, true})
		}
	}
	// 5. all keep-alive placements on the main paths
	for k := 0; k < 8; k++ {
		ka := [3]bool{k&1 != 0, k&2 != 0, k&4 != 0}
		emit(2, gsvr(1, 2, 0), spvOK, ka)
		emit(2, gsvr(2, 2, 0), spvOK, ka)
		emit(2, gsvr(1, 1, 0), spvOK, ka)
		emit(2, rep(100, statusTLV(110)), spvOK, ka)
	}
}
