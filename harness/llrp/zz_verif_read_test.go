//go:build verif

package llrp

// Shared pieces of the read-side harnesses (C04, C10): a byte-counting net.Conn, a recording ClientLogger, scripted
// message handlers, stream descriptions that the Lean oracle can rebuild, chunked writers.

import (
	"fmt"
	"io"
	"net"
	"sort"
	"strings"
	"sync"
	"sync/atomic"
	"time"
)

// vcountConn counts the bytes the client has taken from the connection.
type vcountConn struct {
	net.Conn
	n int64
}

func (c *vcountConn) Read(b []byte) (int, error) {
	n, err := c.Conn.Read(b)
	atomic.AddInt64(&c.n, int64(n))
	return n, err
}

// vbeh: what a scripted handler does with the frame: read up to k payload bytes, then return or panic; or obtain the
// payload the way the device service's handlers do: mode 'd' = msg.data(), mode 'u' = msg.UnmarshalTo(<message struct>).
type vbeh struct {
	k     int
	panic bool
	mode  byte
	slow  time.Duration // pause this long after reading half of the k bytes (a slow consumer; not part of the model)
}

func (b vbeh) String() string {
	if b.mode != 0 {
		return string(b.mode)
	}
	if b.panic {
		return fmt.Sprintf("p%d", b.k)
	}
	return fmt.Sprintf("k%d", b.k)
}

// vrdRec records what the client's read loop does, through the ClientLogger hooks and the scripted handlers.
type vrdRec struct {
	mu     sync.Mutex
	conn   *vcountConn
	frames int // number of ReceivedMsg calls so far
	cur    int // index of the frame being dispatched (the first message of the connection is frame 0)
	hdrs   []string
	deliv  []string
	unh    []string
	behs   map[int]vbeh
	base   int64 // stream offset of frame `shift` (C04 leaves the greeting out of the oracle's stream)
	shift  int
}

func (l *vrdRec) ReceivedMsg(h Header, v VersionNum) {
	l.mu.Lock()
	defer l.mu.Unlock()
	l.cur = l.frames
	l.frames++
	if l.cur < l.shift {
		return
	}
	off := atomic.LoadInt64(&l.conn.n) - 10 - l.base
	l.hdrs = append(l.hdrs, fmt.Sprintf("%d:%d:%d:%d:%d", off, h.version, h.typ, h.payloadLen, h.id))
}
func (l *vrdRec) SendingMsg(Header) {}
func (l *vrdRec) MsgHandled(Header) {}
func (l *vrdRec) MsgUnhandled(Header) {
	l.mu.Lock()
	defer l.mu.Unlock()
	l.unh = append(l.unh, fmt.Sprint(l.cur-l.shift))
}
func (l *vrdRec) HandlerPanic(Header, error) {}

const (
	fnvOff   = 2166136261
	fnvPrime = 16777619
)

func vfnv(h uint32, b []byte) uint32 {
	for _, c := range b {
		h = (h ^ uint32(c)) * fnvPrime
	}
	return h
}

// vrdHandler is a MessageHandler that follows the script of the frame being dispatched.
type vrdHandler struct {
	rec   *vrdRec
	party string // "h" registered for the type, "d" default
}

func (h *vrdHandler) HandleMessage(c *Client, msg Message) {
	l := h.rec
	l.mu.Lock()
	idx := l.cur
	b := l.behs[idx]
	l.mu.Unlock()
	took, hash := 0, uint32(fnvOff)
	if b.mode != 0 {
		var data []byte
		ok := false
		if b.mode == 'd' {
			d, err := msg.data()
			data, ok = d, err == nil
		} else {
			var v interface{ UnmarshalBinary([]byte) error } = &ROAccessReport{}
			if msg.typ.IsValid() {
				if inst := msg.typ.NewInstance(); inst != nil {
					v = inst
				}
			}
			_ = msg.UnmarshalTo(v) // a decode error is not data()'s: data() succeeded iff the payload is now a buffer
			if bp, isBuf := msg.payload.(byteProvider); isBuf && msg.payloadLen <= MaxBufferedPayloadSz {
				data, ok = bp.Bytes(), true
			}
		}
		flag := 2
		if ok {
			took, hash, flag = len(data), vfnv(fnvOff, data), 0
		}
		l.mu.Lock()
		l.deliv = append(l.deliv, fmt.Sprintf("%d:%s:%d:%d:%d", idx-l.shift, h.party, took, hash, flag))
		l.mu.Unlock()
		return
	}
	if msg.payload != nil {
		buf := make([]byte, 32768)
		paused := b.slow == 0
		for took < b.k {
			if !paused && took >= b.k/2 {
				paused = true
				time.Sleep(b.slow)
			}
			want := b.k - took
			if !paused && want > b.k/2-took && b.k/2-took > 0 {
				want = b.k/2 - took
			}
			if want > len(buf) {
				want = len(buf)
			}
			n, err := msg.payload.Read(buf[:want])
			hash = vfnv(hash, buf[:n])
			took += n
			if err != nil {
				break
			}
		}
	}
	p := 0
	if b.panic {
		p = 1
	}
	l.mu.Lock()
	l.deliv = append(l.deliv, fmt.Sprintf("%d:%s:%d:%d:%d", idx-l.shift, h.party, took, hash, p))
	l.mu.Unlock()
	if b.panic {
		panic("verif: scripted handler panic")
	}
}

// ---- stream descriptions

func vpatBytes(n, fill int) []byte {
	b := make([]byte, n)
	for j := range b {
		b[j] = byte(fill + j + j/256)
	}
	return b
}

// vstream builds a byte stream and the description the oracle rebuilds it from.
type vstream struct {
	b    []byte
	desc []string
	// offsets at which a new frame starts (used to place small chunks around boundaries)
	bounds []int
}

func (s *vstream) hex(b []byte) {
	if len(b) == 0 {
		return
	}
	s.b = append(s.b, b...)
	s.desc = append(s.desc, "x"+vhex(b))
}
func (s *vstream) pat(n, fill int) {
	if n == 0 {
		return
	}
	s.b = append(s.b, vpatBytes(n, fill)...)
	s.desc = append(s.desc, fmt.Sprintf("f%d:%d", n, fill&255))
}

// frame appends a well-formed frame with a pattern payload (or explicit payload bytes)
func (s *vstream) frame(ver, typ int, id uint32, n, fill int) {
	s.bounds = append(s.bounds, len(s.b))
	s.hex(vframe{ver: ver, typ: typ, id: id, lieLen: uint32(10 + n)}.bytes())
	s.pat(n, fill)
}
func (s *vstream) frameBytes(ver, typ int, id uint32, payload []byte) {
	s.bounds = append(s.bounds, len(s.b))
	s.hex(vframe{ver: ver, typ: typ, id: id, payload: payload}.bytes())
}
func (s *vstream) String() string {
	if len(s.desc) == 0 {
		return "-"
	}
	return strings.Join(s.desc, "+")
}

// vchunks cuts b into write sizes: tiny around frame boundaries, larger elsewhere.
func vchunks(r *vrng, b []byte, bounds []int, style int) [][]byte {
	var out [][]byte
	near := func(pos int) bool {
		i := sort.SearchInts(bounds, pos)
		for _, j := range []int{i - 1, i} {
			if j >= 0 && j < len(bounds) && pos >= bounds[j]-3 && pos < bounds[j]+12 {
				return true
			}
		}
		return false
	}
	pos := 0
	for pos < len(b) {
		var n int
		switch style {
		case 0: // everything at once
			n = len(b)
		case 1: // random: tiny near boundaries
			if near(pos) {
				n = 1 + r.intn(4)
			} else {
				n = 1 + r.intn(1<<uint(4+r.intn(14)))
			}
		case 2: // header and payload split exactly at boundaries and header end
			i := sort.SearchInts(bounds, pos+1)
			next := len(b)
			if i < len(bounds) {
				next = bounds[i]
			}
			n = next - pos
			if j := sort.SearchInts(bounds, pos); j < len(bounds) && bounds[j] == pos && n > 10 {
				n = 10
			}
		default: // fixed odd size
			n = 7 + style
		}
		if pos+n > len(b) {
			n = len(b) - pos
		}
		out = append(out, b[pos:pos+n])
		pos += n
	}
	return out
}

// ---- connection pairs

func vpipe(tcp bool) (client, peer net.Conn, err error) {
	if !tcp {
		a, b := net.Pipe()
		return a, b, nil
	}
	ln, err := net.Listen("tcp", "127.0.0.1:0")
	if err != nil {
		return nil, nil, err
	}
	defer ln.Close()
	type res struct {
		c   net.Conn
		err error
	}
	ch := make(chan res, 1)
	go func() {
		c, err := ln.Accept()
		ch <- res{c, err}
	}()
	a, err := net.DialTimeout("tcp", ln.Addr().String(), 2*time.Second)
	if err != nil {
		return nil, nil, err
	}
	r := <-ch
	if r.err != nil {
		return nil, nil, r.err
	}
	return a, r.c, nil
}

// vdrain reads the frames the client writes and hands the non-ack ones to `got`.
func vdrain(p *vpeer, got chan<- vframe) {
	for {
		f, err := p.recvNoDeadline()
		if err != nil {
			close(got)
			return
		}
		if f.typ == int(MsgKeepAliveAck) {
			continue
		}
		got <- f
	}
}

func (p *vpeer) recvNoDeadline() (vframe, error) {
	h := make([]byte, 10)
	if _, err := io.ReadFull(p.c, h); err != nil {
		return vframe{}, err
	}
	f := vframe{ver: int(h[0]>>2) & 7, typ: int(h[0]&3)<<8 | int(h[1])}
	f.id = uint32(h[6])<<24 | uint32(h[7])<<16 | uint32(h[8])<<8 | uint32(h[9])
	n := uint32(h[2])<<24 | uint32(h[3])<<16 | uint32(h[4])<<8 | uint32(h[5])
	if n < 10 {
		return f, fmt.Errorf("client wrote a header with length %d", n)
	}
	f.payload = make([]byte, n-10)
	if _, err := io.ReadFull(p.c, f.payload); err != nil {
		return f, err
	}
	return f, nil
}

func vjoin(xs []string) string {
	if len(xs) == 0 {
		return "-"
	}
	return strings.Join(xs, ",")
}

// vconnClass canonicalises Connect's result for the read-side checks
func vconnClass(err error) string {
	switch errClass(err) {
	case "nil":
		return "nil"
	case "closed":
		return "closed"
	}
	return "error"
}
