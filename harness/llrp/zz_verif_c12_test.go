//go:build verif

package llrp

import (
	"strings"
	"context"
	"errors"
	"fmt"
	"reflect"
	"testing"
	"time"
)

// TestVerifC12: SendFor against a scripted peer for (expected type, reply type, payload) triples.
// Observation: nil | status <LLRPStatus value> | err, and the caller's response value afterwards.
func TestVerifC12(t *testing.T) {
	o := vopen(t)
	defer o.close()
	s := loadSchema(t)
	rng := &vrng{s: vseed() ^ 0xC12}
	ses := vstart(true, WithVersion(Version1_0_1))
	defer ses.stop()
	// the peer must never stop reading (net.Pipe is synchronous and some replies, e.g. KeepAlive, make the client
	// write an acknowledgement): a background reader collects the client's frames
	inbox := make(chan vframe, 1024)
	go func() {
		for {
			f, err := ses.p.recv(time.Hour)
			if err != nil {
				close(inbox)
				return
			}
			inbox <- f
		}
	}()
	nextRequest := func() (vframe, bool) {
		for {
			select {
			case f, ok := <-inbox:
				if !ok {
					return vframe{}, false
				}
				if f.typ == int(MsgKeepAliveAck) {
					continue
				}
				return f, true
			case <-time.After(3 * time.Second):
				return vframe{}, false
			}
		}
	}

	stC := s.params["LLRPStatus"]
	exchange := func(exp *sContainer, replyTyp int, payload []byte) string {
		respT := MessageType(exp.TypeID)
		// any request will do: SendFor only looks at the reply's type (CloseConnection would park the write loop)
		out := MsgGetReaderCapabilities.NewInstance()
		in := respT.NewInstance()
		done := make(chan error, 1)
		ctx, cancel := context.WithTimeout(context.Background(), 3*time.Second)
		defer cancel()
		go func() {
			defer func() {
				if r := recover(); r != nil {
					done <- fmt.Errorf("panic: %v", r)
				}
			}()
			done <- ses.c.SendFor(ctx, out, in)
		}()
		f, ok := nextRequest()
		if !ok {
			return "harness-recv-failed"
		}
		if err := ses.p.send(vframe{ver: 1, typ: replyTyp, id: f.id, payload: payload}); err != nil {
			return "harness-send-failed"
		}
		var res error
		select {
		case res = <-done:
		case <-time.After(4 * time.Second):
			return "timeout"
		}
		inVal := s.fromGo(exp, reflect.ValueOf(in).Elem()).String()
		var se *StatusError
		switch {
		case res == nil:
			return "nil in=" + inVal
		case errors.As(res, &se):
			ls := LLRPStatus(*se)
			return "status " + s.fromGo(stC, reflect.ValueOf(&ls).Elem()).String() + " in=" + inVal
		case len(res.Error()) > 6 && res.Error()[:6] == "panic:":
			return "panic"
		default:
			return "err in=" + inVal
		}
	}
	check := func(exp *sContainer, replyTyp int, payload []byte) {
		obs := exchange(exp, replyTyp, payload)
		o.line(fmt.Sprintf("check-sendfor %s %d x%s %s", exp.Name, replyTyp, vhex(payload), obs), "accept")
	}

	// LLRPStatus bodies: every status code (sampled per type in quick), descriptions, nested error shapes
	statusPayload := func(code int, desc string, fe, pe bool) []byte {
		v := &gval{fs: []gf{{kind: 'n', u: uint64(code)}, {kind: 'x', bytes: []byte(desc)}}, subs: [][]*gval{nil, nil}}
		if fe {
			v.subs[0] = []*gval{{fs: []gf{{kind: 'n', u: uint64(rng.intn(65536))}, {kind: 'n', u: uint64(rng.intn(65536))}}}}
		}
		if pe {
			inner := &gval{fs: []gf{{kind: 'n', u: uint64(rng.intn(1024))}, {kind: 'n', u: uint64(rng.intn(65536))}}, subs: [][]*gval{nil, nil}}
			if rng.intn(2) == 0 {
				inner.subs[0] = []*gval{{fs: []gf{{kind: 'n', u: 289}, {kind: 'n', u: 101}}, subs: [][]*gval{nil, {{fs: []gf{{kind: 'n', u: 3}, {kind: 'n', u: 300}}}}}}}
			}
			v.subs[1] = []*gval{inner}
		}
		p := s.newGo(stC)
		s.toGo(stC, v, p.Elem())
		ph := p.Interface().(*LLRPStatus).getHeader()
		var buf bytesBuffer
		if err := encodeParams(&buf, ph); err != nil {
			t.Fatal(err)
		}
		return buf.b
	}

	var statusable []*sContainer
	var msgs []*sContainer
	for _, c := range s.all {
		if !c.IsMsg {
			continue
		}
		msgs = append(msgs, c)
		if len(c.Slots) > 0 && c.Slots[0].Ty == "LLRPStatus" && len(c.Slots) == 1 && len(c.Fields) == 0 {
			statusable = append(statusable, c)
		}
	}
	// 1. all (expected, actual) type pairs with a small valid-ish payload for the actual type.
	// KeepAlive, ROAccessReport and ReaderEventNotification are never handed to a caller as a reply (C03),
	// so SendFor never sees them: they are outside this property's domain, both as expected and as actual type.
	unsolicited := func(c *sContainer) bool {
		return c.TypeID == int(MsgKeepAlive) || c.TypeID == int(MsgROAccessReport) || c.TypeID == int(MsgReaderEventNotification)
	}
	for _, exp := range msgs {
		if unsolicited(exp) {
			continue
		}
		for _, act := range msgs {
			if unsolicited(act) {
				continue
			}
			g := &vgen{s: s, r: rng, budget: 8}
			v := g.value(act, 3)
			p := s.newGo(act)
			s.toGo(act, v, p.Elem())
			b, _ := vmarshal(p)
			check(exp, act.TypeID, b)
		}
		check(exp, 999, nil)
		check(exp, 0, nil)
	}
	// 2. every status code through simple status-only responses and ERROR_MESSAGE
	step := 1
	if !vthorough() {
		step = 7
	}
	em := s.msgs["ErrorMessage"]
	for code := 0; code < 65536; code += step {
		exp := statusable[code%len(statusable)]
		desc := ""
		if code%3 == 0 {
			desc = fmt.Sprintf("reader says %d", code)
		}
		check(exp, exp.TypeID, statusPayload(code, desc, code%5 == 0, code%11 == 0))
		check(exp, em.TypeID, statusPayload(code, desc, code%7 == 0, code%13 == 0))
	}
	for _, code := range []int{0, 1, 100, 101, 109, 110, 200, 209, 300, 301, 401, 402, 65535} {
		for _, exp := range statusable {
			check(exp, exp.TypeID, statusPayload(code, "x", true, true))
			check(exp, em.TypeID, statusPayload(code, "", false, false))
		}
	}
	// every expected type whatsoever (responses with fields before the status, with several parameters, requests,
	// messages without a status) answered by an ERROR_MESSAGE carrying each of these codes: always a status error
	for _, code := range []int{0, 100, 101, 110, 401, 65535} {
		for _, exp := range msgs {
			if unsolicited(exp) {
				continue
			}
			check(exp, em.TypeID, statusPayload(code, "", false, false))
		}
	}
	// 2b. the reader's description is whatever bytes the reader sent: multi-byte UTF-8, Latin-1 / arbitrary bytes (not valid
	// UTF-8), long, empty — the status must be exposed all the same
	descs := []string{"n\xb0 7", "\xff\xfe\x00\x80", "température élevée", "读写器错误 😀", strings.Repeat("x", 300), strings.Repeat("é", 200), "\x00", "a\x80"}
	for i := 0; i < 6; i++ {
		b := make([]byte, 1+rng.intn(40))
		for j := range b {
			b[j] = byte(rng.next())
		}
		descs = append(descs, string(b))
	}
	for _, code := range []int{0, 100, 101, 109, 401, 65535} {
		for di, d := range descs {
			exp := statusable[(code+di)%len(statusable)]
			check(exp, exp.TypeID, statusPayload(code, d, di%2 == 0, di%3 == 0))
			check(exp, em.TypeID, statusPayload(code, d, di%3 == 0, di%2 == 0))
		}
	}
	// 2c. several exchanges in flight at once, their replies arriving back to back in one write: every caller must see
	// the status of ITS reply (each exchange is one line, judged like the sequential ones)
	rounds := 12
	if vthorough() {
		rounds = 120
	}
	for round := 0; round < rounds; round++ {
		k := 2 + rng.intn(4)
		type call struct {
			exp     *sContainer
			typ     int
			payload []byte
			in      interface{}
			done    chan error
		}
		calls := make([]*call, k)
		byID := map[uint32]*call{}
		ok := true
		for i := range calls {
			exp := statusable[rng.intn(len(statusable))]
			code := []int{0, 100, 101, 109, 401, 0, 0}[rng.intn(7)]
			typ := exp.TypeID
			if rng.intn(5) == 0 {
				typ = em.TypeID
			}
			c := &call{exp: exp, typ: typ, payload: statusPayload(code, fmt.Sprintf("round %d call %d code %d", round, i, code), i%2 == 0, false),
				in: MessageType(exp.TypeID).NewInstance(), done: make(chan error, 1)}
			calls[i] = c
			ctx, cancel := context.WithTimeout(context.Background(), 3*time.Second)
			defer cancel()
			go func() {
				defer func() {
					if r := recover(); r != nil {
						c.done <- fmt.Errorf("panic: %v", r)
					}
				}()
				c.done <- ses.c.SendFor(ctx, MsgGetReaderCapabilities.NewInstance(), c.in.(Incoming))
			}()
			f, got := nextRequest() // one request at a time, so that the wire ID of each call is known
			if !got {
				ok = false
				break
			}
			byID[f.id] = c
		}
		if !ok {
			o.line("check-sendfor harness-recv-failed", "accept")
			break
		}
		var all []byte
		for id, c := range byID {
			all = append(all, vframe{ver: 1, typ: c.typ, id: id, payload: c.payload}.bytes()...)
		}
		if _, err := ses.p.c.Write(all); err != nil {
			o.line("check-sendfor harness-send-failed", "accept")
			break
		}
		for _, c := range calls {
			var res error
			obs := ""
			select {
			case res = <-c.done:
			case <-time.After(4 * time.Second):
				obs = "timeout"
			}
			if obs == "" {
				inVal := s.fromGo(c.exp, reflect.ValueOf(c.in).Elem()).String()
				var se *StatusError
				switch {
				case res == nil:
					obs = "nil in=" + inVal
				case errors.As(res, &se):
					ls := LLRPStatus(*se)
					obs = "status " + s.fromGo(stC, reflect.ValueOf(&ls).Elem()).String() + " in=" + inVal
				case len(res.Error()) > 6 && res.Error()[:6] == "panic:":
					obs = "panic"
				default:
					obs = "err in=" + inVal
				}
			}
			o.line(fmt.Sprintf("check-sendfor %s %d x%s %s", c.exp.Name, c.typ, vhex(c.payload), obs), "accept")
		}
	}
	// 3. responses with fields after/before the status (GetSupportedVersionResponse puts the status last), damaged payloads
	for _, name := range []string{"GetSupportedVersionResponse", "GetReaderCapabilitiesResponse", "GetReaderConfigResponse", "GetROSpecsResponse", "GetAccessSpecsResponse", "ClientRequestOpResponse", "CustomMessage"} {
		exp := s.msgs[name]
		for i := 0; i < 40; i++ {
			g := &vgen{s: s, r: rng, budget: 20}
			v := g.value(exp, 2)
			p := s.newGo(exp)
			s.toGo(exp, v, p.Elem())
			b, _ := vmarshal(p)
			check(exp, exp.TypeID, b)
			if len(b) > 0 {
				check(exp, exp.TypeID, b[:rng.intn(len(b))])
			}
		}
	}
	// 4. the same rules on a connection that negotiated 1.1 (the session above runs at 1.0.1): ERROR_MESSAGE replies —
	// "unsupported version" among them — to requests that carry a payload, each followed by an ordinary exchange
	ses.stop()
	ses = vstart(true)
	defer ses.stop()
	inbox = make(chan vframe, 1024)
	go func(ses *vsession, inbox chan vframe) {
		for {
			f, err := ses.p.recv(time.Hour)
			if err != nil {
				close(inbox)
				return
			}
			inbox <- f
		}
	}(ses, inbox)
	negotiated := false
	if f, ok := nextRequest(); ok && f.typ == int(MsgGetSupportedVersion) {
		_ = ses.p.send(vframe{ver: 2, typ: int(MsgGetSupportedVersionResponse), id: f.id, payload: append([]byte{1, 2}, statusPayload(0, "", false, false)...)})
		if f2, ok := nextRequest(); ok && f2.typ == int(MsgSetProtocolVersion) {
			_ = ses.p.send(vframe{ver: 2, typ: int(MsgSetProtocolVersionResponse), id: f2.id, payload: statusPayload(0, "", false, false)})
			negotiated = true
		}
	}
	if !negotiated {
		o.line("check-sendfor harness-negotiation-failed", "accept")
		return
	}
	for _, code := range []int{110, 0, 100, 401, 110} {
		for k := 0; k < 4; k++ {
			exp := statusable[(code+k)%len(statusable)]
			check(exp, em.TypeID, statusPayload(code, "v1.1", k%2 == 0, false))
			check(exp, exp.TypeID, statusPayload(0, "", false, false))
		}
	}
}

type bytesBuffer struct{ b []byte }

func (w *bytesBuffer) Write(p []byte) (int, error) { w.b = append(w.b, p...); return len(p), nil }
