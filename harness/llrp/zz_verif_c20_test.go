//go:build verif

package llrp

// C20 — concurrency scenarios of the Client, meant to be run from a test binary built with -race.
//
// One scenario per process (VERIF_C20_SCENARIO): a detector report, a crash or a hang of one scenario cannot hide
// the others. The runner (checks/c20.py) captures the process output; a "WARNING: DATA RACE" report is a concrete
// failing schedule and becomes the replay. A scenario that survives all its iterations writes
// "race-scenario <name> …\tclean"; functional hangs are written as "timeout".
//
// The peer is a minimal hand-written goroutine pair that only uses the connection (the repo's TestDevice has a
// documented benign race of its own and is out of scope). Frames are built by hand (10-byte header); payloads of
// the few messages the client decodes are produced once with the package's marshalers.

import (
	"context"
	"encoding/binary"
	"errors"
	"fmt"
	"io"
	"net"
	"os"
	"strconv"
	"sync"
	"sync/atomic"
	"testing"
	"time"
)

// ---------------------------------------------------------------- model self-test lines (oracle sanity)

func c20SelfTest(o *vout) {
	// hand-made traces with the verdict a reader of the Go memory model expects
	cases := [][2]string{
		{"fork:0:1 wr:0:7 wr:1:7", "race 1-2"},
		{"wr:0:7 fork:0:1 rd:1:7", "clean"},
		{"fork:0:1 acq:0:0 wr:0:1 rel:0:0 acq:1:0 rd:1:1 rel:1:0", "clean"},
		{"fork:0:1 acq:0:0 wr:0:1 rel:0:0 rd:1:1", "race 2-4"},
		{"fork:0:1 racq:0:0 rd:0:1 rrel:0:0 acq:1:0 wr:1:1 rel:1:0", "clean"},
		{"fork:0:1 racq:0:0 wr:0:1 rrel:0:0 racq:1:0 wr:1:1 rrel:1:0", "race 2-5"},
		{"fork:0:1 awr:0:3 ard:1:3", "clean"},
		{"fork:0:1 awr:0:3 rd:1:3", "race 1-2"},
		{"fork:0:1 wr:1:4 join:0:1 rd:0:4", "clean"},
		{"fork:0:1 wr:0:4 send:0:0:0 recv:1:0:0 rd:1:4", "clean"},
		{"fork:0:1 wr:0:4 close:0:0 rclosed:1:0 rd:1:4", "clean"},
		{"fork:0:1 send:0:0:0 wr:0:4 recv:1:0:0 rd:1:4", "race 2-4"}, // the write follows the send: not ordered
		{"fork:0:1 send:0:0:0 recv:1:0:0 wr:0:4 rd:1:4", "race 3-4"},
		{"acq:0:0 acq:1:0", "illformed"},
		{"recv:0:0:0", "illformed"},
		{"wr:1:0 fork:0:1", "illformed"},
		// the Client.version schedule: keep-alive during negotiation (see LLRP.C20.versionTr)
		{"fork:0:1 fork:0:2 send:0:0:0 recv:2:0:0 send:1:1:0 recv:0:1:0 rd:1:9 send:1:2:0 wr:0:9 recv:2:2:0 rd:2:9", "race 6-8 8-10"},
		{"fork:0:1 fork:0:2 send:0:0:0 recv:2:0:0 send:1:1:0 recv:0:1:0 ard:1:9 send:1:2:0 awr:0:9 recv:2:2:0 ard:2:9", "clean"},
	}
	for _, c := range cases {
		o.line("race-check "+c[0], c[1])
	}
}

// ---------------------------------------------------------------- scripted peer

type c20Frame struct {
	ver     uint8
	typ     MessageType
	id      uint32
	payload []byte
}

type c20Peer struct {
	conn net.Conn
	wmu  sync.Mutex
	in   chan c20Frame // frames received from the client
	acks int32
	dead error // first write error (guarded by wmu)
}

func newC20Peer(conn net.Conn) *c20Peer {
	p := &c20Peer{conn: conn, in: make(chan c20Frame, 256)}
	go p.readLoop()
	return p
}

func (p *c20Peer) readLoop() {
	defer close(p.in)
	hdr := make([]byte, 10)
	for {
		_ = p.conn.SetReadDeadline(time.Now().Add(10 * time.Second))
		if _, err := io.ReadFull(p.conn, hdr); err != nil {
			return
		}
		w := binary.BigEndian.Uint16(hdr[0:2])
		l := binary.BigEndian.Uint32(hdr[2:6])
		f := c20Frame{ver: uint8(w>>10) & 7, typ: MessageType(w & 0x3ff), id: binary.BigEndian.Uint32(hdr[6:10])}
		if l < 10 || l > 1<<20 {
			return
		}
		f.payload = make([]byte, l-10)
		if _, err := io.ReadFull(p.conn, f.payload); err != nil {
			return
		}
		if f.typ == MsgKeepAliveAck {
			atomic.AddInt32(&p.acks, 1)
			continue
		}
		select {
		case p.in <- f:
		default: // never block the connection
		}
	}
}

func (p *c20Peer) write(ver uint8, typ MessageType, id uint32, payload []byte) error {
	buf := make([]byte, 10+len(payload))
	binary.BigEndian.PutUint16(buf[0:2], uint16(ver)<<10|uint16(typ))
	binary.BigEndian.PutUint32(buf[2:6], uint32(10+len(payload)))
	binary.BigEndian.PutUint32(buf[6:10], id)
	copy(buf[10:], payload)
	p.wmu.Lock()
	defer p.wmu.Unlock()
	if p.dead != nil {
		return p.dead // the client stopped reading: do not wait for the deadline again
	}
	_ = p.conn.SetWriteDeadline(time.Now().Add(1500 * time.Millisecond))
	_, err := p.conn.Write(buf)
	if err != nil {
		p.dead = err
	}
	return err
}

type c20Payloads struct {
	connect, gsvUnsupported, gsvFail, gsv101, gsv11cur101, gsv11, spvOK, closeOK, errOK, report []byte
}

var c20P = func() c20Payloads {
	must := func(b []byte, err error) []byte {
		if err != nil {
			panic(err)
		}
		return b
	}
	ok := LLRPStatus{Status: StatusSuccess}
	epc := EPC96{EPC: make([]byte, 12)}
	return c20Payloads{
		connect:        must(NewConnectMessage(ConnSuccess).MarshalBinary()),
		gsvUnsupported: must((&ErrorMessage{LLRPStatus: LLRPStatus{Status: StatusMsgVerUnsupported}}).MarshalBinary()),
		gsvFail:        must((&ErrorMessage{LLRPStatus: LLRPStatus{Status: StatusDeviceError}}).MarshalBinary()),
		gsv101:         must((&GetSupportedVersionResponse{CurrentVersion: Version1_0_1, MaxSupportedVersion: Version1_0_1, LLRPStatus: ok}).MarshalBinary()),
		gsv11cur101:    must((&GetSupportedVersionResponse{CurrentVersion: Version1_0_1, MaxSupportedVersion: Version1_1, LLRPStatus: ok}).MarshalBinary()),
		gsv11:          must((&GetSupportedVersionResponse{CurrentVersion: Version1_1, MaxSupportedVersion: Version1_1, LLRPStatus: ok}).MarshalBinary()),
		spvOK:          must((&SetProtocolVersionResponse{LLRPStatus: ok}).MarshalBinary()),
		closeOK:        must((&CloseConnectionResponse{LLRPStatus: ok}).MarshalBinary()),
		errOK:          must((&ErrorMessage{LLRPStatus: ok}).MarshalBinary()),
		report:         must((&ROAccessReport{TagReportData: []TagReportData{{EPC96: epc}, {EPC96: epc}}}).MarshalBinary()),
	}
}()

// serve answers the client's requests until the connection ends. gsv selects the answer to GetSupportedVersion;
// replies to ordinary requests are delayed by a random few microseconds each, in their own goroutine, so they
// arrive permuted.
func (p *c20Peer) serve(rng *vrng, gsvTyp MessageType, gsv []byte, gsvDelay time.Duration, wg *sync.WaitGroup) {
	defer wg.Done()
	var rmu sync.Mutex
	for f := range p.in {
		switch f.typ {
		case MsgGetSupportedVersion:
			time.Sleep(gsvDelay)
			_ = p.write(f.ver, gsvTyp, f.id, gsv)
		case MsgSetProtocolVersion:
			_ = p.write(f.ver, MsgSetProtocolVersionResponse, f.id, c20P.spvOK)
		case MsgCloseConnection:
			_ = p.write(f.ver, MsgCloseConnectionResponse, f.id, c20P.closeOK)
		default:
			rmu.Lock()
			d := time.Duration(rng.intn(300)) * time.Microsecond
			rmu.Unlock()
			f := f
			wg.Add(1)
			go func() {
				defer wg.Done()
				time.Sleep(d)
				_ = p.write(f.ver, MsgErrorMessage, f.id, c20P.errOK)
			}()
		}
	}
}

// ---------------------------------------------------------------- scenario plumbing

type c20Run struct {
	client   *Client
	peer     *c20Peer
	cConn    net.Conn
	pConn    net.Conn
	connErr  chan error
	peerWG   sync.WaitGroup
	finished bool
}

func c20Pair(loop bool) (net.Conn, net.Conn, error) {
	if !loop {
		a, b := net.Pipe()
		return a, b, nil
	}
	ln, err := net.Listen("tcp", "127.0.0.1:0")
	if err != nil {
		return nil, nil, err
	}
	defer ln.Close()
	type res struct {
		c   net.Conn
		err error
	}
	ch := make(chan res, 1)
	go func() { c, err := ln.Accept(); ch <- res{c, err} }()
	a, err := net.DialTimeout("tcp", ln.Addr().String(), 3*time.Second)
	if err != nil {
		return nil, nil, err
	}
	r := <-ch
	if r.err != nil {
		a.Close()
		return nil, nil, r.err
	}
	return a, r.c, nil
}

// start connects a client to a scripted peer: initial ReaderEventNotification, then `serve`.
func c20Start(rng *vrng, opts []ClientOpt, gsvTyp MessageType, gsv []byte, gsvDelay time.Duration) (*c20Run, error) {
	cConn, pConn, err := c20Pair(rng.intn(4) == 0)
	if err != nil {
		return nil, err
	}
	r := &c20Run{cConn: cConn, pConn: pConn, connErr: make(chan error, 1)}
	r.client = NewClient(opts...)
	r.peer = newC20Peer(pConn)
	r.peerWG.Add(1)
	go r.peer.serve(&vrng{s: rng.next()}, gsvTyp, gsv, gsvDelay, &r.peerWG)
	go func() { r.connErr <- r.client.Connect(cConn) }()
	if err := r.peer.write(1, MsgReaderEventNotification, 0, c20P.connect); err != nil {
		r.stop()
		return nil, err
	}
	return r, nil
}

func (r *c20Run) waitReady(d time.Duration) bool {
	select {
	case <-r.client.ready:
		return true
	case <-time.After(d):
		return false
	}
}

// stop closes everything and waits (bounded) for Connect and the peer to end; reports a hang as false.
func (r *c20Run) stop() bool {
	_ = r.client.Close()
	r.cConn.Close()
	r.pConn.Close()
	ok := true
	select {
	case <-r.connErr:
	case <-time.After(5 * time.Second):
		c20Stage = "connect-did-not-return"
		ok = false
	}
	done := make(chan struct{})
	go func() { r.peerWG.Wait(); close(done) }()
	select {
	case <-done:
	case <-time.After(5 * time.Second):
		c20Stage = "peer-did-not-end"
		ok = false
	}
	return ok
}

var c20Stage = ""

// finish waits for the worker groups `before` (while the connection is alive), stops the run, then waits for `after`.
func (r *c20Run) finish(res string, before1, before2, after *sync.WaitGroup) string {
	for _, wg := range []*sync.WaitGroup{before1, before2} {
		if wg != nil && !c20Wait(wg, 10*time.Second) {
			res = "timeout"
		}
	}
	if !r.stop() {
		res = "timeout"
	}
	if after != nil && !c20Wait(after, 5*time.Second) {
		res = "timeout"
	}
	return res
}

func c20Sleep(rng *vrng, maxMicros int) {
	if n := rng.intn(maxMicros + 1); n > 0 {
		time.Sleep(time.Duration(n) * time.Microsecond)
	}
}

// keepAlives sends n KeepAlive frames with random gaps; returns when all are written or the connection ends.
func (r *c20Run) keepAlives(rng *vrng, n int, gap int, base uint32, wg *sync.WaitGroup) {
	defer wg.Done()
	for k := 0; k < n; k++ {
		if r.peer.write(1, MsgKeepAlive, base+uint32(k), nil) != nil {
			return
		}
		c20Sleep(rng, gap)
	}
}

func (r *c20Run) reports(rng *vrng, n int, gap int, wg *sync.WaitGroup) {
	defer wg.Done()
	for k := 0; k < n; k++ {
		if r.peer.write(1, MsgROAccessReport, 5000+uint32(k), c20P.report) != nil {
			return
		}
		c20Sleep(rng, gap)
	}
}

// senders: n callers, each sending m requests; a third of the calls is cancelled after a random short delay.
func (r *c20Run) senders(rng *vrng, n, m int, wg *sync.WaitGroup, stats *[3]int32) {
	for i := 0; i < n; i++ {
		crng := &vrng{s: rng.next()}
		wg.Add(1)
		go func() {
			defer wg.Done()
			for k := 0; k < m; k++ {
				ctx, cancel := context.WithTimeout(context.Background(), 3*time.Second)
				if crng.intn(3) == 0 {
					d := time.Duration(crng.intn(400)) * time.Microsecond
					go func() { time.Sleep(d); cancel() }()
				}
				var payload []byte
				if crng.intn(2) == 0 {
					payload = make([]byte, 1+crng.intn(64))
				}
				_, _, err := r.client.SendMessage(ctx, MsgGetReaderConfig, payload)
				cancel()
				switch {
				case err == nil:
					atomic.AddInt32(&stats[0], 1)
				case errors.Is(err, context.Canceled) || errors.Is(err, context.DeadlineExceeded):
					atomic.AddInt32(&stats[1], 1)
				default:
					atomic.AddInt32(&stats[2], 1)
				}
			}
		}()
	}
}

type c20Logger struct{ n int32 }

func (l *c20Logger) ReceivedMsg(h Header, v VersionNum) { atomic.AddInt32(&l.n, int32(v)) }
func (l *c20Logger) SendingMsg(Header)                  { atomic.AddInt32(&l.n, 1) }
func (l *c20Logger) MsgHandled(Header)                  { atomic.AddInt32(&l.n, 1) }
func (l *c20Logger) MsgUnhandled(Header)                { atomic.AddInt32(&l.n, 1) }
func (l *c20Logger) HandlerPanic(Header, error)         { atomic.AddInt32(&l.n, 1) }

func c20Wait(wg *sync.WaitGroup, d time.Duration) bool {
	done := make(chan struct{})
	go func() { wg.Wait(); close(done) }()
	select {
	case <-done:
		return true
	case <-time.After(d):
		c20Stage = "workers-did-not-end"
		return false
	}
}

// ---------------------------------------------------------------- scenarios (one iteration each)

// (a) keep-alives arrive while the version is being negotiated
func c20NegKeepAlive(rng *vrng) string {
	gsvTyp, gsv := MsgGetSupportedVersionResponse, c20P.gsv101
	switch rng.intn(4) {
	case 0:
		gsvTyp, gsv = MsgErrorMessage, c20P.gsvUnsupported // a 1.0.1 reader: client falls back to 1.0.1
	case 1: // reader max 1.0.1
	case 2:
		gsv = c20P.gsv11cur101 // reader max 1.1, currently 1.0.1: SetProtocolVersion follows
	case 3:
		gsv = c20P.gsv11
	}
	opts := []ClientOpt{WithLogger(&c20Logger{}), WithTimeout(4 * time.Second)}
	r, err := c20Start(rng, opts, gsvTyp, gsv, time.Duration(rng.intn(500))*time.Microsecond)
	if err != nil {
		return "setup-error"
	}
	var pw, cw sync.WaitGroup
	pw.Add(1)
	go r.keepAlives(&vrng{s: rng.next()}, 4+rng.intn(5), 150, 1000, &pw)
	res := "clean"
	if !r.waitReady(5 * time.Second) {
		res = "timeout"
		c20Stage = "not-ready"
	} else {
		var stats [3]int32
		r.senders(rng, 2, 2, &cw, &stats)
	}
	return r.finish(res, &pw, &cw, nil)
}

// (b) many callers send concurrently, replies arrive permuted, some callers cancel
func c20Senders(rng *vrng) string {
	opts := []ClientOpt{WithLogger(nil), WithTimeout(4 * time.Second)}
	if rng.intn(2) == 0 {
		opts = append(opts, WithVersion(Version1_0_1))
	}
	r, err := c20Start(rng, opts, MsgGetSupportedVersionResponse, c20P.gsv11cur101, 0)
	if err != nil {
		return "setup-error"
	}
	var pw, cw sync.WaitGroup
	var stats [3]int32
	r.senders(rng, 4+rng.intn(8), 3, &cw, &stats)
	pw.Add(1)
	go r.keepAlives(&vrng{s: rng.next()}, 3, 300, 2000, &pw)
	return r.finish("clean", &pw, &cw, nil)
}

// (c) Close and Shutdown race with senders and with incoming traffic
func c20CloseShutdown(rng *vrng) string {
	opts := []ClientOpt{WithLogger(nil), WithTimeout(4 * time.Second)}
	if rng.intn(2) == 0 {
		opts = append(opts, WithVersion(Version1_0_1))
	}
	r, err := c20Start(rng, opts, MsgErrorMessage, c20P.gsvUnsupported, time.Duration(rng.intn(200))*time.Microsecond)
	if err != nil {
		return "setup-error"
	}
	var pw, cw sync.WaitGroup
	var stats [3]int32
	r.senders(rng, 3+rng.intn(4), 3, &cw, &stats)
	pw.Add(2)
	go r.keepAlives(&vrng{s: rng.next()}, 6, 200, 3000, &pw)
	go r.reports(&vrng{s: rng.next()}, 6, 200, &pw)
	closers := 1 + rng.intn(3)
	for i := 0; i < closers; i++ {
		crng := &vrng{s: rng.next()}
		cw.Add(1)
		go func() {
			defer cw.Done()
			c20Sleep(crng, 1500)
			if crng.intn(2) == 0 {
				ctx, cancel := context.WithTimeout(context.Background(), 500*time.Millisecond)
				_ = r.client.Shutdown(ctx)
				cancel()
			} else {
				_ = r.client.Close()
			}
		}()
	}
	// the client goes away under the peer's feet: first the client-side workers, then close, then the peer's writers
	return r.finish("clean", &cw, nil, &pw)
}

// (d) handlers read report payloads (sometimes partially, sometimes panicking) while senders run
func c20Handlers(rng *vrng) string {
	var seen, other int32
	mode := rng.intn(3)
	h := MessageHandlerFunc(func(c *Client, msg Message) {
		n := atomic.AddInt32(&seen, 1)
		switch mode {
		case 0:
			rep := &ROAccessReport{}
			_ = msg.UnmarshalTo(rep)
		case 1:
			b := make([]byte, 7)
			_, _ = io.ReadFull(msg.payload, b) // leaves the rest to be drained by the client
		default:
			if n%2 == 0 {
				panic(fmt.Errorf("handler %d gives up", n))
			}
		}
	})
	def := MessageHandlerFunc(func(c *Client, msg Message) { atomic.AddInt32(&other, 1) })
	opts := []ClientOpt{WithLogger(&c20Logger{}), WithTimeout(4 * time.Second), WithMessageHandler(MsgROAccessReport, h), WithDefaultHandler(def)}
	r, err := c20Start(rng, opts, MsgGetSupportedVersionResponse, c20P.gsv101, time.Duration(rng.intn(200))*time.Microsecond)
	if err != nil {
		return "setup-error"
	}
	var pw, cw sync.WaitGroup
	var stats [3]int32
	pw.Add(2)
	go r.reports(&vrng{s: rng.next()}, 8, 100, &pw)
	go r.keepAlives(&vrng{s: rng.next()}, 4, 200, 4000, &pw)
	r.senders(rng, 4, 3, &cw, &stats)
	return r.finish("clean", &pw, &cw, nil)
}

// (e) negotiation fails (reader answers GetSupportedVersion with an error status) while keep-alives keep
// arriving; the client has no logger configured, so Connect installs — and on return removes — the default one.
func c20NegFail(rng *vrng) string {
	opts := []ClientOpt{WithTimeout(2 * time.Second)}
	r, err := c20Start(rng, opts, MsgErrorMessage, c20P.gsvFail, time.Duration(rng.intn(300))*time.Microsecond)
	if err != nil {
		return "setup-error"
	}
	var pw sync.WaitGroup
	pw.Add(1)
	go r.keepAlives(&vrng{s: rng.next()}, 10, 100, 6000, &pw)
	res := "clean"
	select {
	case <-r.connErr: // Connect returns the negotiation error while the read and write loops may still run
		r.connErr <- nil
	case <-time.After(5 * time.Second):
		res = "timeout"
		c20Stage = "connect-did-not-return"
	}
	c20Sleep(rng, 2000)
	return r.finish(res, nil, nil, &pw)
}

var c20Scenarios = map[string]func(*vrng) string{
	"neg-keepalive":  c20NegKeepAlive,
	"senders":        c20Senders,
	"close-shutdown": c20CloseShutdown,
	"handlers":       c20Handlers,
	"neg-fail":       c20NegFail,
}

func TestVerifC20(t *testing.T) {
	o := vopen(t)
	defer o.close()
	name := os.Getenv("VERIF_C20_SCENARIO")
	if name == "" || name == "selftest" {
		c20SelfTest(o)
		return
	}
	sc, ok := c20Scenarios[name]
	if !ok {
		t.Fatalf("unknown scenario %q", name)
	}
	iters, _ := strconv.Atoi(os.Getenv("VERIF_C20_ITERS"))
	if iters <= 0 {
		iters = 100
	}
	// the default client logger writes to os.Stderr; keep the detector's output (written to fd 2 by the runtime) readable
	if devnull, err := os.OpenFile(os.DevNull, os.O_WRONLY, 0); err == nil {
		os.Stderr = devnull
	}
	h := uint64(0)
	for _, c := range name {
		h = h*131 + uint64(c)
	}
	rng := &vrng{s: vseed() ^ h}
	res := "clean"
	n := 0
	deadline := time.Now().Add(100 * time.Second)
	for ; n < iters && time.Now().Before(deadline); n++ {
		if r := sc(rng); r != "clean" {
			res = r
			break
		}
	}
	if res != "clean" && c20Stage != "" {
		res += " " + c20Stage
	}
	o.line(fmt.Sprintf("race-scenario %s iters=%d", name, n), res)
}
