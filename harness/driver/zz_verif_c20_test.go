//go:build verif

package driver

// C20, device side — LLRPDevice supervisor and Driver under the race detector: reconnects (the scripted reader drops
// connections), address updates between two listeners, concurrent TrySend, lookups, RemoveDevice/Stop; once per
// process Driver.Stop; in the thorough tier the debounced discovery triggered by configuration updates.
// One scenario per process, chosen with VERIF_C20_SCENARIO (see checks/c20.py).

import (
	"context"
	"encoding/binary"
	"fmt"
	"io"
	"net"
	"os"
	"strconv"
	"sync"
	"sync/atomic"
	"testing"
	"time"

	"github.com/edgexfoundry/device-rfid-llrp-go/pkg/llrp"
	dsModels "github.com/edgexfoundry/device-sdk-go/v4/pkg/models"
	"github.com/edgexfoundry/go-mod-core-contracts/v4/clients/logger"
	contract "github.com/edgexfoundry/go-mod-core-contracts/v4/models"
	"github.com/stretchr/testify/mock"
)

type c20Reader struct {
	ln      net.Listener
	mu      sync.Mutex
	conns   map[net.Conn]bool
	accepts int32
	wg      sync.WaitGroup
}

var c20Pay = func() (p struct{ connect, unsupported, setCfg, getCfg, closeOK, report []byte }) {
	must := func(b []byte, err error) []byte {
		if err != nil {
			panic(err)
		}
		return b
	}
	ok := llrp.LLRPStatus{Status: llrp.StatusSuccess}
	p.connect = must(llrp.NewConnectMessage(llrp.ConnSuccess).MarshalBinary())
	p.unsupported = must((&llrp.ErrorMessage{LLRPStatus: llrp.LLRPStatus{Status: llrp.StatusMsgVerUnsupported}}).MarshalBinary())
	p.setCfg = must((&llrp.SetReaderConfigResponse{LLRPStatus: ok}).MarshalBinary())
	p.getCfg = must((&llrp.GetReaderConfigResponse{LLRPStatus: ok}).MarshalBinary())
	p.closeOK = must((&llrp.CloseConnectionResponse{LLRPStatus: ok}).MarshalBinary())
	p.report = must((&llrp.ROAccessReport{TagReportData: []llrp.TagReportData{{EPC96: llrp.EPC96{EPC: make([]byte, 12)}}}}).MarshalBinary())
	return
}()

func newC20Reader() (*c20Reader, error) {
	ln, err := net.Listen("tcp", "127.0.0.1:0")
	if err != nil {
		return nil, err
	}
	r := &c20Reader{ln: ln, conns: map[net.Conn]bool{}}
	r.wg.Add(1)
	go func() {
		defer r.wg.Done()
		for {
			c, err := ln.Accept()
			if err != nil {
				return
			}
			atomic.AddInt32(&r.accepts, 1)
			r.mu.Lock()
			r.conns[c] = true
			r.mu.Unlock()
			r.wg.Add(1)
			go r.serve(c)
		}
	}()
	return r, nil
}

func c20Write(c net.Conn, wmu *sync.Mutex, typ llrp.MessageType, id uint32, payload []byte) error {
	buf := make([]byte, 10+len(payload))
	binary.BigEndian.PutUint16(buf[0:2], 1<<10|uint16(typ))
	binary.BigEndian.PutUint32(buf[2:6], uint32(10+len(payload)))
	binary.BigEndian.PutUint32(buf[6:10], id)
	copy(buf[10:], payload)
	wmu.Lock()
	defer wmu.Unlock()
	_ = c.SetWriteDeadline(time.Now().Add(2 * time.Second))
	_, err := c.Write(buf)
	return err
}

func (r *c20Reader) serve(c net.Conn) {
	defer r.wg.Done()
	defer func() {
		c.Close()
		r.mu.Lock()
		delete(r.conns, c)
		r.mu.Unlock()
	}()
	var wmu sync.Mutex
	if c20Write(c, &wmu, llrp.MsgReaderEventNotification, 0, c20Pay.connect) != nil {
		return
	}
	stop := make(chan struct{})
	defer close(stop)
	go func() { // unsolicited traffic
		for k := uint32(0); ; k++ {
			select {
			case <-stop:
				return
			case <-time.After(3 * time.Millisecond):
			}
			typ, pl := llrp.MsgKeepAlive, []byte(nil)
			if k%2 == 1 {
				typ, pl = llrp.MsgROAccessReport, c20Pay.report
			}
			if c20Write(c, &wmu, typ, 7000+k, pl) != nil {
				return
			}
		}
	}()
	hdr := make([]byte, 10)
	for {
		_ = c.SetReadDeadline(time.Now().Add(20 * time.Second))
		if _, err := io.ReadFull(c, hdr); err != nil {
			return
		}
		typ := llrp.MessageType(binary.BigEndian.Uint16(hdr[0:2]) & 0x3ff)
		l := binary.BigEndian.Uint32(hdr[2:6])
		id := binary.BigEndian.Uint32(hdr[6:10])
		if l < 10 || l > 1<<20 {
			return
		}
		if _, err := io.CopyN(io.Discard, c, int64(l-10)); err != nil {
			return
		}
		var err error
		switch typ {
		case llrp.MsgKeepAliveAck:
		case llrp.MsgGetSupportedVersion:
			err = c20Write(c, &wmu, llrp.MsgErrorMessage, id, c20Pay.unsupported)
		case llrp.MsgSetReaderConfig:
			err = c20Write(c, &wmu, llrp.MsgSetReaderConfigResponse, id, c20Pay.setCfg)
		case llrp.MsgGetReaderConfig:
			err = c20Write(c, &wmu, llrp.MsgGetReaderConfigResponse, id, c20Pay.getCfg)
		case llrp.MsgCloseConnection:
			_ = c20Write(c, &wmu, llrp.MsgCloseConnectionResponse, id, c20Pay.closeOK)
			return
		default:
			err = c20Write(c, &wmu, llrp.MsgErrorMessage, id, c20Pay.unsupported)
		}
		if err != nil {
			return
		}
	}
}

// drop closes every open connection of the reader (the supervisor has to reconnect)
func (r *c20Reader) drop() {
	r.mu.Lock()
	defer r.mu.Unlock()
	for c := range r.conns {
		c.Close()
	}
}

func (r *c20Reader) close() {
	r.ln.Close()
	r.drop()
	done := make(chan struct{})
	go func() { r.wg.Wait(); close(done) }()
	select {
	case <-done:
	case <-time.After(5 * time.Second):
	}
}

func (r *c20Reader) proto() protocolMap {
	a := r.ln.Addr().(*net.TCPAddr)
	return protocolMap{"tcp": {"host": "127.0.0.1", "port": strconv.Itoa(a.Port)}}
}

func c20WaitWG(wg *sync.WaitGroup, d time.Duration) bool {
	done := make(chan struct{})
	go func() { wg.Wait(); close(done) }()
	select {
	case <-done:
		return true
	case <-time.After(d):
		return false
	}
}

var c20Stage = ""

// one life of a device: create, talk, move between two readers, lose connections, remove
func c20DeviceLife(d *Driver, rng *vrng, it int, r1, r2 *c20Reader) string {
	name := fmt.Sprintf("c20dev%d", it)
	dev, _, err := d.getDevice(name, r1.proto())
	if err != nil {
		return "setup-error"
	}
	var wg sync.WaitGroup
	for i := 0; i < 2; i++ {
		wg.Add(1)
		go func() { // callers
			defer wg.Done()
			for k := 0; k < 3; k++ {
				ctx, cancel := context.WithTimeout(context.Background(), 1500*time.Millisecond)
				_ = dev.TrySend(ctx, &llrp.GetReaderConfig{}, &llrp.GetReaderConfigResponse{})
				cancel()
			}
		}()
	}
	d1, d2, d3 := time.Duration(rng.intn(30))*time.Millisecond, time.Duration(rng.intn(30))*time.Millisecond, time.Duration(rng.intn(40))*time.Millisecond
	wg.Add(1)
	go func() { // address updates: to the other reader and back
		defer wg.Done()
		time.Sleep(d1)
		_ = d.UpdateDevice(name, r2.proto(), contract.Unlocked)
		time.Sleep(d2)
		_ = d.UpdateDevice(name, r1.proto(), contract.Unlocked)
	}()
	wg.Add(1)
	go func() { // the reader drops the connection: supervisor reconnects
		defer wg.Done()
		time.Sleep(d3)
		r1.drop()
	}()
	wg.Add(1)
	go func() { // lookups
		defer wg.Done()
		for k := 0; k < 20; k++ {
			_, _, _ = d.getDevice(name, r1.proto())
			time.Sleep(time.Millisecond)
		}
	}()
	res := "clean"
	if !c20WaitWG(&wg, 45*time.Second) {
		c20Stage = "workers-did-not-end"
		res = "timeout"
	}
	// removal races with a late sender and a late address update
	var wg2 sync.WaitGroup
	wg2.Add(3)
	go func() { defer wg2.Done(); _ = d.RemoveDevice(name, nil) }()
	go func() {
		defer wg2.Done()
		ctx, cancel := context.WithTimeout(context.Background(), 500*time.Millisecond)
		defer cancel()
		_ = dev.TrySend(ctx, &llrp.GetReaderConfig{}, &llrp.GetReaderConfigResponse{})
	}()
	go func() {
		defer wg2.Done()
		ctx, cancel := context.WithTimeout(context.Background(), 500*time.Millisecond)
		defer cancel()
		a := r2.ln.Addr()
		_ = dev.UpdateAddr(ctx, a)
	}()
	// Not a race matter, so not judged here: a stale onConnect goroutine of a dropped connection can hold clientLock
	// for up to 2 x sendTimeout (TrySend, then resetConn -> Shutdown on a client that never connects), and Stop /
	// UpdateAddr queue behind it. Stragglers keep running (still watched by the detector) while the next device starts.
	_ = c20WaitWG(&wg2, 3*time.Second)
	return res
}

func TestVerifC20Driver(t *testing.T) {
	o := vopen(t)
	defer o.close()
	name := os.Getenv("VERIF_C20_SCENARIO")
	iters, _ := strconv.Atoi(os.Getenv("VERIF_C20_ITERS"))
	if iters <= 0 {
		iters = 5
	}
	d := Instance()
	// the package's TestMain installed the SDK mock and a logger; complete it for the paths used here
	d.lc = logger.NewClient("c20", "ERROR")
	svc.On("UpdateDeviceOperatingState", mock.Anything, mock.Anything).Return(nil)
	async := make(chan *dsModels.AsyncValues, 64)
	discovered := make(chan []dsModels.DiscoveredDevice, 4)
	d.asyncCh = async
	d.deviceCh = discovered
	d.config = &ServiceConfig{}
	var events int32
	go func() {
		for range async {
			atomic.AddInt32(&events, 1)
		}
	}()
	var discoveries int32
	go func() {
		for range discovered {
			atomic.AddInt32(&discoveries, 1)
		}
	}()
	rng := &vrng{s: vseed()}
	res := "clean"
	n := 0
	switch name {
	case "device-lifecycle":
		r1, err1 := newC20Reader()
		r2, err2 := newC20Reader()
		if err1 != nil || err2 != nil {
			t.Fatal(err1, err2)
		}
		deadline := time.Now().Add(100 * time.Second)
		for ; n < iters && time.Now().Before(deadline); n++ {
			if r := c20DeviceLife(d, rng, n, r1, r2); r != "clean" {
				res = r
				break
			}
		}
		// once per process: Driver.Stop with live devices
		for k := 0; k < 3; k++ {
			_, _, _ = d.getDevice(fmt.Sprintf("c20stop%d", k), r1.proto())
		}
		time.Sleep(20 * time.Millisecond)
		stopped := make(chan struct{})
		go func() { _ = d.Stop(false); close(stopped) }()
		select {
		case <-stopped:
		case <-time.After(50 * time.Second):
			res, c20Stage = "timeout", "driver-stop"
		}
		t.Logf("accepts r1=%d r2=%d events=%d", atomic.LoadInt32(&r1.accepts), atomic.LoadInt32(&r2.accepts), atomic.LoadInt32(&events))
		r1.close()
		r2.close()
	case "config-debounce":
		// configuration updates from several goroutines; the debounce timer (10 s) fires once and runs Discover
		for round := 0; round < iters; round++ {
			var wg sync.WaitGroup
			for i := 0; i < 4; i++ {
				i := i
				wg.Add(1)
				go func() {
					defer wg.Done()
					d.updateWritableConfig(&CustomConfig{DiscoverySubnets: fmt.Sprintf("127.0.%d.0/32", round*4+i), ScanPort: "59923", ProbeAsyncLimit: 1, ProbeTimeoutSeconds: 1, MaxDiscoverDurationSeconds: 1})
				}()
			}
			if !c20WaitWG(&wg, 5*time.Second) {
				res, c20Stage = "timeout", "config-update"
				break
			}
			time.Sleep(discoverDebounceDuration + 2500*time.Millisecond)
			n++
		}
		if got := atomic.LoadInt32(&discoveries); res == "clean" && int(got) != n {
			res, c20Stage = "unexpected", fmt.Sprintf("discoveries=%d rounds=%d", got, n)
		}
	default:
		t.Fatalf("unknown scenario %q", name)
	}
	if res != "clean" && c20Stage != "" {
		res += " " + c20Stage
	}
	o.line(fmt.Sprintf("race-scenario %s iters=%d", name, n), res)
}
