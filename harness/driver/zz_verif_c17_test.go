//go:build verif

package driver

// C17 harness: the real probe / ipWorker / autoDiscover against scripted loopback hosts, compared with the Lean
// model (oracle verbs of LLRP/Oracle/C17.lean).
//
//   probe <behaviour> <hasId> <idtype> x<rid> <hasCaps> <vendor> <model> x<fw>  → none | some <name> <vendor> <model> x<fw>
//   name / name-doc <vendor> <model> <idtype> x<rid>                            → device name (code model / README table)
//   skip <registered> <up>                                                      → probe | skip
//   probe-time-check <behaviour> <timeout ms> <elapsed ms | blocked>            → accept | reject …
//   run-check <behaviour> <max duration ms> <timeout ms> <elapsed ms | blocked> → accept | reject …
//
// The scripted host builds its frames with a hand-written 10-byte header; payloads come from the repo's marshalers.

import (
	"context"
	"encoding/binary"
	"fmt"
	"io"
	"net"
	"strconv"
	"strings"
	"sync"
	"sync/atomic"
	"testing"
	"time"

	"github.com/edgexfoundry/device-rfid-llrp-go/pkg/llrp"
	"github.com/edgexfoundry/device-sdk-go/v4/pkg/interfaces/mocks"
	"github.com/edgexfoundry/go-mod-core-contracts/v4/models"
	"github.com/stretchr/testify/mock"
)

type c17ident struct {
	has    bool
	idType uint8
	rid    []byte
}

type c17caps struct {
	has    bool
	vendor uint32
	model  uint32
	fw     string
}

// c17host is a scripted LLRP "reader" on a loopback port
type c17host struct {
	beh      string
	id       c17ident
	caps     c17caps
	ln       net.Listener
	port     string
	accepted int32
	stop     chan struct{}
	wg       sync.WaitGroup
}

func c17frame(typ uint16, id uint32, payload []byte) []byte {
	b := make([]byte, 10+len(payload))
	binary.BigEndian.PutUint16(b[0:2], 1<<10|typ&0x3ff) // version 1.0.1
	binary.BigEndian.PutUint32(b[2:6], uint32(10+len(payload)))
	binary.BigEndian.PutUint32(b[6:10], id)
	copy(b[10:], payload)
	return b
}

type c17marshaler interface{ MarshalBinary() ([]byte, error) }

func c17payload(m c17marshaler) []byte {
	b, err := m.MarshalBinary()
	if err != nil {
		panic(err)
	}
	return b
}

func c17start(beh string, id c17ident, caps c17caps) (*c17host, error) {
	ln, err := net.Listen("tcp4", "127.0.0.1:0")
	if err != nil {
		return nil, err
	}
	return c17startOn(ln, beh, id, caps), nil
}

func c17startOn(ln net.Listener, beh string, id c17ident, caps c17caps) *c17host {
	h := &c17host{beh: beh, id: id, caps: caps, ln: ln, stop: make(chan struct{})}
	_, h.port, _ = net.SplitHostPort(ln.Addr().String())
	if beh == "refuse" {
		ln.Close() // nothing listens on this port any more
		return h
	}
	h.wg.Add(1)
	go func() {
		defer h.wg.Done()
		for {
			conn, err := ln.Accept()
			if err != nil {
				return
			}
			atomic.AddInt32(&h.accepted, 1)
			h.wg.Add(1)
			go func() {
				defer h.wg.Done()
				defer conn.Close()
				defer func() { _ = recover() }()
				h.serve(conn)
			}()
		}
	}()
	return h
}

func (h *c17host) close() {
	close(h.stop)
	h.ln.Close()
	h.wg.Wait()
}

// hold keeps the connection open without sending anything until the host is stopped (the peer closing does not matter)
func (h *c17host) hold(conn net.Conn) {
	go io.Copy(io.Discard, conn)
	<-h.stop
}

func (h *c17host) serve(conn net.Conn) {
	hello := c17frame(uint16(llrp.MsgReaderEventNotification), 0, c17payload(llrp.NewConnectMessage(llrp.ConnSuccess)))
	switch h.beh {
	case "closeAfterAccept":
		return
	case "acceptSilent":
		h.hold(conn)
		return
	case "stallPartialHello":
		conn.Write(hello[:7])
		h.hold(conn)
		return
	case "garbage":
		conn.Write([]byte("HTTP/1.1 400 Bad Request\r\nContent-Length: 0\r\n\r\n\xff\xfe\x00\x01garbage garbage garbage"))
		h.hold(conn)
		return
	case "helloRefused":
		conn.Write(c17frame(uint16(llrp.MsgReaderEventNotification), 0, c17payload(llrp.NewConnectMessage(llrp.ConnExistsClientInitiated))))
		h.hold(conn)
		return
	case "helloWrongType":
		conn.Write(c17frame(uint16(llrp.MsgKeepAlive), 0, nil))
		h.hold(conn)
		return
	}
	conn.Write(hello)
	hdr := make([]byte, 10)
	for {
		if _, err := io.ReadFull(conn, hdr); err != nil {
			return
		}
		typ := llrp.MessageType(binary.BigEndian.Uint16(hdr[0:2]) & 0x3ff)
		n := binary.BigEndian.Uint32(hdr[2:6])
		mid := binary.BigEndian.Uint32(hdr[6:10])
		if n < 10 || n > 1<<20 {
			return
		}
		if _, err := io.CopyN(io.Discard, conn, int64(n-10)); err != nil {
			return
		}
		errMsg := func(st llrp.StatusCode) []byte {
			return c17frame(uint16(llrp.MsgErrorMessage), mid, c17payload(&llrp.ErrorMessage{LLRPStatus: llrp.LLRPStatus{Status: st}}))
		}
		switch typ {
		case llrp.MsgGetSupportedVersion:
			switch h.beh {
			case "stallMidHandshake":
				h.hold(conn)
				return
			case "closeMidHandshake":
				return
			case "garbageMidHandshake":
				conn.Write([]byte{0xff, 0xff, 0xff, 0xff, 0xff, 0xff, 0xff, 0xff, 0xff, 0xff, 0xff, 0xff})
				h.hold(conn)
				return
			}
			// a 1.0.1 reader does not know this message
			conn.Write(errMsg(llrp.StatusMsgVerUnsupported))
		case llrp.MsgGetReaderConfig:
			switch h.beh {
			case "stallMidExchange":
				h.hold(conn)
				return
			case "busyMidExchange":
				// never answers, but keeps the connection busy with keep-alives, so that no single read times out
				go io.Copy(io.Discard, conn)
				for k := uint32(1); ; k++ {
					select {
					case <-h.stop:
						return
					case <-time.After(100 * time.Millisecond):
					}
					if _, err := conn.Write(c17frame(uint16(llrp.MsgKeepAlive), k, nil)); err != nil {
						<-h.stop
						return
					}
				}
			case "trickleConfig":
				// announces a 600-byte reply and sends it a byte at a time, pausing less than the probe's timeout between
				// bytes: data keeps arriving, the reply never completes in time
				go io.Copy(io.Discard, conn)
				hdr := c17frame(uint16(llrp.MsgGetReaderConfigResponse), mid, make([]byte, 600))[:10]
				conn.Write(hdr)
				for {
					select {
					case <-h.stop:
						return
					case <-time.After(80 * time.Millisecond):
					}
					if _, err := conn.Write([]byte{0}); err != nil {
						<-h.stop
						return
					}
				}
			case "closeMidExchange":
				return
			case "configRefused":
				conn.Write(errMsg(llrp.StatusMsgMsgUnsupported))
				continue
			}
			resp := &llrp.GetReaderConfigResponse{}
			if h.id.has {
				resp.Identification = &llrp.Identification{IDType: llrp.IDType(h.id.idType), ReaderID: h.id.rid}
			}
			conn.Write(c17frame(uint16(llrp.MsgGetReaderConfigResponse), mid, c17payload(resp)))
		case llrp.MsgGetReaderCapabilities:
			switch h.beh {
			case "stallCaps":
				h.hold(conn)
				return
			case "capsRefused":
				conn.Write(errMsg(llrp.StatusMsgMsgUnsupported))
				continue
			}
			resp := &llrp.GetReaderCapabilitiesResponse{}
			if h.caps.has {
				resp.GeneralDeviceCapabilities = &llrp.GeneralDeviceCapabilities{
					MaxSupportedAntennas: 4, DeviceManufacturer: h.caps.vendor, Model: h.caps.model, FirmwareVersion: h.caps.fw,
					// the decoder insists on at least one sensitivity entry
					ReceiveSensitivities: []llrp.ReceiveSensitivityTableEntry{{Index: 1, ReceiveSensitivity: 10}, {Index: 2, ReceiveSensitivity: 14}},
				}
			}
			conn.Write(c17frame(uint16(llrp.MsgGetReaderCapabilitiesResponse), mid, c17payload(resp)))
		case llrp.MsgCloseConnection:
			if h.beh == "byeRefused" {
				// the host refuses to close and keeps the connection: the probe must still end
				conn.Write(c17frame(uint16(llrp.MsgCloseConnectionResponse), mid, c17payload(&llrp.CloseConnectionResponse{LLRPStatus: llrp.LLRPStatus{Status: llrp.StatusMsgFieldError}})))
				h.hold(conn)
				return
			}
			conn.Write(c17frame(uint16(llrp.MsgCloseConnectionResponse), mid, c17payload(&llrp.CloseConnectionResponse{})))
			return
		default:
			conn.Write(errMsg(llrp.StatusMsgMsgUnsupported))
		}
	}
}

func c17b(x bool) int {
	if x {
		return 1
	}
	return 0
}

func c17req(beh string, id c17ident, caps c17caps) string {
	return fmt.Sprintf("probe %s %d %d x%s %d %d %d x%s", beh, c17b(id.has), id.idType, vhex(id.rid), c17b(caps.has), caps.vendor, caps.model, vhex([]byte(caps.fw)))
}

type c17result struct {
	obs     string
	name    string
	elapsed string // milliseconds or "blocked"
}

// the real probe with a deadline; a probe that has not returned by then is reported as blocked (its goroutine leaks)
func c17probe(port string, timeout, deadline time.Duration) c17result {
	type out struct {
		info *discoveryInfo
		err  error
		pan  bool
	}
	ch := make(chan out, 1)
	t0 := time.Now()
	go func() {
		defer func() {
			if e := recover(); e != nil {
				ch <- out{pan: true}
			}
		}()
		info, err := probe("127.0.0.1", port, timeout)
		ch <- out{info: info, err: err}
	}()
	select {
	case o := <-ch:
		el := strconv.FormatInt(time.Since(t0).Milliseconds(), 10)
		switch {
		case o.pan:
			return c17result{obs: "panic", elapsed: el}
		case o.err != nil || o.info == nil:
			return c17result{obs: "none", elapsed: el}
		}
		return c17result{obs: fmt.Sprintf("some %s %d %d x%s", o.info.deviceName, o.info.vendor, o.info.model, vhex([]byte(o.info.fwVersion))),
			name: o.info.deviceName, elapsed: el}
	case <-time.After(deadline):
		return c17result{obs: "blocked", elapsed: "blocked"}
	}
}

func c17newSvc(devs []models.Device) *mocks.DeviceServiceSDK {
	s := &mocks.DeviceServiceSDK{}
	s.On("Devices").Return(devs)
	s.On("GetDeviceByName", mock.Anything).Return(models.Device{}, fmt.Errorf("no such device"))
	s.On("UpdateDevice", mock.Anything).Return(nil)
	return s
}

// the real autoDiscover with a deadline
func c17discover(ctx context.Context, params discoverParams, deadline time.Duration) (names []string, elapsed string) {
	ch := make(chan []string, 1)
	t0 := time.Now()
	go func() {
		defer func() {
			if e := recover(); e != nil {
				ch <- []string{"panic"}
			}
		}()
		var ns []string
		for _, d := range autoDiscover(ctx, params) {
			ns = append(ns, d.Name)
		}
		ch <- ns
	}()
	select {
	case ns := <-ch:
		return ns, strconv.FormatInt(time.Since(t0).Milliseconds(), 10)
	case <-time.After(deadline):
		return nil, "blocked"
	}
}

func TestVerifC17(t *testing.T) {
	o := vopen(t)
	defer o.close()
	rng := &vrng{s: vseed()}
	thorough := vthorough()
	oldSvc := driver.svc
	defer func() { driver.svc = oldSvc }()
	driver.svc = c17newSvc([]models.Device{})

	randBytes := func(n int) []byte {
		b := make([]byte, n)
		for i := range b {
			b[i] = byte(rng.next())
		}
		return b
	}

	// ---- 1. naming and metadata through the real probe against a correct host
	vendors := []uint32{uint32(Impinj), uint32(Alien), uint32(Zebra), 0, 50, uint32(Impinj) + 1, uint32(Impinj) - 1, uint32(rng.next())}
	tableModels := []uint32{uint32(SpeedwayR120), uint32(SpeedwayR220), uint32(SpeedwayR420), uint32(R700), uint32(XPortal), uint32(XSpan),
		uint32(XArray), uint32(XArrayEAP), uint32(XArrayWM)}
	modelsL := append([]uint32{}, tableModels...)
	modelsL = append(modelsL, 0, 0x32, 2001000, 2001005, 2001010, 2001051, 2001053, 1<<32-1, uint32(rng.next()))
	fws := []string{"5.14.0.240", "", "7.0.0", "1", "fw-Version_9 (x)"}
	type ncase struct {
		id   c17ident
		caps c17caps
	}
	var ncases []ncase
	rounds := 2
	if thorough {
		rounds = 8
	}
	for _, v := range vendors {
		for _, m := range modelsL {
			for r := 0; r < rounds; r++ {
				idt := uint8(rng.intn(2))
				if rng.intn(8) == 0 {
					idt = uint8(rng.next())
				}
				ncases = append(ncases, ncase{c17ident{true, idt, randBytes(rng.intn(17))}, c17caps{true, v, m, fws[rng.intn(len(fws))]}})
			}
		}
	}
	for _, idt := range []uint8{0, 1, 2, 255} {
		for n := 0; n <= 16; n++ {
			for r := 0; r < rounds; r++ {
				v := vendors[rng.intn(2)*rng.intn(len(vendors))] // Impinj half of the time
				m := modelsL[rng.intn(len(modelsL))]
				ncases = append(ncases, ncase{c17ident{true, idt, randBytes(n)}, c17caps{true, v, m, fws[rng.intn(len(fws))]}})
			}
		}
	}
	// every vendor with reader IDs shorter than the three octets a MAC-based name takes
	for _, v := range vendors {
		for _, idt := range []uint8{0, 1} {
			for n := 0; n <= 3; n++ {
				ncases = append(ncases, ncase{c17ident{true, idt, randBytes(n)}, c17caps{true, v, modelsL[rng.intn(len(modelsL))], fws[rng.intn(len(fws))]}})
			}
		}
	}
	// the repo's own test vectors and the README's example
	ncases = append(ncases,
		ncase{c17ident{true, 0, []byte{0, 0, 0, 0, 0x19, 0xC5, 0xD6}}, c17caps{true, uint32(Impinj), uint32(SpeedwayR420), "5.14.0.240"}},
		ncase{c17ident{true, 0, []byte{0x00, 0xef, 0x16, 0x19, 0xfe, 0x16}}, c17caps{true, uint32(Impinj), uint32(XSpan), "x"}},
		ncase{c17ident{true, 1, []byte{0x30, 0x24, 0x11, 0xF9, 0xC9, 0x2D, 0x4F}}, c17caps{true, 0x32, 0x32, "7.0.0"}},
		// identification or capabilities missing
		ncase{c17ident{false, 0, nil}, c17caps{true, uint32(Impinj), uint32(XArray), "1"}},
		ncase{c17ident{true, 0, []byte{1, 2, 3, 4}}, c17caps{false, 0, 0, ""}},
		ncase{c17ident{false, 0, nil}, c17caps{false, 0, 0, ""}})

	const fastT = 2 * time.Second
	for _, c := range ncases {
		h, err := c17start("correct", c.id, c.caps)
		if err != nil {
			t.Fatal(err)
		}
		r := c17probe(h.port, fastT, 20*time.Second)
		h.close()
		o.line(c17req("correct", c.id, c.caps), r.obs)
		if r.name != "" {
			// the same observation against the code-following rule and against the README's table
			o.line(fmt.Sprintf("name %d %d %d x%s", c.caps.vendor, c.caps.model, c.id.idType, vhex(c.id.rid)), r.name)
			o.line(fmt.Sprintf("name-doc %d %d %d x%s", c.caps.vendor, c.caps.model, c.id.idType, vhex(c.id.rid)), r.name)
		}
	}
	// determinism: the same reader probed again (other port, other connection) gets the same name
	for i := 0; i < 6; i++ {
		c := ncases[rng.intn(len(ncases)-3)]
		for k := 0; k < 2; k++ {
			h, err := c17start("correct", c.id, c.caps)
			if err != nil {
				t.Fatal(err)
			}
			r := c17probe(h.port, fastT, 20*time.Second)
			h.close()
			o.line(c17req("correct", c.id, c.caps), r.obs)
		}
	}

	// ---- 2. host behaviours through the real probe: outcome and time
	id := c17ident{true, 0, []byte{1, 2, 3}}
	nocaps := c17caps{}
	behaviours := []string{"refuse", "closeAfterAccept", "acceptSilent", "stallPartialHello", "garbage", "helloRefused", "helloWrongType",
		"stallMidHandshake", "garbageMidHandshake", "stallMidExchange", "trickleConfig", "closeMidExchange", "configRefused", "stallCaps", "capsRefused", "byeRefused", "correct"}
	if thorough {
		// peer closes during version negotiation: with a client without timeout this is the Connect hang that belongs to
		// property C09 (pkg/llrp/reader.go, repaired elsewhere); the probing client has a timeout once C17's repair is in
		behaviours = append(behaviours, "closeMidHandshake")
	}
	probeT := 400 * time.Millisecond
	probeDeadline := 6 * time.Second
	if thorough {
		probeDeadline = 45 * time.Second // lets the unrepaired code's 20 s send timeout show as "late" rather than "blocked"
	}
	type bres struct {
		req string
		r   c17result
	}
	bout := make([]bres, len(behaviours))
	var wg sync.WaitGroup
	var hosts []*c17host
	for i, beh := range behaviours {
		h, err := c17start(beh, id, nocaps)
		if err != nil {
			t.Fatal(err)
		}
		hosts = append(hosts, h)
		wg.Add(1)
		go func(i int, beh string, h *c17host) {
			defer wg.Done()
			bout[i] = bres{c17req(beh, id, nocaps), c17probe(h.port, probeT, probeDeadline)}
		}(i, beh, h)
	}
	wg.Wait()
	for i, beh := range behaviours {
		obs := bout[i].r.obs
		if obs == "blocked" {
			obs = "none" // the outcome is judged here, the time by the next line
		}
		o.line(bout[i].req, obs)
		o.line(fmt.Sprintf("probe-time-check %s %d %s", beh, probeT.Milliseconds(), bout[i].r.elapsed), "accept")
	}
	for _, h := range hosts {
		if h.beh != "refuse" {
			h.close()
		}
	}
	if thorough {
		// a host that keeps the connection busy: bounded by the exchange's own deadline (sendTimeout), not by the probe timeout
		h, err := c17start("busyMidExchange", id, nocaps)
		if err != nil {
			t.Fatal(err)
		}
		r := c17probe(h.port, probeT, sendTimeout+10*time.Second)
		h.close()
		o.line("probe-busy-check "+r.elapsed, "accept")
	}

	// ---- 3. skip rule: registered-device sets through the mock SDK, real autoDiscover on 127.0.0.1/32
	type scase struct {
		name             string
		registered, up   bool
		devs             func(port string) []models.Device
	}
	dev := func(name, host, port string, st models.OperatingState) models.Device {
		return models.Device{Name: name, OperatingState: st, Protocols: map[string]models.ProtocolProperties{"tcp": {"host": host, "port": port}}}
	}
	scases := []scase{
		{"absent", false, false, func(p string) []models.Device { return nil }},
		{"up", true, true, func(p string) []models.Device { return []models.Device{dev("LLRP-known", "127.0.0.1", p, models.Up)} }},
		{"down", true, false, func(p string) []models.Device { return []models.Device{dev("LLRP-known", "127.0.0.1", p, models.Down)} }},
		{"up-other-port", false, true, func(p string) []models.Device { return []models.Device{dev("LLRP-known", "127.0.0.1", "1", models.Up)} }},
		{"up-other-host", false, true, func(p string) []models.Device { return []models.Device{dev("LLRP-known", "127.0.0.9", p, models.Up)} }},
		{"up-among-others", true, true, func(p string) []models.Device {
			return []models.Device{dev("a", "10.0.0.1", p, models.Down), dev("LLRP-known", "127.0.0.1", p, models.Up), dev("b", "127.0.0.1", "2", models.Up),
				{Name: "no-tcp", OperatingState: models.Up, Protocols: map[string]models.ProtocolProperties{}}}
		}},
		{"down-among-others", true, false, func(p string) []models.Device {
			return []models.Device{dev("a", "10.0.0.1", p, models.Up), dev("LLRP-known", "127.0.0.1", p, models.Down)}
		}},
		// "registered and operating" is about the operating state alone: the administrative state does not matter
		{"up-locked", true, true, func(p string) []models.Device {
			d := dev("LLRP-known", "127.0.0.1", p, models.Up)
			d.AdminState = models.Locked
			return []models.Device{d}
		}},
		{"up-unlocked", true, true, func(p string) []models.Device {
			d := dev("LLRP-known", "127.0.0.1", p, models.Up)
			d.AdminState = models.Unlocked
			return []models.Device{d}
		}},
		{"down-locked", true, false, func(p string) []models.Device {
			d := dev("LLRP-known", "127.0.0.1", p, models.Down)
			d.AdminState = models.Locked
			return []models.Device{d}
		}},
		{"unknown-state", true, false, func(p string) []models.Device {
			return []models.Device{dev("LLRP-known", "127.0.0.1", p, models.OperatingState("UNKNOWN"))}
		}},
	}
	for _, sc := range scases {
		h, err := c17start("correct", c17ident{true, 0, []byte{0xAA, 0xBB, 0xCC}}, c17caps{true, 1, 1, "1"})
		if err != nil {
			t.Fatal(err)
		}
		driver.svc = c17newSvc(sc.devs(h.port))
		ctx, cancel := context.WithTimeout(context.Background(), 10*time.Second)
		names, el := c17discover(ctx, discoverParams{subnets: []string{"127.0.0.1/32"}, asyncLimit: 4, timeout: fastT, scanPort: h.port}, 20*time.Second)
		cancel()
		obs := "skip"
		if atomic.LoadInt32(&h.accepted) > 0 {
			obs = "probe"
		}
		if el == "blocked" {
			obs = "blocked"
		}
		h.close()
		o.line(fmt.Sprintf("skip %d %d", c17b(sc.registered), c17b(sc.up)), obs)
		// what a probed, identified host yields is reported (as a new device: the mock knows no device of that name)
		want := "LLRP-AA-BB-CC"
		got := strings.Join(names, ",")
		if obs == "probe" {
			o.line("name 1 1 0 xaabbcc", got)
		} else if got != "" {
			o.line("name 1 1 0 xaabbcc", "reported-though-skipped:"+got+" want:"+want)
		}
	}
	driver.svc = c17newSvc([]models.Device{})

	// ---- 4. bounded run: autoDiscover with a short maximum duration against every behaviour, six addresses, three workers
	runD := 500 * time.Millisecond
	runDeadline := 6 * time.Second
	if thorough {
		runDeadline = 60 * time.Second
	}
	runBeh := []string{"refuse", "acceptSilent", "stallPartialHello", "garbage", "stallMidHandshake", "stallMidExchange", "stallCaps", "correct"}
	rout := make([]string, len(runBeh)+1)
	hosts = nil
	for i, beh := range runBeh {
		ln, err := net.Listen("tcp4", "0.0.0.0:0") // every 127.0.0.x reaches this host
		if err != nil {
			t.Fatal(err)
		}
		h := c17startOn(ln, beh, id, nocaps)
		hosts = append(hosts, h)
		wg.Add(1)
		go func(i int, h *c17host) {
			defer wg.Done()
			ctx, cancel := context.WithTimeout(context.Background(), runD)
			defer cancel()
			_, rout[i] = c17discover(ctx, discoverParams{subnets: []string{"127.0.0.0/29", "127.0.1.1/32", "127.0.2.2/31"}, asyncLimit: 3, timeout: probeT, scanPort: h.port}, runDeadline)
		}(i, h)
	}
	// wide runs: far more addresses than workers + channel buffer, so that the maximum duration expires while the
	// address generator is parked on a full channel and the workers are busy (the run must still end in time)
	wideBeh := []string{"acceptSilent", "stallMidHandshake", "refuse"}
	wout := make([]string, len(wideBeh))
	for i, beh := range wideBeh {
		ln, err := net.Listen("tcp4", "0.0.0.0:0")
		if err != nil {
			t.Fatal(err)
		}
		h := c17startOn(ln, beh, id, nocaps)
		hosts = append(hosts, h)
		wg.Add(1)
		go func(i int, h *c17host) {
			defer wg.Done()
			ctx, cancel := context.WithTimeout(context.Background(), runD)
			defer cancel()
			_, wout[i] = c17discover(ctx, discoverParams{subnets: []string{"127.0.3.0/27", "127.0.4.0/28"}, asyncLimit: 2, timeout: probeT, scanPort: h.port}, runDeadline)
		}(i, h)
	}
	// a run whose context is already over when it starts
	wg.Add(1)
	go func() {
		defer wg.Done()
		ctx, cancel := context.WithCancel(context.Background())
		cancel()
		_, rout[len(runBeh)] = c17discover(ctx, discoverParams{subnets: []string{"127.0.0.0/29", "127.0.1.1/32"}, asyncLimit: 3, timeout: probeT, scanPort: "9"}, runDeadline)
	}()
	wg.Wait()
	for i, beh := range runBeh {
		o.line(fmt.Sprintf("run-check %s %d %d %s", beh, runD.Milliseconds(), probeT.Milliseconds(), rout[i]), "accept")
	}
	o.line(fmt.Sprintf("run-check refuse 0 %d %s", probeT.Milliseconds(), rout[len(runBeh)]), "accept")
	for i, beh := range wideBeh {
		o.line(fmt.Sprintf("run-check %s %d %d %s", beh, runD.Milliseconds(), probeT.Milliseconds(), wout[i]), "accept")
	}
	for _, h := range hosts {
		if h.beh != "refuse" {
			h.close()
		}
	}
}
