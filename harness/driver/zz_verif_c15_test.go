//go:build verif

package driver

// C15 — connection supervision. Drives the real supervisor goroutine of Driver.NewLLRPDevice (and LLRPDevice.TrySend)
// through scripts of connection outcomes and control events against scripted loopback listeners, and writes
// "<oracle request>\t<observation>" lines (see lean/LLRP/Oracle/C15.lean for the request and reply syntax).
//
// How a script is made deterministic:
//   - the device's address is a harness net.Addr (vaddr) whose Network() method is called by the supervisor exactly
//     once per attempt, after it has read l.address and before it dials: that call is the "attempt start" hook; it
//     records which address object the attempt uses and parks the supervisor until the harness has prepared the peer
//     for this attempt (listener closed = refused; open = accepted and then played as scripted);
//   - accepted connections are served by llrp.TestDevice (reader side) on the accepted socket; "established" is the
//     moment the reader answers the SetReaderConfig that onConnect sends after its operating-state report;
//   - control events between attempts are issued a few ms after the failed attempt was provoked, i.e. inside the
//     retry wait (retry.Quick / retry.Slow are set to a constant vW wait); the placement is validated afterwards with
//     the timestamp of the next hook (a timer never fires early): c0 > t_next - W and c1 < t_next. An attempt whose
//     placement cannot be validated is repeated, and reported as `inconclusive` if that keeps happening;
//   - every wait has a deadline; its expiry is the observation `timeout:<what>`.

import (
	"context"
	"encoding/binary"
	"fmt"
	"net"
	"os"
	"runtime"
	"strconv"
	"strings"
	"sync"
	"sync/atomic"
	"testing"
	"time"

	"github.com/edgexfoundry/device-sdk-go/v4/pkg/interfaces/mocks"
	dsModels "github.com/edgexfoundry/device-sdk-go/v4/pkg/models"
	"github.com/edgexfoundry/go-mod-core-contracts/v4/clients/logger"
	contract "github.com/edgexfoundry/go-mod-core-contracts/v4/models"
	"github.com/stretchr/testify/mock"

	"github.com/edgexfoundry/device-rfid-llrp-go/internal/retry"
	"github.com/edgexfoundry/device-rfid-llrp-go/pkg/llrp"
)

const (
	vW        = 40 * time.Millisecond // every retry wait during the run
	vMargin   = 8 * time.Millisecond  // a control call must have returned this long before the next attempt's dial
	vDelta    = 6 * time.Millisecond  // provoked failure -> first control call
	vGrace    = 100 * time.Millisecond // after Stop: no dial may start within this time
	vDeadline = 3 * time.Second       // any single expected observable
	vSlowSDK  = 30 * time.Millisecond // duration of UpdateDeviceOperatingState(Up) in the slow-SDK scripts
)

func vgoid() uint64 {
	var buf [64]byte
	n := runtime.Stack(buf[:], false)
	f := strings.Fields(string(buf[:n]))
	if len(f) < 2 {
		return 0
	}
	id, _ := strconv.ParseUint(f[1], 10, 64)
	return id
}

type vhook struct {
	addr    int
	t       time.Time
	release chan struct{}
}

// vaddr is the net.Addr handed to the device.
type vaddr struct {
	idx int
	tcp string
	w   *vworld
}

func (a *vaddr) String() string { return a.tcp }
func (a *vaddr) Network() string {
	a.w.hook(a.idx)
	return "tcp"
}

type vworld struct {
	name    string
	addrs   [2]*vaddr
	ctlGo   uint64 // goroutine running the script (its own calls of Network() are not attempts)
	hooks   chan *vhook
	mu      sync.Mutex
	reports []string
	lns     [2]net.Listener
	conns   [2]chan net.Conn
	closed  chan struct{}
	open    []net.Conn
	d       *Driver
	dev     *LLRPDevice
}

func (w *vworld) hook(idx int) {
	if vgoid() == w.ctlGo {
		return
	}
	h := &vhook{addr: idx, t: time.Now(), release: make(chan struct{})}
	select {
	case w.hooks <- h:
	case <-w.closed:
		return
	}
	select {
	case <-h.release:
	case <-w.closed:
	}
}

func (w *vworld) waitHook(d time.Duration) *vhook {
	select {
	case h := <-w.hooks:
		return h
	case <-time.After(d):
		return nil
	}
}

func (w *vworld) listen(i int, on bool) error {
	if on == (w.lns[i] != nil) {
		return nil
	}
	if !on {
		err := w.lns[i].Close()
		w.lns[i] = nil
		return err
	}
	var ln net.Listener
	var err error
	for k := 0; k < 50; k++ {
		ln, err = net.Listen("tcp4", w.addrs[i].tcp)
		if err == nil {
			break
		}
		time.Sleep(2 * time.Millisecond)
	}
	if err != nil {
		return err
	}
	w.lns[i] = ln
	ch := w.conns[i]
	go func() {
		for {
			c, err := ln.Accept()
			if err != nil {
				return
			}
			select {
			case ch <- c:
			default:
				c.Close()
			}
		}
	}()
	return nil
}

func (w *vworld) cleanup() {
	close(w.closed)
	if w.dev != nil {
		ctx, cancel := context.WithCancel(context.Background())
		cancel()
		_ = w.dev.Stop(ctx)
	}
	for i := range w.lns {
		if w.lns[i] != nil {
			w.lns[i].Close()
		}
	}
	for _, c := range w.open {
		c.Close()
	}
}

var vworldSeq uint32

func newWorld(slow bool) *vworld { return newWorldR(slow, false) }

// newWorldR: with refuseDown EdgeX refuses the first Down report (it is not recorded as a report: EdgeX never took it)
func newWorldR(slow, refuseDown bool) *vworld {
	n := atomic.AddUint32(&vworldSeq, 1)
	pid := uint32(os.Getpid())
	ip := fmt.Sprintf("127.%d.%d.%d", 16+(pid%200), (n/250)%250, 1+n%250)
	w := &vworld{name: fmt.Sprintf("dev%d", n), hooks: make(chan *vhook, 16), closed: make(chan struct{}), ctlGo: vgoid()}
	for i := 0; i < 2; i++ {
		w.addrs[i] = &vaddr{idx: i, tcp: fmt.Sprintf("%s:%d", ip, 15084+i), w: w}
		w.conns[i] = make(chan net.Conn, 4)
	}
	m := &mocks.DeviceServiceSDK{}
	if refuseDown {
		m.On("UpdateDeviceOperatingState", mock.Anything, contract.OperatingState(contract.Down)).Return(fmt.Errorf("core-metadata unavailable")).Once()
	}
	m.On("UpdateDeviceOperatingState", mock.Anything, mock.Anything).Run(func(args mock.Arguments) {
		r := "?"
		if args.String(0) != w.name {
			r = "wrongname"
		} else {
			switch args.Get(1).(contract.OperatingState) {
			case contract.Up:
				r = "U"
				if slow {
					// the report is received now and acknowledged later (an HTTP round trip in production)
					defer time.Sleep(vSlowSDK)
				}
			case contract.Down:
				r = "D"
			}
		}
		w.mu.Lock()
		w.reports = append(w.reports, r)
		w.mu.Unlock()
	}).Return(nil)
	w.d = &Driver{
		lc:            logger.MockLogger{},
		asyncCh:       make(chan *dsModels.AsyncValues, 256),
		svc:           m,
		activeDevices: make(map[string]*LLRPDevice),
	}
	return w
}

// vresp wraps a reply of the scripted reader; MarshalBinary runs when the reader answers the request.
type vresp struct {
	inner llrp.Outgoing
	fn    func()
}

func (r *vresp) Type() llrp.MessageType { return r.inner.Type() }
func (r *vresp) MarshalBinary() ([]byte, error) {
	r.fn()
	return r.inner.MarshalBinary()
}

func vframe(typ uint16, id uint32, payload []byte) []byte {
	b := make([]byte, 10+len(payload))
	binary.BigEndian.PutUint16(b[0:2], (1<<10)|typ)
	binary.BigEndian.PutUint32(b[2:6], uint32(10+len(payload)))
	binary.BigEndian.PutUint32(b[6:10], id)
	copy(b[10:], payload)
	return b
}

type vscript struct {
	up     int
	toks   []string
	silent bool // handshakeFail is played as accept-then-silent (60 s read timeout); thorough only
	slow   bool // the SDK takes vSlowSDK to process an Up report (two connection events can then overlap)
	refuse bool // EdgeX refuses the first Down report: the service must report Down again when the attempts keep failing
	long   bool // every "dr" holds the established connection for more than a keep-alive interval before dropping it; thorough only
	rej    bool // "cl" is played by the READER: it rejects the service's own SetReaderConfig, so the service resets the connection itself
}

func (s vscript) request() string {
	verb := "supervisor"
	if s.slow {
		verb = "supervisor-slowsdk"
	}
	if s.rej {
		verb = "supervisor-rejcfg"
	}
	if s.long {
		verb = "supervisor-long"
	}
	if s.refuse {
		verb = "supervisor-refuse"
	}
	return fmt.Sprintf("%s %d %s", verb, s.up, strings.Join(s.toks, " "))
}

// vLongHold: how long a `long` script keeps an established connection before the reader drops it: longer than a
// keep-alive interval (a connection that lasted that long and then broke is still a failed attempt)
const vLongHold = keepAliveInterval + time.Second

func vobs(dials []int, reports []string, done bool, next int) string {
	ds := make([]string, len(dials))
	for i, d := range dials {
		ds[i] = strconv.Itoa(d)
	}
	nx := "-"
	dn := 1
	if !done {
		dn = 0
		nx = strconv.Itoa(next)
	}
	return fmt.Sprintf("dials=[%s] reports=[%s] done=%d next=%s", strings.Join(ds, ","), strings.Join(reports, ","), dn, nx)
}

// runScript plays one script on a fresh device; the result is the observation or "timeout:…"/"inconclusive:…"/"panic:…".
func runScript(s vscript, variant uint64) (obs string) {
	defer func() {
		if r := recover(); r != nil {
			obs = fmt.Sprintf("panic:%v", r)
		}
	}()
	w := newWorldR(s.slow, s.refuse)
	defer w.cleanup()
	st := contract.OperatingState(contract.Down)
	if s.up != 0 {
		st = contract.Up
	}
	var dials []int
	var lastFail time.Time // when the last failing attempt was provoked
	var c0, c1 time.Time   // first control call start / last control call end since the last attempt
	haveCtl := false
	stopped := false
	attemptDeadline := vDeadline
	w.dev = w.d.NewLLRPDevice(w.name, w.addrs[0], st)

	checkCtl := func(h *vhook) bool {
		if !haveCtl {
			return true
		}
		haveCtl = false
		// the control call must have RETURNED well before the next attempt begins: the supervisor reads the address and only
		// then dials (the hook), so a call that ends a moment before the hook may have come too late for this attempt
		return c0.After(h.t.Add(-vW)) && c1.Add(vMargin).Before(h.t)
	}

loop:
	for i, tok := range s.toks {
		kind := tok
		arg := 0
		if k := strings.IndexByte(tok, ':'); k >= 0 {
			kind = tok[:k]
			arg, _ = strconv.Atoi(tok[k+1:])
		}
		switch kind {
		case "st", "ua":
			if !haveCtl {
				if d := vDelta - time.Since(lastFail); d > 0 {
					time.Sleep(d)
				}
				c0 = time.Now()
				haveCtl = true
			}
			if kind == "st" {
				ctx, cancel := context.WithTimeout(context.Background(), 3*time.Millisecond)
				_ = w.dev.Stop(ctx)
				cancel()
				stopped = true
				c1 = time.Now()
				if !c1.Before(lastFail.Add(vW)) {
					// Stop did not return before the retry wait could have ended
					return "inconclusive:control-placement"
				}
				break loop
			}
			ctx, cancel := context.WithTimeout(context.Background(), 3*time.Millisecond)
			_ = w.dev.UpdateAddr(ctx, w.addrs[arg])
			cancel()
			c1 = time.Now()
			continue
		}
		// an attempt
		h := w.waitHook(attemptDeadline)
		if h == nil {
			return fmt.Sprintf("timeout:no-dial-for-event-%d", i)
		}
		if !checkCtl(h) {
			return "inconclusive:control-placement"
		}
		dials = append(dials, h.addr)
		if err := w.listen(h.addr, kind != "df"); err != nil {
			return "inconclusive:listen:" + err.Error()
		}
		close(h.release)
		if kind == "df" {
			lastFail = time.Now()
			continue
		}
		var conn net.Conn
		select {
		case conn = <-w.conns[h.addr]:
		case <-time.After(vDeadline):
			return fmt.Sprintf("timeout:no-connection-for-event-%d", i)
		}
		w.open = append(w.open, conn)
		if kind == "hf" {
			switch {
			case s.silent:
				// say nothing: the client gives up after keepAliveInterval*maxMissedKAs
				attemptDeadline = keepAliveInterval*maxMissedKAs + 10*time.Second
			case (variant+uint64(i))%3 == 0:
				// EOF before the initial message
			case (variant+uint64(i))%3 == 1:
				// a well-formed message that is not a ReaderEventNotification
				_, _ = conn.Write(vframe(uint16(llrp.MsgKeepAlive), 1, nil))
			default:
				// a ReaderEventNotification reporting a failed connection attempt
				p, _ := llrp.NewConnectMessage(llrp.ConnFailedReasonUnknown).MarshalBinary()
				_, _ = conn.Write(vframe(uint16(llrp.MsgReaderEventNotification), 1, p))
			}
			if !s.silent {
				conn.Close()
			}
			lastFail = time.Now()
			continue
		}
		// dr, cl, cs, cu: a reader that completes the handshake
		td, err := llrp.NewReaderOnlyTestDevice(conn, true)
		if err != nil {
			return "inconclusive:testdevice:" + err.Error()
		}
		established := make(chan struct{})
		var once sync.Once
		cfgResp := &llrp.SetReaderConfigResponse{}
		if s.rej && kind == "cl" {
			cfgResp.LLRPStatus = llrp.LLRPStatus{Status: llrp.StatusMsgFieldError, ErrorDescription: "keep-alive spec rejected"}
		}
		td.SetResponse(llrp.MsgSetReaderConfig, &vresp{inner: cfgResp, fn: func() { once.Do(func() { close(established) }) }})
		readerDone := make(chan struct{})
		go func() {
			defer close(readerDone)
			defer func() { _ = recover() }()
			td.ImpersonateReader()
		}()
		isEstablished := false
		select {
		case <-established:
			isEstablished = true
			time.Sleep(2 * time.Millisecond) // let the reply reach the client
			// the connection counts as established once the service has finished its own set-up (onConnect): when the
			// device is not reported Up yet, that ends with the Up report — wait for it (a loaded machine can take a while)
			// instead of dropping the connection under the service's feet
			w.mu.Lock()
			n0 := len(w.reports)
			isUpNow := s.up != 0
			if n0 > 0 {
				isUpNow = w.reports[n0-1] == "U"
			}
			w.mu.Unlock()
			if !isUpNow {
				for t0 := time.Now(); time.Since(t0) < vDeadline; time.Sleep(time.Millisecond) {
					w.mu.Lock()
					n := len(w.reports)
					w.mu.Unlock()
					if n > n0 {
						break
					}
				}
			}
		case <-readerDone:
			// the client closed the connection before configuring the reader
		case <-time.After(vDeadline):
			return fmt.Sprintf("timeout:not-established-event-%d", i)
		}
		if !isEstablished {
			conn.Close()
			if kind != "dr" {
				return "inconclusive:closed-before-established"
			}
			lastFail = time.Now()
			continue
		}
		switch kind {
		case "dr":
			if s.long {
				time.Sleep(vLongHold)
			}
			if (variant+uint64(i))%2 == 0 {
				// a polite reader: it announces that it is closing the connection (ConnectionCloseEvent) and then hangs up.
				// For the supervisor this is a connection that ended, like any other drop.
				ev := &llrp.ReaderEventNotification{ReaderEventNotificationData: llrp.ReaderEventNotificationData{
					UTCTimestamp: llrp.UTCTimestamp(1), ConnectionCloseEvent: &llrp.ConnectionCloseEvent{}}}
				if b, err := ev.MarshalBinary(); err == nil {
					conn.SetWriteDeadline(time.Now().Add(time.Second))
					_, _ = conn.Write(vframe(63, 4242, b))
					time.Sleep(2 * time.Millisecond)
				}
			}
			conn.Close()
			lastFail = time.Now()
		case "cl":
			if !s.rej {
				w.dev.resetConn()
			} // else: onConnect's SetReaderConfig was refused and the service resets the connection on its own
		case "cs":
			ctx, cancel := context.WithTimeout(context.Background(), time.Second)
			_ = w.dev.Stop(ctx)
			cancel()
			stopped = true
			c1 = time.Now()
		case "cu":
			ctx, cancel := context.WithTimeout(context.Background(), time.Second)
			_ = w.dev.UpdateAddr(ctx, w.addrs[arg])
			cancel()
			select {
			case <-readerDone:
			case <-time.After(20 * time.Millisecond):
				// same address: nothing was closed; the peer drops the connection
				conn.Close()
				lastFail = time.Now()
			}
		}
		if stopped {
			break loop
		}
		closeWait := vDeadline
		if s.long {
			closeWait += vLongHold
		}
		select {
		case <-readerDone:
		case <-time.After(closeWait):
			return fmt.Sprintf("timeout:connection-not-closed-event-%d", i)
		}
	}

	done, next := true, 0
	if stopped {
		if h := w.waitHook(vGrace); h != nil {
			if !h.t.After(c1.Add(vMargin)) {
				// the attempt had started before Stop returned: the Stop was not placed inside the wait
				return "inconclusive:control-placement"
			}
			// a dial after Stop
			dials = append(dials, h.addr)
			done, next = false, h.addr
		}
	} else {
		h := w.waitHook(attemptDeadline)
		if h != nil {
			if !checkCtl(h) {
				return "inconclusive:control-placement"
			}
			done, next = false, h.addr
		}
	}
	time.Sleep(3 * time.Millisecond)
	w.mu.Lock()
	reports := append([]string(nil), w.reports...)
	w.mu.Unlock()
	return vobs(dials, reports, done, next)
}

// ---------------------------------------------------------------- script enumeration

var vAttempts = []string{"df", "hf", "dr", "cl"}

// a script is playable when every control event sits in a retry wait (directly after an attempt that fails) and no
// locally-closed attempt (cl/cs/cu) uses a client that UpdateAddr has already closed while it was idle
func vplayable(toks []string) bool {
	addr, poisoned, inWait := 0, false, false
	for _, t := range toks {
		kind, arg := t, 0
		if k := strings.IndexByte(t, ':'); k >= 0 {
			kind = t[:k]
			arg, _ = strconv.Atoi(t[k+1:])
		}
		switch kind {
		case "st":
			return inWait
		case "ua":
			if !inWait {
				return false
			}
			if arg != addr {
				poisoned = true
			}
			addr = arg
		case "df":
			inWait = true
		case "hf":
			inWait, poisoned = true, false
		case "dr":
			inWait, poisoned = !poisoned, false
		case "cl":
			if poisoned {
				return false
			}
			inWait = false
		case "cs":
			return !poisoned
		case "cu":
			if poisoned {
				return false
			}
			inWait = arg == addr
			addr = arg
		}
	}
	return true
}

func vscripts(maxLen int, rng *vrng) []vscript {
	var out []vscript
	seen := map[string]bool{}
	add := func(up int, toks []string) {
		if !vplayable(toks) {
			return
		}
		s := vscript{up: up, toks: append([]string(nil), toks...)}
		if !seen[s.request()] {
			seen[s.request()] = true
			out = append(out, s)
		}
	}
	var base [][]string
	var rec func(cur []string)
	rec = func(cur []string) {
		if len(cur) > 0 {
			base = append(base, append([]string(nil), cur...))
		}
		if len(cur) == maxLen {
			return
		}
		for _, a := range vAttempts {
			rec(append(cur, a))
		}
	}
	rec(nil)
	for _, b := range base {
		add(0, b)
		add(1, b)
		for i := range b {
			up := rng.intn(2)
			// a control event after attempt i
			for _, c := range []string{"st", "ua:1", "ua:0"} {
				t := append(append(append([]string(nil), b[:i+1]...), c), b[i+1:]...)
				add(up, t)
				if c == "st" {
					add(1-up, t)
				}
			}
			// attempt i is a connection during which Stop / UpdateAddr arrives
			if b[i] == "dr" || b[i] == "cl" {
				for _, c := range []string{"cs", "cu:1", "cu:0"} {
					t := append([]string(nil), b...)
					t[i] = c
					add(up, t)
				}
			}
		}
	}
	// address changes back and forth, two control events in one wait
	for _, t := range [][]string{
		{"df", "ua:1", "df", "ua:0", "df", "dr"},
		{"df", "ua:1", "ua:0", "df", "dr"},
		{"df", "ua:1", "st", "df"},
		// several address updates while disconnected, then Stop: the supervisor must stop although the idle client was already closed/discarded
		{"df", "ua:1", "ua:0", "st", "dr"},
		{"df", "ua:1", "ua:1", "st", "dr"},
		{"df", "ua:1", "ua:0", "ua:1", "st", "dr"},
		{"df", "df", "ua:1", "ua:0", "st", "dr"},
		{"hf", "ua:1", "ua:0", "st", "df"},
		{"dr", "ua:1", "dr", "cu:0", "df", "df"},
		{"cu:1", "cu:0", "cu:1", "df", "df"},
		{"df", "df", "df", "df", "df", "df", "dr", "df", "df"},
	} {
		add(0, t)
		add(1, t)
	}
	return out
}

func TestVerifC15(t *testing.T) {
	o := vopen(t)
	defer o.close()
	rng := &vrng{s: vseed()}

	oldQ, oldS := retry.Quick, retry.Slow
	retry.Quick = retry.ExpBackOff{BackOff: vW, Max: vW, KeepErrs: 10}
	retry.Slow = retry.ExpBackOff{BackOff: vW, Max: vW, KeepErrs: 10}
	defer func() { retry.Quick, retry.Slow = oldQ, oldS }()

	maxLen := 4
	if vthorough() {
		maxLen = 5
	}
	scripts := vscripts(maxLen, rng)
	if vthorough() {
		// longer pure outcome sequences
		var rec func(cur []string)
		rec = func(cur []string) {
			if len(cur) == 6 {
				if rng.intn(8) == 0 {
					scripts = append(scripts, vscript{up: rng.intn(2), toks: append([]string(nil), cur...)})
				}
				return
			}
			for _, a := range vAttempts {
				rec(append(cur, a))
			}
		}
		rec(nil)
		// accept-then-silent: the 60 s read timeout counts as a failed attempt
		scripts = append(scripts, vscript{up: 1, toks: []string{"hf", "df"}, silent: true}, vscript{up: 1, toks: []string{"df", "hf", "dr"}, silent: true})
		// a connection that lasted longer than a keep-alive interval and then broke, followed by one failed attempt: Down
		scripts = append(scripts, vscript{up: 1, toks: []string{"dr", "df"}, long: true}, vscript{up: 0, toks: []string{"df", "dr", "hf", "dr"}, long: true})
	}
	// an SDK that takes a while to acknowledge a report: the first connection at a new address is cut short (UpdateAddr
	// closed the idle client) and the next one follows at once, so two connection-success events overlap
	for _, t := range [][]string{
		{"df", "ua:1", "dr", "dr"}, {"df", "ua:1", "dr", "cl"}, {"hf", "ua:1", "df", "dr", "dr", "df"},
		{"df", "df", "ua:1", "dr", "cl", "dr"}, {"dr", "dr"}, {"df", "dr", "cl"},
	} {
		scripts = append(scripts, vscript{up: 0, toks: t, slow: true}, vscript{up: 1, toks: t, slow: true})
	}
	// EdgeX refuses the first Down report (the refusal is not a report): two more failed attempts later the service
	// reports Down again, so what EdgeX has taken is what the model says for the same attempts
	for _, t := range [][]string{{"df", "df", "df", "df"}, {"hf", "df", "df", "hf", "dr"}, {"df", "df", "df", "df", "df", "df"}} {
		scripts = append(scripts, vscript{up: 1, toks: t, refuse: true})
	}
	// the reader refuses the service's own SetReaderConfig: the service resets the connection itself (a local close)
	nrej := 0
	for _, b := range scripts {
		if b.slow || b.silent || b.rej {
			continue
		}
		has := false
		for _, t := range b.toks {
			if t == "cl" {
				has = true
			}
		}
		if has && (nrej < 120 || vthorough()) {
			scripts = append(scripts, vscript{up: b.up, toks: b.toks, rej: true})
			nrej++
		}
	}
	if only := os.Getenv("VERIF_C15_ONLY"); only != "" {
		// replay: one script, e.g. "1 df st" or "slow 0 df ua:1 dr dr"
		f := strings.Fields(only)
		if f[0] == "start" {
			up, _ := strconv.Atoi(f[1])
			o.line(fmt.Sprintf("supervisor-start %d cs", up), runStart(up))
			return
		}
		slow := f[0] == "slow"
		rej := f[0] == "rej"
		long := f[0] == "long"
		refuse := f[0] == "refuse"
		if slow || rej || long || refuse {
			f = f[1:]
		}
		up, _ := strconv.Atoi(f[0])
		scripts = []vscript{{up: up, toks: f[1:], slow: slow, rej: rej, long: long, refuse: refuse}}
	}

	results := make([]string, len(scripts))
	variants := make([]uint64, len(scripts))
	for i := range variants {
		variants[i] = rng.next()
	}
	var next int64 = -1
	var wg sync.WaitGroup
	workers := 48
	for k := 0; k < workers; k++ {
		wg.Add(1)
		go func() {
			defer wg.Done()
			for {
				i := int(atomic.AddInt64(&next, 1))
				if i >= len(scripts) {
					return
				}
				var r string
				for try := 0; try < 4; try++ {
					r = runScript(scripts[i], variants[i])
					if !strings.HasPrefix(r, "inconclusive:control-placement") && !strings.HasPrefix(r, "inconclusive:listen") {
						break
					}
				}
				results[i] = r
			}
		}()
	}
	wg.Wait()
	// a verdict that depends on where a control action fell relative to a 40 ms wait can stay open on a loaded machine:
	// such scripts are run again one at a time, with nothing else going on
	for i := range scripts {
		timeouts := 0
		for try := 0; try < 8 && (strings.HasPrefix(results[i], "inconclusive:") || (strings.HasPrefix(results[i], "timeout:") && timeouts < 2)); try++ {
			if strings.HasPrefix(results[i], "timeout:") {
				timeouts++
			}
			time.Sleep(20 * time.Millisecond)
			results[i] = runScript(scripts[i], variants[i])
		}
	}
	for i, s := range scripts {
		o.line(s.request(), results[i])
	}

	if os.Getenv("VERIF_C15_ONLY") == "" {
		// devices created by Driver.Start from the registered devices, with the operating state EdgeX has on record
		// (a device recorded Down must be reported Up when its reader accepts the connection; one recorded Up must not)
		for _, up := range []int{0, 1} {
			r := ""
			for try := 0; try < 3; try++ {
				r = runStart(up)
				if !strings.HasPrefix(r, "inconclusive:") && !strings.HasPrefix(r, "timeout:") {
					break
				}
			}
			o.line(fmt.Sprintf("supervisor-start %d cs", up), r)
		}
		// the SDK's own path for an address change (Driver.UpdateDevice) while the reader is unreachable: away and back again
		// — the service must end up dialling the address it was told last
		for _, seq := range []string{"ABA", "AB", "ABAB"} {
			o.line(fmt.Sprintf("same x%02x x%02x", seq[len(seq)-1], runUpdateDevice(seq)), "yes")
		}
		vTrySend(t, o)
	}
}

// runUpdateDevice: a device registered at address A whose reader is unreachable is given the addresses of `seq` (after
// the initial A) through Driver.UpdateDevice; then both addresses start to accept connections. Returns the letter of
// the address the service connects to first (0 = neither within the deadline).
func runUpdateDevice(seq string) (obs byte) {
	defer func() {
		if r := recover(); r != nil {
			obs = 'P'
		}
	}()
	w := newWorld(false)
	defer w.cleanup()
	protos := map[byte]map[string]contract.ProtocolProperties{}
	for i, l := range []byte{'A', 'B'} {
		host, port, _ := net.SplitHostPort(w.addrs[i].tcp)
		protos[l] = map[string]contract.ProtocolProperties{"tcp": {"host": host, "port": port}}
	}
	if err := w.d.AddDevice(w.name, protos[seq[0]], contract.Unlocked); err != nil {
		return 'E'
	}
	w.d.devicesMu.RLock()
	w.dev = w.d.activeDevices[w.name]
	w.d.devicesMu.RUnlock()
	time.Sleep(60 * time.Millisecond)
	for i := 1; i < len(seq); i++ {
		_ = w.d.UpdateDevice(w.name, protos[seq[i]], contract.Unlocked)
		time.Sleep(30 * time.Millisecond)
	}
	if w.listen(0, true) != nil || w.listen(1, true) != nil {
		return 'L'
	}
	select {
	case c := <-w.conns[0]:
		c.Close()
		return 'A'
	case c := <-w.conns[1]:
		c.Close()
		return 'B'
	case <-time.After(4 * time.Second):
		return 0
	}
}

// runStart: Driver.Start with one registered device whose recorded state is Down (up=0) or Up (up=1) and whose reader
// accepts the connection and the service's configuration; then Stop. The observation has the shape of the script `cs`.
func runStart(up int) (obs string) {
	defer func() {
		if r := recover(); r != nil {
			obs = fmt.Sprintf("panic:%v", r)
		}
	}()
	w := newWorld(false)
	defer w.cleanup()
	if err := w.listen(0, true); err != nil {
		return "inconclusive:listen:" + err.Error()
	}
	host, port, _ := net.SplitHostPort(w.addrs[0].tcp)
	st := contract.OperatingState(contract.Down)
	if up != 0 {
		st = contract.Up
	}
	w.d.svc.(*mocks.DeviceServiceSDK).On("Devices").Return([]contract.Device{{Name: w.name, OperatingState: st,
		Protocols: map[string]contract.ProtocolProperties{"tcp": {"host": host, "port": port}}}})
	if err := w.d.Start(); err != nil {
		return "inconclusive:start:" + err.Error()
	}
	w.d.devicesMu.RLock()
	w.dev = w.d.activeDevices[w.name]
	w.d.devicesMu.RUnlock()
	if w.dev == nil {
		return "nodevice"
	}
	var conn net.Conn
	select {
	case conn = <-w.conns[0]:
	case <-time.After(vDeadline):
		return "timeout:no-connection"
	}
	w.open = append(w.open, conn)
	td, err := llrp.NewReaderOnlyTestDevice(conn, true)
	if err != nil {
		return "inconclusive:testdevice:" + err.Error()
	}
	established := make(chan struct{})
	var once sync.Once
	td.SetResponse(llrp.MsgSetReaderConfig, &vresp{inner: &llrp.SetReaderConfigResponse{}, fn: func() { once.Do(func() { close(established) }) }})
	go func() {
		defer func() { _ = recover() }()
		td.ImpersonateReader()
	}()
	select {
	case <-established:
	case <-time.After(vDeadline):
		return "timeout:not-established"
	}
	// the service's own set-up ends with the Up report when the device was not Up: give it time either way
	for t0 := time.Now(); time.Since(t0) < 400*time.Millisecond; time.Sleep(2 * time.Millisecond) {
		w.mu.Lock()
		n := len(w.reports)
		w.mu.Unlock()
		if n > 0 {
			break
		}
	}
	ctx, cancel := context.WithTimeout(context.Background(), time.Second)
	_ = w.dev.Stop(ctx)
	cancel()
	time.Sleep(60 * time.Millisecond)
	extra := 0
	select {
	case c := <-w.conns[0]:
		c.Close()
		extra = 1
	default:
	}
	w.mu.Lock()
	reports := append([]string(nil), w.reports...)
	w.mu.Unlock()
	if extra != 0 {
		return vobs([]int{0, 0}, reports, false, 0)
	}
	return vobs([]int{0}, reports, true, 0)
}

// ---------------------------------------------------------------- TrySend

// vsendScript is the request handed to TrySend. TrySend's retried function evaluates request.Type() at the start of
// every attempt, before it reads l.client: that call installs the client scripted for this attempt
// (`ok` a connected client, `closed` a closed one, `nil` none, `other` a client whose SendFor fails in MarshalBinary)
// and counts the attempt. SendFor calls MarshalBinary once and, when that succeeded, Type() once more.
type vsendScript struct {
	mu       sync.Mutex
	outs     []string
	dev      *LLRPDevice
	ok       *llrp.Client
	payload  []byte
	attempts int
	sends    int
	inSend   bool // MarshalBinary of the current attempt succeeded: the next Type() belongs to SendMessage
}

func (r *vsendScript) outcome(i int) string {
	if i < len(r.outs) {
		return r.outs[i]
	}
	return "closed"
}

func (r *vsendScript) Type() llrp.MessageType {
	r.mu.Lock()
	defer r.mu.Unlock()
	if r.inSend {
		r.inSend = false
		return llrp.MsgGetReaderConfig
	}
	var c *llrp.Client
	switch r.outcome(r.attempts) {
	case "ok":
		c = r.ok
	case "nil":
	default:
		c = llrp.NewClient(llrp.WithLogger(nil))
		if r.outcome(r.attempts) == "closed" {
			_ = c.Close()
		}
	}
	r.attempts++
	r.dev.clientLock.Lock()
	r.dev.client = c
	r.dev.clientLock.Unlock()
	return llrp.MsgGetReaderConfig
}

func (r *vsendScript) MarshalBinary() ([]byte, error) {
	r.mu.Lock()
	defer r.mu.Unlock()
	r.sends++
	if r.outcome(r.attempts-1) == "other" {
		return nil, fmt.Errorf("scripted failure that is not a closed client")
	}
	r.inSend = true
	return r.payload, nil
}

func vTrySendOne(outs []string, okc *llrp.Client, payload []byte) (obs string) {
	defer func() {
		if r := recover(); r != nil {
			obs = fmt.Sprintf("panic:%v", r)
		}
	}()
	dev := &LLRPDevice{name: "sendDev", lc: logger.MockLogger{}}
	req := &vsendScript{outs: outs, dev: dev, ok: okc, payload: payload}
	ctx, cancel := context.WithTimeout(context.Background(), 10*time.Second)
	defer cancel()
	err := dev.TrySend(ctx, req, &llrp.GetReaderConfigResponse{})
	res := "ok"
	if err != nil {
		res = "err"
		if ctx.Err() != nil {
			res = "timeout"
		}
	}
	req.mu.Lock()
	defer req.mu.Unlock()
	return fmt.Sprintf("calls=%d sends=%d result=%s", req.attempts, req.sends, res)
}

func vTrySend(t *testing.T, o *vout) {
	rfid, err := llrp.NewTestDevice(llrp.Version1_0_1, llrp.Version1_1, 300*time.Second, true)
	if err != nil {
		t.Fatal(err)
	}
	rfid.SetResponse(llrp.MsgGetReaderConfig, &llrp.GetReaderConfigResponse{})
	go rfid.ImpersonateReader()
	okc := rfid.ConnectClient(t)
	payload, _ := (&llrp.GetReaderConfig{}).MarshalBinary()

	kinds := []string{"ok", "closed", "nil", "other"}
	var cases [][]string
	var rec func(cur []string)
	rec = func(cur []string) {
		if len(cur) == 5 {
			cases = append(cases, append([]string(nil), cur...))
			return
		}
		for _, k := range kinds {
			rec(append(cur, k))
		}
	}
	rec(nil)
	results := make([]string, len(cases))
	var next int64 = -1
	var wg sync.WaitGroup
	for k := 0; k < 48; k++ {
		wg.Add(1)
		go func() {
			defer wg.Done()
			for {
				i := int(atomic.AddInt64(&next, 1))
				if i >= len(cases) {
					return
				}
				results[i] = vTrySendOne(cases[i], okc, payload)
			}
		}()
	}
	wg.Wait()
	for i, c := range cases {
		o.line("trysend "+strings.Join(c, " "), results[i])
	}
}
