//go:build verif

package driver

// C14 — device commands map to the right LLRP request; keep-alive spec is enforced.
//
// The real Driver.HandleReadCommands / HandleWriteCommands are driven against a scripted LLRP reader that records
// every frame it receives and answers with a success response of the LLRP response type (request type + 10,
// CustomMessage for CustomMessage). One line per command: "<oracle request>\t<observation>".
//
// observation := reject                      error returned, no request frame arrived
//              | reject-after <frames>        error returned although frames had been sent
//              | <frame> [; <frame>…]         no error; every frame the reader received
//              | ok-nothing-sent | panic | timeout
// frame := req <type> <answered type> id=<n|-> custom=<vendor/subtype|-> payload=<p<i>|id|default|differ> ka=<trig/ival|->
//   payload=p<i>     the payload bytes equal what the harness computes independently from parameter i
//                    (typed document, keep-alive enforced per the property, MarshalBinary / raw base64 bytes)
//   payload=id       the payload is exactly the 4-byte identifier
//   payload=default  the payload is the documented fixed request (RequestedData All, zero ports / empty)

import (
	"bytes"
	"context"
	"encoding/base64"
	"encoding/binary"
	"encoding/json"
	"fmt"
	"io"
	"math"
	"net"
	"strconv"
	"strings"
	"sync"
	"testing"
	"time"

	"github.com/edgexfoundry/device-rfid-llrp-go/pkg/llrp"
	"github.com/edgexfoundry/device-sdk-go/v4/pkg/interfaces/mocks"
	dsModels "github.com/edgexfoundry/device-sdk-go/v4/pkg/models"
	"github.com/edgexfoundry/go-mod-core-contracts/v4/clients/logger"
	"github.com/edgexfoundry/go-mod-core-contracts/v4/common"
	"github.com/stretchr/testify/mock"
)

// ---------------------------------------------------------------- scripted reader

type c14frame struct {
	typ     uint16
	ver     uint8
	id      uint32
	payload []byte
	answer  uint16
}

type c14reader struct {
	hold   chan struct{} // when set: every reply waits until this channel is closed
	mu     sync.Mutex
	frames []c14frame
	setup  []c14frame // frames seen before `armed`
	armed  bool
	conns  int
}

func c14header(ver uint8, typ uint16, plen int, id uint32) []byte {
	h := make([]byte, 10)
	binary.BigEndian.PutUint16(h[0:2], uint16(ver)<<10|typ)
	binary.BigEndian.PutUint32(h[2:6], uint32(plen+10))
	binary.BigEndian.PutUint32(h[6:10], id)
	return h
}

// success payload for a response of the given type
func c14response(req c14frame) (uint16, []byte) {
	okStatus := []byte{0x01, 0x1F, 0x00, 0x08, 0x00, 0x00, 0x00, 0x00} // LLRPStatus(287), len 8, Success, empty description
	switch req.typ {
	case 1023:
		// CustomMessage: vendor, subtype, data
		return 1023, []byte{0, 0, 0x65, 0x1a, 22, 1, 2, 3}
	case 46: // GetSupportedVersion: a 1.0.1 reader answers ErrorMessage/VersionUnsupported
		em := &llrp.ErrorMessage{LLRPStatus: llrp.LLRPStatus{Status: llrp.StatusMsgVerUnsupported}}
		b, _ := em.MarshalBinary()
		return 100, b
	}
	return req.typ + 10, okStatus
}

func (r *c14reader) serve(conn net.Conn) {
	defer conn.Close()
	r.mu.Lock()
	r.conns++
	r.mu.Unlock()
	hello, _ := llrp.NewConnectMessage(llrp.ConnSuccess).MarshalBinary()
	if _, err := conn.Write(append(c14header(1, 63, len(hello), 1), hello...)); err != nil {
		return
	}
	hdr := make([]byte, 10)
	for {
		if _, err := io.ReadFull(conn, hdr); err != nil {
			return
		}
		w := binary.BigEndian.Uint16(hdr[0:2])
		l := binary.BigEndian.Uint32(hdr[2:6])
		f := c14frame{typ: w & 0x3ff, ver: uint8(w>>10) & 7, id: binary.BigEndian.Uint32(hdr[6:10])}
		if l < 10 || l > 1<<24 {
			return
		}
		f.payload = make([]byte, l-10)
		if _, err := io.ReadFull(conn, f.payload); err != nil {
			return
		}
		if f.typ == 72 { // KeepAliveAck
			continue
		}
		at, ap := c14response(f)
		f.answer = at
		r.mu.Lock()
		if r.armed {
			r.frames = append(r.frames, f)
		} else {
			r.setup = append(r.setup, f)
		}
		r.mu.Unlock()
		ver := f.ver
		if f.typ == 46 {
			ver = 1
		}
		if r.hold != nil {
			<-r.hold
		}
		if _, err := conn.Write(append(c14header(ver, at, len(ap), f.id), ap...)); err != nil {
			return
		}
	}
}

func (r *c14reader) take() []c14frame {
	r.mu.Lock()
	defer r.mu.Unlock()
	f := r.frames
	r.frames = nil
	return f
}

// ---------------------------------------------------------------- parameters and their oracle tokens

type c14param struct {
	name string
	tok  string                      // oracle <pval>
	cv   *dsModels.CommandValue      // the real parameter
	exp  map[llrp.MessageType][]byte // payload this parameter must produce when it supplies the payload of that message
}

func c14cv(name, typ string, v interface{}) *dsModels.CommandValue {
	cv, err := dsModels.NewCommandValue(name, typ, v)
	if err != nil {
		panic(fmt.Sprintf("harness: NewCommandValue(%q,%s,%v): %v", name, typ, v, err))
	}
	return cv
}

// strings cross to the oracle as one whitespace-free token
func c14tok(s string) string {
	return strings.NewReplacer("%", "%25", " ", "%20", "\t", "%09", "\n", "%0A").Replace(s)
}

func c14u32(name string, n uint32) c14param {
	return c14param{name: name, tok: fmt.Sprintf("u32:%d", n), cv: c14cv(name, common.ValueTypeUint32, n)}
}

// string parameter; raw != nil means s is valid base64 of raw
func c14str(name, s string, raw []byte) c14param {
	p := c14param{name: name, cv: c14cv(name, common.ValueTypeString, s)}
	if raw != nil {
		p.tok = "str:1:" + c14tok(s)
		p.exp = map[llrp.MessageType][]byte{llrp.MsgCustomMessage: raw}
	} else {
		p.tok = "str:0:" + c14tok(s)
	}
	return p
}

func c14null(name, typ string) c14param {
	return c14param{name: name, tok: "null", cv: c14cv(name, typ, nil)}
}

func c14other(name, typ string, v interface{}) c14param {
	return c14param{name: name, tok: "other", cv: c14cv(name, typ, v)}
}

// the keep-alive rule of the property, written independently of device.go: every SetReaderConfig carries
// KeepAliveSpec{Periodic, 30 000 ms}
func c14enforce(m *llrp.SetReaderConfig) {
	m.KeepAliveSpec = &llrp.KeepAliveSpec{Trigger: llrp.KeepAliveTriggerType(1), Interval: llrp.Millisecs32(30000)}
}

// object parameter from a typed document: Value is what EdgeX hands over (JSON decoded into map[string]interface{})
func c14objFrom(name string, doc interface{}) c14param {
	js, err := json.Marshal(doc)
	if err != nil {
		panic(err)
	}
	var v map[string]interface{}
	if err := json.Unmarshal(js, &v); err != nil {
		panic(err)
	}
	p := c14param{name: name, cv: c14cv(name, common.ValueTypeObject, v), exp: map[llrp.MessageType][]byte{}}
	ka := "-"
	switch d := doc.(type) {
	case *llrp.SetReaderConfig:
		if d.KeepAliveSpec != nil {
			ka = fmt.Sprintf("%d/%d", d.KeepAliveSpec.Trigger, d.KeepAliveSpec.Interval)
		}
		cp := *d
		c14enforce(&cp)
		b, err := cp.MarshalBinary()
		if err != nil {
			panic(err)
		}
		p.exp[llrp.MsgSetReaderConfig] = b
	case *llrp.ROSpec:
		b, err := (&llrp.AddROSpec{ROSpec: *d}).MarshalBinary()
		if err != nil {
			panic(err)
		}
		p.exp[llrp.MsgAddROSpec] = b
	case *llrp.AccessSpec:
		b, err := (&llrp.AddAccessSpec{AccessSpec: *d}).MarshalBinary()
		if err != nil {
			panic(err)
		}
		p.exp[llrp.MsgAddAccessSpec] = b
	}
	p.tok = "obj:1:" + ka
	return p
}

// object parameter given as a raw JSON-like value together with the typed document it must decode to
func c14objRaw(name string, v interface{}, doc interface{}) c14param {
	p := c14objFrom(name, doc)
	p.cv = c14cv(name, common.ValueTypeObject, v)
	return p
}

// object parameter that cannot become the target structure
func c14objBad(name string, v interface{}) c14param {
	return c14param{name: name, tok: "obj:0:-", cv: c14cv(name, common.ValueTypeObject, v)}
}

func c14custom(rng *vrng) []llrp.Custom {
	if rng.intn(3) != 0 {
		return nil
	}
	d := make([]byte, rng.intn(9))
	for i := range d {
		d[i] = byte(rng.next())
	}
	return []llrp.Custom{{VendorID: uint32(rng.next()), Subtype: uint32(rng.next()), Data: d}}
}

func c14readerConfig(rng *vrng, ka *llrp.KeepAliveSpec) *llrp.SetReaderConfig {
	m := &llrp.SetReaderConfig{KeepAliveSpec: ka}
	if rng.intn(2) == 0 {
		m.ResetToFactoryDefaults = true
	}
	if rng.intn(2) == 0 {
		e := llrp.EventsAndReports(rng.intn(2) == 0)
		m.EventsAndReports = &e
	}
	if rng.intn(2) == 0 {
		m.ROReportSpec = &llrp.ROReportSpec{Trigger: llrp.ROReportTriggerType(rng.intn(3)), N: uint16(rng.next()),
			TagReportContentSelector: llrp.TagReportContentSelector{EnableROSpecID: rng.intn(2) == 0, EnableAntennaID: rng.intn(2) == 0}}
	}
	if rng.intn(3) == 0 {
		m.ReaderEventNotificationSpec = &llrp.ReaderEventNotificationSpec{EventNotificationStates: []llrp.EventNotificationState{
			{ReaderEventType: llrp.ReaderEventType(rng.intn(9)), NotificationEnabled: rng.intn(2) == 0}}}
	}
	if rng.intn(3) == 0 {
		m.GPIPortCurrentStates = []llrp.GPIPortCurrentState{{Port: uint16(rng.next()), Enabled: rng.intn(2) == 0, State: llrp.GPIStateType(rng.intn(3))}}
	}
	m.Custom = c14custom(rng)
	return m
}

func c14roSpec(rng *vrng) *llrp.ROSpec {
	s := &llrp.ROSpec{ROSpecID: uint32(rng.next()), Priority: uint8(rng.intn(8)), ROSpecCurrentState: llrp.ROSpecCurrentStateType(rng.intn(3))}
	s.ROBoundarySpec.StartTrigger.Trigger = llrp.ROSpecStartTriggerType(rng.intn(2))
	s.ROBoundarySpec.StopTrigger.Trigger = llrp.ROSpecStopTriggerType(rng.intn(2))
	s.ROBoundarySpec.StopTrigger.DurationTriggerValue = llrp.Millisecs32(rng.next())
	for i, n := 0, rng.intn(3); i < n; i++ {
		ai := llrp.AISpec{AntennaIDs: []llrp.AntennaID{llrp.AntennaID(rng.intn(5))}}
		ai.StopTrigger.Trigger = llrp.AISpecStopTriggerType(rng.intn(2))
		ai.StopTrigger.DurationTriggerValue = llrp.Millisecs32(rng.next())
		ai.InventoryParameterSpecs = []llrp.InventoryParameterSpec{{InventoryParameterSpecID: uint16(rng.next()), AirProtocolID: llrp.AirProtocolIDType(1)}}
		ai.Custom = c14custom(rng)
		s.AISpecs = append(s.AISpecs, ai)
	}
	if rng.intn(2) == 0 {
		s.ROReportSpec = &llrp.ROReportSpec{Trigger: llrp.ROReportTriggerType(rng.intn(3)), N: uint16(rng.next())}
	}
	s.Custom = c14custom(rng)
	return s
}

func c14accessSpec(rng *vrng) *llrp.AccessSpec {
	s := &llrp.AccessSpec{AccessSpecID: uint32(rng.next()), AntennaID: llrp.AntennaID(rng.intn(5)), AirProtocolID: llrp.AirProtocolIDType(1),
		IsActive: rng.intn(2) == 0, ROSpecID: uint32(rng.next())}
	s.Trigger.Trigger = llrp.AccessSpecStopTriggerType(rng.intn(2))
	s.Trigger.OperationCountValue = uint16(rng.next())
	n := rng.intn(5)
	mask := make([]byte, n)
	for i := range mask {
		mask[i] = byte(rng.next())
	}
	s.AccessCommand.C1G2TagSpec.TagPattern1 = llrp.C1G2TargetTag{C1G2MemoryBank: llrp.C1G2MemoryBankType(rng.intn(4)), MatchFlag: rng.intn(2) == 0,
		MostSignificantBit: uint16(rng.next()), TagMaskNumBits: uint16(8 * n), TagMask: mask, TagDataNumBits: uint16(8 * n), TagData: mask}
	if rng.intn(2) == 0 {
		s.AccessCommand.C1G2Read = &llrp.C1G2Read{OpSpecID: uint16(rng.next()), AccessPassword: uint32(rng.next()),
			C1G2MemoryBank: llrp.C1G2MemoryBankType(rng.intn(4)), WordAddress: uint16(rng.next()), WordCount: uint16(rng.next())}
	}
	s.Custom = c14custom(rng)
	return s
}

// ---------------------------------------------------------------- attributes

type c14attr struct {
	tok string
	set bool
	val interface{}
}

var c14attrVals = []c14attr{
	{tok: "missing"},
	{tok: "empty", set: true, val: ""},
	{tok: "nonstring", set: true, val: 21},
	{tok: "nonstring", set: true, val: true},
	{tok: "nonstring", set: true, val: map[string]interface{}{"a": 1}},
	{tok: "nonstring", set: true, val: uint32(7)},
	{tok: "num:0", set: true, val: "0"},
	{tok: "num:1", set: true, val: "1"},
	{tok: "num:21", set: true, val: "21"},
	{tok: "num:7", set: true, val: "007"},
	{tok: "num:255", set: true, val: "255"},
	{tok: "num:256", set: true, val: "256"},
	{tok: "num:25882", set: true, val: "25882"},
	{tok: "num:4294967295", set: true, val: "4294967295"},
	{tok: "num:4294967296", set: true, val: "4294967296"},
	{tok: "num:18446744073709551615", set: true, val: "18446744073709551615"},
	{tok: "num:18446744073709551616", set: true, val: "18446744073709551616"},
	{tok: "nonnum", set: true, val: "abc"},
	{tok: "nonnum", set: true, val: "-1"},
	{tok: "nonnum", set: true, val: "1.5"},
	{tok: "nonnum", set: true, val: "0x10"},
	{tok: "nonnum", set: true, val: " 5"},
	{tok: "nonnum", set: true, val: "+5"},
	{tok: "nonnum", set: true, val: "5 "},
}

type c14attrs struct {
	toks []string
	m    map[string]interface{}
}

func c14mkAttrs(kv ...interface{}) c14attrs {
	a := c14attrs{}
	for i := 0; i+1 < len(kv); i += 2 {
		k := kv[i].(string)
		v := kv[i+1].(c14attr)
		a.toks = append(a.toks, "a:"+c14tok(k)+"="+v.tok)
		if v.set {
			if a.m == nil {
				a.m = map[string]interface{}{}
			}
			a.m[k] = v.val
		}
	}
	return a
}

// ---------------------------------------------------------------- running one command

type c14env struct {
	d   *Driver
	rd  *c14reader
	dev string
	p   protocolMap
	o   *vout
	n   map[string]int
}

const c14watchdog = 8 * time.Second

func (e *c14env) call(f func() error) (obs string, err error) {
	type res struct {
		err error
		pan bool
	}
	ch := make(chan res, 1)
	go func() {
		defer func() {
			if r := recover(); r != nil {
				ch <- res{pan: true}
			}
		}()
		ch <- res{err: f()}
	}()
	select {
	case r := <-ch:
		if r.pan {
			return "panic", nil
		}
		return "", r.err
	case <-time.After(c14watchdog):
		return "timeout", nil
	}
}

func c14decode(f c14frame, params []c14param) string {
	id, cu, ka, pl := "-", "-", "-", "differ"
	var m interface {
		UnmarshalBinary([]byte) error
	}
	mt := llrp.MessageType(f.typ)
	def := false
	switch mt {
	case llrp.MsgGetReaderCapabilities:
		m = &llrp.GetReaderCapabilities{}
		def = bytes.Equal(f.payload, []byte{0})
	case llrp.MsgGetReaderConfig:
		m = &llrp.GetReaderConfig{}
		def = bytes.Equal(f.payload, make([]byte, 7))
	case llrp.MsgGetROSpecs:
		m = &llrp.GetROSpecs{}
		def = len(f.payload) == 0
	case llrp.MsgGetAccessSpecs:
		m = &llrp.GetAccessSpecs{}
		def = len(f.payload) == 0
	case llrp.MsgSetReaderConfig:
		m = &llrp.SetReaderConfig{}
	case llrp.MsgAddROSpec:
		m = &llrp.AddROSpec{}
	case llrp.MsgAddAccessSpec:
		m = &llrp.AddAccessSpec{}
	case llrp.MsgEnableROSpec:
		m = &llrp.EnableROSpec{}
	case llrp.MsgStartROSpec:
		m = &llrp.StartROSpec{}
	case llrp.MsgStopROSpec:
		m = &llrp.StopROSpec{}
	case llrp.MsgDisableROSpec:
		m = &llrp.DisableROSpec{}
	case llrp.MsgDeleteROSpec:
		m = &llrp.DeleteROSpec{}
	case llrp.MsgEnableAccessSpec:
		m = &llrp.EnableAccessSpec{}
	case llrp.MsgDisableAccessSpec:
		m = &llrp.DisableAccessSpec{}
	case llrp.MsgDeleteAccessSpec:
		m = &llrp.DeleteAccessSpec{}
	case llrp.MsgCustomMessage:
		m = &llrp.CustomMessage{}
	default:
		return fmt.Sprintf("req %d %d undecodable", f.typ, f.answer)
	}
	if err := m.UnmarshalBinary(f.payload); err != nil {
		return fmt.Sprintf("req %d %d undecodable", f.typ, f.answer)
	}
	setID := func(n uint32) {
		id = strconv.FormatUint(uint64(n), 10)
		if len(f.payload) == 4 && binary.BigEndian.Uint32(f.payload) == n {
			pl = "id"
		}
	}
	switch v := m.(type) {
	case *llrp.EnableROSpec:
		setID(v.ROSpecID)
	case *llrp.StartROSpec:
		setID(v.ROSpecID)
	case *llrp.StopROSpec:
		setID(v.ROSpecID)
	case *llrp.DisableROSpec:
		setID(v.ROSpecID)
	case *llrp.DeleteROSpec:
		setID(v.ROSpecID)
	case *llrp.EnableAccessSpec:
		setID(v.AccessSpecID)
	case *llrp.DisableAccessSpec:
		setID(v.AccessSpecID)
	case *llrp.DeleteAccessSpec:
		setID(v.AccessSpecID)
	case *llrp.SetReaderConfig:
		if v.KeepAliveSpec != nil {
			ka = fmt.Sprintf("%d/%d", v.KeepAliveSpec.Trigger, v.KeepAliveSpec.Interval)
		}
	case *llrp.CustomMessage:
		cu = fmt.Sprintf("%d/%d", v.VendorID, v.MessageSubtype)
	}
	if def {
		pl = "default"
	}
	for i, p := range params {
		want, ok := p.exp[mt]
		if !ok {
			continue
		}
		got := f.payload
		if mt == llrp.MsgCustomMessage {
			if len(got) < 5 {
				continue
			}
			got = got[5:]
		}
		if bytes.Equal(got, want) {
			pl = fmt.Sprintf("p%d", i)
			break
		}
	}
	return fmt.Sprintf("req %d %d id=%s custom=%s payload=%s ka=%s", f.typ, f.answer, id, cu, pl, ka)
}

func (e *c14env) observe(pre string, err error, params []c14param) string {
	if pre != "" {
		e.rd.take()
		return pre
	}
	frames := e.rd.take()
	descs := make([]string, len(frames))
	for i, f := range frames {
		descs[i] = c14decode(f, params)
	}
	all := strings.Join(descs, " ; ")
	switch {
	case err != nil && len(frames) == 0:
		return "reject"
	case err != nil:
		return "reject-after " + all
	case len(frames) == 0:
		return "ok-nothing-sent"
	}
	return all
}

func (e *c14env) write(names []string, at c14attrs, params []c14param) string {
	reqs := make([]dsModels.CommandRequest, len(names))
	for i, n := range names {
		reqs[i] = dsModels.CommandRequest{DeviceResourceName: n, Type: common.ValueTypeString}
	}
	if len(reqs) > 0 {
		reqs[0].Attributes = at.m
	}
	var cvs []*dsModels.CommandValue
	for _, p := range params {
		cvs = append(cvs, p.cv)
	}
	toks := []string{"cmd-write"}
	for _, n := range names {
		toks = append(toks, "r:"+c14tok(n))
	}
	toks = append(toks, at.toks...)
	for _, p := range params {
		toks = append(toks, "p:"+c14tok(p.name)+"="+p.tok)
	}
	pre, err := e.call(func() error { return e.d.HandleWriteCommands(e.dev, e.p, reqs, cvs) })
	obs := e.observe(pre, err, params)
	e.o.line(strings.Join(toks, " "), obs)
	e.n[strings.SplitN(obs, " ", 2)[0]]++
	return obs
}

func (e *c14env) read(names []string, at c14attrs) string {
	reqs := make([]dsModels.CommandRequest, len(names))
	for i, n := range names {
		reqs[i] = dsModels.CommandRequest{DeviceResourceName: n, Type: common.ValueTypeObject, Attributes: at.m}
	}
	toks := []string{"cmd-read"}
	for _, n := range names {
		toks = append(toks, "r:"+c14tok(n))
	}
	var out []*dsModels.CommandValue
	pre, err := e.call(func() error {
		var err error
		out, err = e.d.HandleReadCommands(e.dev, e.p, reqs)
		return err
	})
	obs := e.observe(pre, err, nil)
	if pre == "" && err == nil {
		// the results handed back to EdgeX: one per request, named after the resource, holding the response structure
		// of the type the reader answered with
		frames := strings.Split(obs, " ; ")
		if len(out) != len(names) || len(frames) != len(names) {
			obs += fmt.Sprintf(" results=%d", len(out))
		} else {
			for i, cv := range out {
				if cv == nil {
					obs += fmt.Sprintf(" bad-result=%d", i)
					continue
				}
				in, ok := cv.Value.(llrp.Incoming)
				if !ok || cv.DeviceResourceName != names[i] || !strings.HasPrefix(frames[i], fmt.Sprintf("req %d %d ", in.Type()-10, in.Type())) {
					obs += fmt.Sprintf(" bad-result=%d", i)
				}
			}
		}
	}
	e.o.line(strings.Join(toks, " "), obs)
	e.n[strings.SplitN(obs, " ", 2)[0]]++
	return obs
}

// ---------------------------------------------------------------- the test

var c14names = []string{ResourceReaderCap, ResourceReaderConfig, ResourceReaderNotification, ResourceROSpec, ResourceROSpecID,
	ResourceAccessSpec, ResourceAccessSpecID, ResourceROAccessReport, ResourceAction, "MyCustomMessage", "", "readerconfig"}

var c14actions = []string{ActionEnable, ActionStart, ActionStop, ActionDisable, ActionDelete, "Restart", "", "start", "ENABLE"}

func c14newEnv(t *testing.T, o *vout) *c14env {
	rd := &c14reader{armed: true}
	cConn, rConn := net.Pipe()
	go rd.serve(rConn)
	client := llrp.NewClient(llrp.WithVersion(llrp.Version1_0_1), llrp.WithLogger(nil), llrp.WithTimeout(30*time.Second))
	go func() { _ = client.Connect(cConn) }()
	t.Cleanup(func() { _ = client.Close(); _ = rConn.Close() })
	async := make(chan *dsModels.AsyncValues, 16)
	go func() {
		for range async {
		}
	}()
	lc := logger.MockLogger{}
	d := &Driver{lc: lc, activeDevices: map[string]*LLRPDevice{}, asyncCh: async}
	d.activeDevices["vdev"] = &LLRPDevice{name: "vdev", client: client, lc: lc, ch: async}
	return &c14env{d: d, rd: rd, dev: "vdev", p: protocolMap{}, o: o, n: map[string]int{}}
}

// c14twoReaders: the same resource read on two devices at overlapping times: each command results in its own LLRP
// request to its own reader (a read is never answered from another device's exchange)
func c14twoReaders(t *testing.T, o *vout) {
	lc := logger.MockLogger{}
	async := make(chan *dsModels.AsyncValues, 16)
	go func() {
		for range async {
		}
	}()
	d := &Driver{lc: lc, activeDevices: map[string]*LLRPDevice{}, asyncCh: async}
	rds := map[string]*c14reader{}
	hold := make(chan struct{})
	for _, name := range []string{"vdevA", "vdevB"} {
		rd := &c14reader{armed: true}
		if name == "vdevA" {
			rd.hold = hold
		}
		cConn, rConn := net.Pipe()
		go rd.serve(rConn)
		client := llrp.NewClient(llrp.WithVersion(llrp.Version1_0_1), llrp.WithLogger(nil), llrp.WithTimeout(30*time.Second))
		go func() { _ = client.Connect(cConn) }()
		t.Cleanup(func() { _ = client.Close(); _ = rConn.Close() })
		d.activeDevices[name] = &LLRPDevice{name: name, client: client, lc: lc, ch: async}
		rds[name] = rd
	}
	for _, res := range []string{ResourceReaderCap, ResourceReaderConfig, ResourceROSpec} {
		reqs := []dsModels.CommandRequest{{DeviceResourceName: res, Type: common.ValueTypeObject}}
		doneA := make(chan error, 1)
		go func() { _, err := d.HandleReadCommands("vdevA", protocolMap{}, reqs); doneA <- err }()
		// wait until A's request is at its reader (which holds the reply back)
		for t0 := time.Now(); time.Since(t0) < 2*time.Second; time.Sleep(time.Millisecond) {
			rds["vdevA"].mu.Lock()
			n := len(rds["vdevA"].frames)
			rds["vdevA"].mu.Unlock()
			if n > 0 {
				break
			}
		}
		doneB := make(chan error, 1)
		go func() { _, err := d.HandleReadCommands("vdevB", protocolMap{}, reqs); doneB <- err }()
		var errB error
		select {
		case errB = <-doneB:
		case <-time.After(1500 * time.Millisecond):
			errB = fmt.Errorf("timeout")
		}
		nb := len(rds["vdevB"].take())
		// release A
		select {
		case hold <- struct{}{}:
		case <-time.After(2 * time.Second):
		}
		select {
		case <-doneA:
		case <-time.After(3 * time.Second):
		}
		na := len(rds["vdevA"].take())
		okB := byte(0)
		if errB == nil {
			okB = 1
		}
		// expected: B's read succeeded with exactly one request at B's reader, and A's reader saw exactly one request
		o.line(fmt.Sprintf("same x010101 x%02x%02x%02x", okB, nb, na), "yes")
	}
}

func TestVerifC14(t *testing.T) {
	o := vopen(t)
	defer o.close()
	rng := &vrng{s: vseed()}
	c14twoReaders(t, o)
	e := c14newEnv(t, o)
	thorough := vthorough()

	stop := func(obs string) bool {
		if obs == "timeout" {
			t.Log("watchdog fired; stopping the sweep (the connection state is unknown)")
			return true
		}
		return false
	}

	noAttrs := c14mkAttrs()
	goodAttrs := c14mkAttrs(AttribVendor, c14attr{tok: "num:25882", set: true, val: "25882"}, AttribSubtype, c14attr{tok: "num:21", set: true, val: "21"})
	ids := []uint32{0, 1, 1 << 31, 1<<32 - 1, uint32(rng.next())}
	nids := 24
	if vthorough() {
		nids = 400
	}
	for i := 0; i < nids; i++ {
		ids = append(ids, uint32(rng.next())>>uint(rng.intn(32)))
	}
	raw := []byte{0, 0, 0, 0}
	b64good := func(name string) c14param { return c14str(name, base64.StdEncoding.EncodeToString(raw), raw) }

	// ---- R: reads — every list of 0…3 names (12 names), attributes are ignored
	{
		if stop(e.read(nil, noAttrs)) {
			return
		}
		for _, a := range c14names {
			for _, at := range []c14attrs{noAttrs, goodAttrs} {
				if stop(e.read([]string{a}, at)) {
					return
				}
			}
			for _, b := range c14names {
				if stop(e.read([]string{a, b}, noAttrs)) {
					return
				}
				for _, c := range c14names {
					if !thorough && rng.intn(4) != 0 {
						continue
					}
					if stop(e.read([]string{a, b, c}, noAttrs)) {
						return
					}
				}
			}
		}
	}

	// parameter kinds offered in position 0 for resource r
	p0kinds := func(r string) []c14param {
		ps := []c14param{
			c14u32(r, ids[rng.intn(len(ids))]),
			c14str(r, ActionStart, nil),
			b64good(r),
			c14str(r, "!!!not base64", nil),
			c14null(r, common.ValueTypeObject),
			c14null(r, common.ValueTypeUint32),
			c14null(r, common.ValueTypeString),
			c14other(r, common.ValueTypeBool, true),
			c14other(r, common.ValueTypeFloat64, 1.5),
			c14other(r, common.ValueTypeObject, []interface{}{1, 2}),
			c14other(r, common.ValueTypeObject, "a string in an object-typed value"),
			c14other(r, common.ValueTypeObject, map[string]interface{}{"c": make(chan int)}), // json.Marshal fails
			c14other(r, common.ValueTypeObject, math.NaN()),                                  // json.Marshal fails
			c14other(r, common.ValueTypeUint32Array, []uint32{1}),
			{name: r, tok: "null", cv: c14cv(r, common.ValueTypeObject, map[string]interface{}(nil))}, // typed nil map: JSON null
		}
		switch r {
		case ResourceROSpec:
			ps = append(ps, c14objFrom(r, c14roSpec(rng)), c14objFrom(r, &llrp.ROSpec{}),
				c14objBad(r, map[string]interface{}{"ROSpecID": "abc"}), c14objBad(r, map[string]interface{}{"Priority": 256}))
		case ResourceAccessSpec:
			ps = append(ps, c14objFrom(r, c14accessSpec(rng)), c14objFrom(r, &llrp.AccessSpec{}),
				c14objBad(r, map[string]interface{}{"AccessSpecID": -1}), c14objBad(r, map[string]interface{}{"AccessCommand": []interface{}{}}))
		default:
			ps = append(ps, c14objFrom(r, c14readerConfig(rng, nil)), c14objFrom(r, &llrp.SetReaderConfig{}),
				c14objFrom(r, c14readerConfig(rng, &llrp.KeepAliveSpec{Trigger: 0, Interval: 5000})),
				c14objBad(r, map[string]interface{}{"KeepAliveSpec": "x"}), c14objBad(r, map[string]interface{}{"ResetToFactoryDefaults": 3}),
				// unknown fields are ignored by encoding/json; the known ones count
				c14objRaw(r, map[string]interface{}{"Unknown": 1, "KeepAliveSpec": map[string]interface{}{"Trigger": 0, "Interval": 7}},
					&llrp.SetReaderConfig{KeepAliveSpec: &llrp.KeepAliveSpec{Trigger: 0, Interval: 7}}),
				c14objRaw(r, map[string]interface{}{"ROSpecID": 5}, &llrp.SetReaderConfig{}))
		}
		return ps
	}
	p1kinds := func() []c14param {
		ps := []c14param{}
		for _, a := range c14actions {
			ps = append(ps, c14str(ResourceAction, a, nil))
		}
		ps = append(ps,
			c14str("NotAction", ActionStart, nil), c14str("action", ActionStart, nil), c14str("", ActionEnable, nil),
			c14u32(ResourceAction, 1), c14null(ResourceAction, common.ValueTypeString),
			c14other(ResourceAction, common.ValueTypeBool, true), c14objFrom(ResourceAction, &llrp.SetReaderConfig{}),
			c14str(ResourceROSpecID, ActionStart, nil))
		return ps
	}

	// ---- W0: no requests at all / no parameters
	for _, ps := range [][]c14param{nil, {c14u32(ResourceROSpecID, 1)}, {c14u32(ResourceROSpecID, 1), c14str(ResourceAction, ActionStart, nil)}} {
		if stop(e.write(nil, noAttrs, ps)) {
			return
		}
	}

	// ---- W1: resource × first parameter kind × (second request/parameter) × attributes × count mismatches
	for _, r := range c14names {
		for _, at := range []c14attrs{noAttrs, goodAttrs} {
			for _, p0 := range p0kinds(r) {
				// one request, one parameter
				if stop(e.write([]string{r}, at, []c14param{p0})) {
					return
				}
				// mismatched counts
				if stop(e.write([]string{r}, at, nil)) {
					return
				}
				if stop(e.write([]string{r}, at, []c14param{p0, c14str(ResourceAction, ActionStart, nil)})) {
					return
				}
				if stop(e.write([]string{r, ResourceAction}, at, []c14param{p0})) {
					return
				}
				for _, p1 := range p1kinds() {
					// two requests, two parameters; the second request's name usually equals the parameter's, sometimes not
					n1 := p1.name
					if rng.intn(8) == 0 {
						n1 = c14names[rng.intn(len(c14names))]
					}
					if stop(e.write([]string{r, n1}, at, []c14param{p0, p1})) {
						return
					}
					// three of each
					if thorough || rng.intn(4) == 0 {
						p2 := c14str(ResourceAction, ActionStop, nil)
						if stop(e.write([]string{r, n1, p2.name}, at, []c14param{p0, p1, p2})) {
							return
						}
						if stop(e.write([]string{r, n1, p2.name}, at, []c14param{p0, p1})) {
							return
						}
					}
				}
			}
		}
	}

	// ---- W2: identifiers × actions for both ID resources (and the ID as a string / the action as a number)
	for _, r := range []string{ResourceROSpecID, ResourceAccessSpecID} {
		for _, a := range c14actions {
			for _, id := range ids {
				if stop(e.write([]string{r, ResourceAction}, noAttrs, []c14param{c14u32(r, id), c14str(ResourceAction, a, nil)})) {
					return
				}
			}
			if stop(e.write([]string{r, ResourceAction}, noAttrs, []c14param{c14str(r, "1", nil), c14str(ResourceAction, a, nil)})) {
				return
			}
			// Action first, ID second
			if stop(e.write([]string{ResourceAction, r}, noAttrs, []c14param{c14str(ResourceAction, a, nil), c14u32(r, 1)})) {
				return
			}
		}
	}

	// ---- W3: custom messages — vendor × subtype attribute kinds × payload kinds
	for _, r := range []string{"MyCustomMessage", "", ResourceReaderCap, ResourceAction} {
		for _, v := range c14attrVals {
			for _, s := range c14attrVals {
				if r != "MyCustomMessage" && !thorough && rng.intn(6) != 0 {
					continue
				}
				at := c14mkAttrs(AttribVendor, v, AttribSubtype, s)
				n := rng.intn(12)
				data := make([]byte, n)
				for i := range data {
					data[i] = byte(rng.next())
				}
				for _, p0 := range []c14param{c14str(r, base64.StdEncoding.EncodeToString(data), data), c14str(r, "a", nil), c14u32(r, 5)} {
					if stop(e.write([]string{r}, at, []c14param{p0})) {
						return
					}
				}
			}
		}
		// misspelt attribute keys; url-safe / unpadded base64
		okv := c14attr{tok: "num:25882", set: true, val: "25882"}
		oks := c14attr{tok: "num:21", set: true, val: "21"}
		for _, at := range []c14attrs{c14mkAttrs("Vendor", okv, AttribSubtype, oks), c14mkAttrs(AttribVendor, okv, "Subtype", oks),
			c14mkAttrs("vendor ", okv, "subtype", oks), c14mkAttrs(AttribSubtype, oks, AttribVendor, okv)} {
			if stop(e.write([]string{r}, at, []c14param{b64good(r)})) {
				return
			}
		}
		for _, s := range []string{"AAA", "AA==A", "_-_-", "AAAA AAAA", "=AAA"} {
			if stop(e.write([]string{r}, goodAttrs, []c14param{c14str(r, s, nil)})) {
				return
			}
		}
		if stop(e.write([]string{r}, goodAttrs, []c14param{c14str(r, "", []byte{})})) {
			return
		}
	}

	// ---- W4: documents — ReaderConfig with/without its own KeepAliveSpec, ROSpecs, AccessSpecs
	kas := []*llrp.KeepAliveSpec{nil, {Trigger: 1, Interval: 30000}, {Trigger: 0, Interval: 0}, {Trigger: 1, Interval: 5000}, {Trigger: 0, Interval: 30000},
		{Trigger: 1, Interval: 1<<32 - 1}, {Trigger: 1, Interval: 29999}, {Trigger: 1, Interval: 30001}, {Trigger: 1, Interval: 60000}, {Trigger: 1, Interval: 0}}
	ndocs := 40
	if thorough {
		ndocs = 400
	}
	for i := 0; i < ndocs; i++ {
		for _, ka := range append(kas, &llrp.KeepAliveSpec{Trigger: llrp.KeepAliveTriggerType(rng.intn(2)), Interval: llrp.Millisecs32(rng.next())}) {
			var k *llrp.KeepAliveSpec
			if ka != nil {
				c := *ka
				k = &c
			}
			if stop(e.write([]string{ResourceReaderConfig}, noAttrs, []c14param{c14objFrom(ResourceReaderConfig, c14readerConfig(rng, k))})) {
				return
			}
		}
		for j := 0; j < 4; j++ {
			if stop(e.write([]string{ResourceROSpec}, noAttrs, []c14param{c14objFrom(ResourceROSpec, c14roSpec(rng))})) {
				return
			}
			if stop(e.write([]string{ResourceAccessSpec}, noAttrs, []c14param{c14objFrom(ResourceAccessSpec, c14accessSpec(rng))})) {
				return
			}
		}
	}
	// a KeepAliveSpec of the wrong JSON shape
	for _, bad := range []interface{}{
		map[string]interface{}{"KeepAliveSpec": map[string]interface{}{"Trigger": "periodic"}},
		map[string]interface{}{"KeepAliveSpec": map[string]interface{}{"Interval": -5}},
		map[string]interface{}{"KeepAliveSpec": []interface{}{1}},
		map[string]interface{}{"Custom": []interface{}{map[string]interface{}{"Data": "not base64 !"}}},
	} {
		if stop(e.write([]string{ResourceReaderConfig}, noAttrs, []c14param{c14objBad(ResourceReaderConfig, bad)})) {
			return
		}
	}

	// ---- E: the keep-alive rule alone, through TrySend, for hand-built SetReaderConfig messages
	for _, ka := range kas {
		m := &llrp.SetReaderConfig{}
		tok := "-"
		if ka != nil {
			c := *ka
			m.KeepAliveSpec = &c
			tok = fmt.Sprintf("%d/%d", ka.Trigger, ka.Interval)
		}
		dev := e.d.activeDevices[e.dev]
		pre, err := e.call(func() error {
			ctx, cancel := context.WithTimeout(context.Background(), 5*time.Second)
			defer cancel()
			return dev.TrySend(ctx, m, &llrp.SetReaderConfigResponse{})
		})
		obs := pre
		if pre == "" {
			fr := e.rd.take()
			obs = "err"
			if err == nil && len(fr) == 1 && fr[0].typ == 3 {
				got := &llrp.SetReaderConfig{}
				obs = "undecodable"
				if got.UnmarshalBinary(fr[0].payload) == nil {
					obs = "-"
					if got.KeepAliveSpec != nil {
						obs = fmt.Sprintf("%d/%d", got.KeepAliveSpec.Trigger, got.KeepAliveSpec.Interval)
					}
				}
			}
		}
		o.line("enforce-ka 3 "+tok, obs)
		if stop(obs) {
			return
		}
	}

	// ---- L: the real device path on loopback TCP — getDevice/NewLLRPDevice dials the scripted reader, the service
	// itself sends a SetReaderConfig on connect, then commands go through the same connection
	c14loopback(t, o)

	t.Logf("C14 cases=%d outcomes=%v", o.n, e.n)
}

func c14loopback(t *testing.T, o *vout) {
	ln, err := net.Listen("tcp4", "127.0.0.1:0")
	if err != nil {
		t.Fatal(err)
	}
	defer ln.Close()
	rd := &c14reader{}
	go func() {
		for {
			c, err := ln.Accept()
			if err != nil {
				return
			}
			go rd.serve(c)
		}
	}()
	sdk := &mocks.DeviceServiceSDK{}
	sdk.On("UpdateDeviceOperatingState", mock.Anything, mock.Anything).Return(nil)
	async := make(chan *dsModels.AsyncValues, 16)
	go func() {
		for range async {
		}
	}()
	lc := logger.MockLogger{}
	d := &Driver{lc: lc, activeDevices: map[string]*LLRPDevice{}, asyncCh: async, svc: sdk}
	_, port, _ := net.SplitHostPort(ln.Addr().String())
	e := &c14env{d: d, rd: rd, dev: "vdev-tcp", p: protocolMap{"tcp": {"host": "127.0.0.1", "port": port}}, o: o, n: map[string]int{}}
	defer func() {
		ctx, cancel := context.WithTimeout(context.Background(), 2*time.Second)
		defer cancel()
		d.removeDevice(ctx, e.dev)
	}()

	// first command creates the device; it waits until the connection is set up
	dev, _, err := d.getDevice(e.dev, e.p)
	if err != nil {
		t.Fatal(err)
	}
	_ = dev
	// wait for the service's own SetReaderConfig (sent by onConnect after the connection event)
	deadline := time.Now().Add(10 * time.Second)
	var own []c14frame
	for time.Now().Before(deadline) {
		rd.mu.Lock()
		own = nil
		for _, f := range rd.setup {
			if f.typ == 3 {
				own = append(own, f)
			}
		}
		rd.mu.Unlock()
		if len(own) > 0 {
			break
		}
		time.Sleep(5 * time.Millisecond)
	}
	obs := "none-sent"
	if len(own) > 0 {
		got := &llrp.SetReaderConfig{}
		obs = "undecodable"
		if got.UnmarshalBinary(own[0].payload) == nil {
			obs = "-"
			if got.KeepAliveSpec != nil {
				obs = fmt.Sprintf("%d/%d", got.KeepAliveSpec.Trigger, got.KeepAliveSpec.Interval)
			}
		}
	}
	// whatever the service puts into its own message, the rule demands the enforced value on the wire
	o.line("enforce-ka 3 -", obs)
	time.Sleep(20 * time.Millisecond)
	rd.mu.Lock()
	rd.armed = true
	rd.mu.Unlock()

	rng := &vrng{s: vseed() ^ 0x5151}
	e.read([]string{ResourceReaderCap, ResourceReaderConfig, ResourceROSpec, ResourceAccessSpec}, c14mkAttrs())
	e.read([]string{"Bogus"}, c14mkAttrs())
	e.write([]string{ResourceReaderConfig}, c14mkAttrs(), []c14param{c14objFrom(ResourceReaderConfig, c14readerConfig(rng, nil))})
	e.write([]string{ResourceReaderConfig}, c14mkAttrs(), []c14param{c14objFrom(ResourceReaderConfig, c14readerConfig(rng, &llrp.KeepAliveSpec{Trigger: 0, Interval: 1}))})
	e.write([]string{ResourceROSpec}, c14mkAttrs(), []c14param{c14objFrom(ResourceROSpec, c14roSpec(rng))})
	e.write([]string{ResourceAccessSpec}, c14mkAttrs(), []c14param{c14objFrom(ResourceAccessSpec, c14accessSpec(rng))})
	e.write([]string{ResourceROSpecID, ResourceAction}, c14mkAttrs(), []c14param{c14u32(ResourceROSpecID, 7), c14str(ResourceAction, ActionStop, nil)})
	e.write([]string{ResourceAccessSpecID, ResourceAction}, c14mkAttrs(), []c14param{c14u32(ResourceAccessSpecID, 9), c14str(ResourceAction, ActionDelete, nil)})
	e.write([]string{ResourceAccessSpecID, ResourceAction}, c14mkAttrs(), []c14param{c14u32(ResourceAccessSpecID, 9), c14str(ResourceAction, ActionStart, nil)})
}
