//go:build verif

package driver

// C13: real LLRPDevices (Driver.getDevice → NewLLRPDevice) fed by scripted loopback readers; every reading that
// reaches the SDK's async channel is collected and compared, as a multiset, with what the model publishes.

import (
	"context"
	"encoding/binary"
	"fmt"
	"io"
	"net"
	"sync"
	"sync/atomic"
	"testing"
	"time"

	"github.com/edgexfoundry/device-rfid-llrp-go/pkg/llrp"
	dsModels "github.com/edgexfoundry/device-sdk-go/v4/pkg/models"
	"github.com/edgexfoundry/device-sdk-go/v4/pkg/interfaces/mocks"
	"github.com/edgexfoundry/go-mod-core-contracts/v4/clients/logger"
	contract "github.com/edgexfoundry/go-mod-core-contracts/v4/models"
	"github.com/stretchr/testify/mock"
)

type c13reader struct {
	ln     net.Listener
	mu     sync.Mutex
	conn   net.Conn
	ready  chan struct{} // closed when the service's own SetReaderConfig has been answered
	once   sync.Once
	pushed [][]byte // payloads pushed, by index
	rejectCfg bool  // this connection answers the service's own SetReaderConfig with an error status
	trailer   []byte // a whole frame sent in the SAME write as the greeting of the serving connection (a reader that has an event queued)
}

func (r *c13reader) write(b []byte) error {
	r.mu.Lock()
	defer r.mu.Unlock()
	if r.conn == nil {
		return fmt.Errorf("no connection")
	}
	r.conn.SetWriteDeadline(time.Now().Add(5 * time.Second))
	_, err := r.conn.Write(b)
	return err
}

func (r *c13reader) serve(conn net.Conn, hello []byte) {
	r.mu.Lock()
	r.conn = conn
	r.mu.Unlock()
	_ = r.write(append(append(c14header(1, 63, len(hello), 0), hello...), r.trailer...))
	hdr := make([]byte, 10)
	for {
		if _, err := io.ReadFull(conn, hdr); err != nil {
			return
		}
		w := binary.BigEndian.Uint16(hdr[0:2])
		l := binary.BigEndian.Uint32(hdr[2:6])
		f := c14frame{typ: w & 0x3ff, ver: uint8(w>>10) & 7, id: binary.BigEndian.Uint32(hdr[6:10])}
		if l < 10 || l > 1<<24 {
			return
		}
		f.payload = make([]byte, l-10)
		if _, err := io.ReadFull(conn, f.payload); err != nil {
			return
		}
		if f.typ == 72 {
			continue
		}
		at, ap := c14response(f)
		if f.typ == 14 { // CloseConnection is answered by CloseConnectionResponse (4), then the reader hangs up
			_ = r.write(append(c14header(1, 4, len(ap), f.id), ap...))
			time.Sleep(2 * time.Millisecond)
			conn.Close()
			return
		}
		if f.typ == 3 && r.rejectCfg {
			// refuse the keep-alive configuration: the service gives this connection up and dials again
			ap = []byte{0x01, 0x1F, 0x00, 0x08, 0x00, 0x65, 0x00, 0x00} // LLRPStatus: M_FieldError
			_ = r.write(append(c14header(1, at, len(ap), f.id), ap...))
			continue
		}
		if err := r.write(append(c14header(1, at, len(ap), f.id), ap...)); err != nil {
			return
		}
		if f.typ == 3 { // the service's own SetReaderConfig: connection setup is complete
			r.once.Do(func() { close(r.ready) })
		}
	}
}

type c13push struct {
	dev     int
	typ     uint16
	payload []byte
}

func c13mustMarshal(m interface{ MarshalBinary() ([]byte, error) }) []byte {
	b, err := m.MarshalBinary()
	if err != nil {
		panic(err)
	}
	return b
}

// c13report builds a tag report whose content is unique (seq in a Custom parameter and in the EPC)
func c13report(rng *vrng, seq uint32) []byte {
	rep := &llrp.ROAccessReport{}
	n := 1 + rng.intn(3)
	for i := 0; i < n; i++ {
		trd := llrp.TagReportData{}
		epc := make([]byte, 12)
		binary.BigEndian.PutUint32(epc, seq)
		binary.BigEndian.PutUint64(epc[4:], rng.next())
		if rng.intn(2) == 0 {
			trd.EPC96 = llrp.EPC96{EPC: epc}
		} else {
			trd.EPCData = llrp.EPCData{EPCNumBits: uint16(8 * (1 + rng.intn(12))), EPC: nil}
			trd.EPCData.EPC = epc[:(trd.EPCData.EPCNumBits+7)/8]
		}
		if rng.intn(2) == 0 {
			a := llrp.AntennaID(rng.intn(5))
			trd.AntennaID = &a
		}
		if rng.intn(2) == 0 {
			// uptime-stamped report (reader without a UTC clock)
			u := llrp.FirstSeenUptime(rng.next() >> 20)
			trd.FirstSeenUptime = &u
			lu := llrp.LastSeenUptime(rng.next() >> 20)
			trd.LastSeenUptime = &lu
		} else {
			u := llrp.FirstSeenUTC(rng.next() >> 10)
			trd.FirstSeenUTC = &u
		}
		if rng.intn(3) == 0 {
			c := llrp.TagSeenCount(rng.intn(65536))
			trd.TagSeenCount = &c
		}
		rep.TagReportData = append(rep.TagReportData, trd)
	}
	data := make([]byte, 4)
	binary.BigEndian.PutUint32(data, seq)
	rep.Custom = []llrp.Custom{{VendorID: 25882, Subtype: 7, Data: data}}
	return c13mustMarshal(rep)
}

func c13event(rng *vrng, seq uint32) []byte {
	ev := &llrp.ReaderEventNotification{}
	d := &ev.ReaderEventNotificationData
	if rng.intn(2) == 0 {
		d.UTCTimestamp = llrp.UTCTimestamp(uint64(seq)<<20 | 1)
	} else {
		d.Uptime = llrp.Uptime(uint64(seq)<<20 | 1)
	}
	switch rng.intn(5) {
	case 0:
		d.AntennaEvent = &llrp.AntennaEvent{Event: llrp.AntennaEventType(rng.intn(2)), AntennaID: llrp.AntennaID(rng.intn(4))}
	case 1:
		d.GPIEvent = &llrp.GPIEvent{Port: uint16(rng.intn(4)), Event: rng.intn(2) == 0}
	case 2:
		d.ReaderExceptionEvent = &llrp.ReaderExceptionEvent{Message: fmt.Sprintf("exception %d", seq)}
	case 3:
		d.ROSpecEvent = &llrp.ROSpecEvent{Event: llrp.ROSpecEventType(rng.intn(3)), ROSpecID: seq, PreemptingROSpecID: 0}
	case 4:
		x := llrp.ConnectionAttemptEvent(llrp.ConnAttemptedAgain)
		d.ConnectionAttemptEvent = &x
	}
	return c13mustMarshal(ev)
}

func TestVerifC13(t *testing.T) {
	o := vopen(t)
	defer o.close()
	rng := &vrng{s: vseed() ^ 0xC13}
	rounds := 4
	perDev := 60
	if vthorough() {
		rounds, perDev = 8, 200
	}
	for round := 0; round < rounds; round++ {
		ndev := 1 + round%4
		c13round(t, o, rng, ndev, perDev, round)
	}
}

func c13round(t *testing.T, o *vout, rng *vrng, ndev, perDev, round int) {
	sdk := &mocks.DeviceServiceSDK{}
	// in every fourth round EdgeX refuses operating-state updates, and half of the devices start out recorded Down: what
	// EdgeX knows about the state of a device has no bearing on its readings
	var sdkErr error
	if round%4 == 3 {
		sdkErr = fmt.Errorf("core-metadata unavailable")
	}
	sdk.On("UpdateDeviceOperatingState", mock.Anything, mock.Anything).Return(sdkErr)
	async := make(chan *dsModels.AsyncValues, 4)
	lc := logger.MockLogger{}
	d := &Driver{lc: lc, activeDevices: map[string]*LLRPDevice{}, asyncCh: async, svc: sdk}

	type reading struct{ dev, res, content string }
	var rmu sync.Mutex
	var got []reading
	collectorDone := make(chan struct{})
	go func() {
		defer close(collectorDone)
		for av := range async {
			if round%2 == 1 {
				// EdgeX is slower than the readers in every other round: readings queue up inside the service
				time.Sleep(300 * time.Microsecond)
			}
			for _, cv := range av.CommandValues {
				content := "unmarshalable"
				if m, ok := cv.Value.(interface{ MarshalBinary() ([]byte, error) }); ok {
					if b, err := m.MarshalBinary(); err == nil {
						content = vhex(b)
					}
				}
				rmu.Lock()
				got = append(got, reading{av.DeviceName, cv.DeviceResourceName, content})
				rmu.Unlock()
			}
		}
	}()

	readers := make([]*c13reader, ndev)
	names := make([]string, ndev)
	hello := c13mustMarshal(llrp.NewConnectMessage(llrp.ConnSuccess))
	var pushes []c13push
	for i := 0; i < ndev; i++ {
		ln, err := net.Listen("tcp4", "127.0.0.1:0")
		if err != nil {
			t.Fatal(err)
		}
		r := &c13reader{ln: ln, ready: make(chan struct{})}
		readers[i] = r
		names[i] = fmt.Sprintf("vdev-%d-%d", round, i)
		// how this reader's first connection goes: 0 normally; 1 it refuses the connection attempt (another client holds
		// the reader) and hangs up; 2 it accepts, but refuses the service's SetReaderConfig. Whatever it says on the way is
		// a reader event received from this device and is published like any other.
		mode := (round + i) % 3
		refusal := c13mustMarshal(llrp.NewConnectMessage(llrp.ConnExistsClientInitiated))
		// every other reader has an event queued when the service connects: it arrives right behind the greeting, in the
		// same segment — and is an event of this device like any other
		var trailer []byte
		if (round+i)%2 == 0 {
			ev := c13event(rng, 0xF0000+uint32(round)<<8+uint32(i))
			trailer = append(c14header(1, 63, len(ev), 77), ev...)
			pushes = append(pushes, c13push{i, 63, ev})
		}
		go func() {
			first := true
			for {
				c, err := ln.Accept()
				if err != nil {
					return
				}
				if first && mode == 1 {
					first = false
					_, _ = c.Write(append(c14header(1, 63, len(refusal), 0), refusal...))
					time.Sleep(5 * time.Millisecond)
					c.Close()
					continue
				}
				r.mu.Lock()
				r.rejectCfg = first && mode == 2
				if r.rejectCfg {
					r.trailer = nil
				} else {
					r.trailer = trailer
				}
				r.mu.Unlock()
				first = false
				r.serve(c, hello)
			}
		}()
		_, port, _ := net.SplitHostPort(ln.Addr().String())
		if round%4 == 3 && i%2 == 1 {
			addr, err := getAddr(protocolMap{"tcp": {"host": "127.0.0.1", "port": port}})
			if err != nil {
				t.Fatal(err)
			}
			d.devicesMu.Lock()
			d.activeDevices[names[i]] = d.NewLLRPDevice(names[i], addr, contract.Down)
			d.devicesMu.Unlock()
		} else if _, _, err := d.getDevice(names[i], protocolMap{"tcp": {"host": "127.0.0.1", "port": port}}); err != nil {
			t.Fatal(err)
		}
		// the greeting itself is a reader event on this device's connection
		switch mode {
		case 1:
			pushes = append(pushes, c13push{i, 63, refusal})
		case 2:
			pushes = append(pushes, c13push{i, 63, hello})
		}
		pushes = append(pushes, c13push{i, 63, hello})
	}
	for i, r := range readers {
		select {
		case <-r.ready:
		case <-time.After(10 * time.Second):
			o.line(fmt.Sprintf("publish %d 63 x%s", i, vhex(hello)), "setup-timeout")
			return
		}
	}

	// commands in progress on every device while the readers talk
	stopCmds := make(chan struct{})
	var cmdWG sync.WaitGroup
	for i := range readers {
		cmdWG.Add(1)
		go func(name string) {
			defer cmdWG.Done()
			for {
				select {
				case <-stopCmds:
					return
				default:
				}
				_, _ = d.HandleReadCommands(name, protocolMap{}, []dsModels.CommandRequest{{DeviceResourceName: ResourceReaderConfig, Type: "Object"}})
				time.Sleep(2 * time.Millisecond)
			}
		}(names[i])
	}

	// device updates in progress too (same address: a no-op that still takes the device's write lock); a call that
	// does not return means the device is wedged
	var stuckUpdates int32
	for i := range readers {
		cmdWG.Add(1)
		go func(name string, r *c13reader) {
			defer cmdWG.Done()
			d.devicesMu.RLock()
			dev := d.activeDevices[name]
			d.devicesMu.RUnlock()
			addr, _ := net.ResolveTCPAddr("tcp", r.ln.Addr().String())
			addr.IP = net.ParseIP("127.0.0.1")
			for {
				select {
				case <-stopCmds:
					return
				default:
				}
				done := make(chan struct{})
				go func() {
					ctx, cancel := context.WithTimeout(context.Background(), time.Second)
					defer cancel()
					_ = dev.UpdateAddr(ctx, addr)
					close(done)
				}()
				select {
				case <-done:
				case <-time.After(3 * time.Second):
					atomic.AddInt32(&stuckUpdates, 1)
					return
				}
				time.Sleep(5 * time.Millisecond)
			}
		}(names[i], readers[i])
	}

	// interleaved traffic of all readers, one writer goroutine per reader
	var seq uint32 = uint32(round) << 20
	plan := make([][]c13push, ndev)
	for i := 0; i < ndev; i++ {
		for k := 0; k < perDev; k++ {
			seq++
			var p c13push
			switch rng.intn(10) {
			case 0, 1, 2, 3:
				p = c13push{i, 61, c13report(rng, seq)}
			case 4, 5, 6:
				p = c13push{i, 63, c13event(rng, seq)}
			case 7:
				p = c13push{i, 62, nil} // keep-alive
			case 8:
				b := c13report(rng, seq)
				p = c13push{i, 61, b[:rng.intn(len(b))]} // truncated report (may or may not decode)
			default:
				b := make([]byte, rng.intn(20))
				for j := range b {
					b[j] = byte(rng.next())
				}
				p = c13push{i, uint16([]int{61, 63}[rng.intn(2)]), b} // garbage
			}
			plan[i] = append(plan[i], p)
		}
		// sentinel: a final report that tells us this device's stream has been consumed
		seq++
		plan[i] = append(plan[i], c13push{i, 61, c13report(rng, seq)})
	}
	var wg sync.WaitGroup
	for i := range readers {
		wg.Add(1)
		go func(i int) {
			defer wg.Done()
			for k, p := range plan[i] {
				_ = readers[i].write(append(c14header(1, p.typ, len(p.payload), uint32(1000+k)), p.payload...))
				if k%7 == 0 {
					time.Sleep(time.Millisecond)
				}
			}
		}(i)
	}
	wg.Wait()
	for i := range plan {
		pushes = append(pushes, plan[i]...)
	}
	// wait for the sentinels, then a grace period for stragglers
	deadline := time.Now().Add(10 * time.Second)
	for time.Now().Before(deadline) {
		rmu.Lock()
		seen := 0
		for i := range plan {
			want := vhex(plan[i][len(plan[i])-1].payload)
			for _, g := range got {
				if g.dev == names[i] && g.content == want {
					seen++
					break
				}
			}
		}
		rmu.Unlock()
		if seen == ndev {
			break
		}
		time.Sleep(5 * time.Millisecond)
	}
	time.Sleep(150 * time.Millisecond)
	close(stopCmds)
	cmdWG.Wait()
	for _, name := range names {
		ctx, cancel := context.WithTimeout(context.Background(), 2*time.Second)
		d.removeDevice(ctx, name)
		cancel()
	}
	for _, r := range readers {
		r.ln.Close()
		r.mu.Lock()
		if r.conn != nil {
			r.conn.Close()
		}
		r.mu.Unlock()
	}
	time.Sleep(50 * time.Millisecond)
	rmu.Lock()
	defer rmu.Unlock()

	// judge: readings are compared as a multiset. For every (device, resource, canonical content) the number of
	// readings must equal the number of pushed frames that denote it (two identical frames, e.g. two empty reports,
	// legitimately give two identical readings); a frame's line says count=1 when its key is balanced.
	type rkey struct{ dev, res, content string }
	keyOf := func(p c13push) (rkey, bool) {
		switch p.typ {
		case 61:
			m := &llrp.ROAccessReport{}
			if m.UnmarshalBinary(p.payload) == nil {
				return rkey{names[p.dev], ResourceROAccessReport, vhex(c13mustMarshal(m))}, true
			}
		case 63:
			m := &llrp.ReaderEventNotification{}
			if m.UnmarshalBinary(p.payload) == nil {
				return rkey{names[p.dev], ResourceReaderNotification, vhex(c13mustMarshal(m))}, true
			}
		}
		return rkey{}, false
	}
	expected := map[rkey]int{}
	for _, p := range pushes {
		if k, ok := keyOf(p); ok {
			expected[k]++
		}
	}
	gotN := map[rkey]int{}
	extra := 0
	for _, g := range got {
		k := rkey{g.dev, g.res, g.content}
		gotN[k]++
		if expected[k] == 0 {
			extra++
		}
	}
	for _, p := range pushes {
		obs := "none"
		if k, ok := keyOf(p); ok {
			count := 1
			if gotN[k] != expected[k] {
				count = gotN[k] // lost (fewer) or duplicated (more) relative to the frames that denote this reading
				if count == 1 {
					count = 0 // (expected ≥ 2, got 1): report it as a loss
				}
			}
			obs = fmt.Sprintf("some %s x%s count=%d", k.res, k.content, count)
		}
		o.line(fmt.Sprintf("publish %d %d x%s", p.dev, p.typ, vhex(p.payload)), obs)
	}
	o.line(fmt.Sprintf("expect-zero extra-readings-round-%d", round), fmt.Sprint(extra))
	o.line(fmt.Sprintf("expect-zero stuck-device-updates-round-%d", round), fmt.Sprint(atomic.LoadInt32(&stuckUpdates)))
}
