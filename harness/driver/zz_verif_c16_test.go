//go:build verif

package driver

// C16 harness: the real ipGenerator / computeNetSz against the Lean model (oracle verbs of LLRP/Oracle/C16.lean).
//
//   hosts <addr> <len> from <i> take <k>   → "[ip ip …]"   slice of the enumeration, in order
//   hosts-count <addr> <len>               → number of addresses the generator sent
//   netsz <len>                            → computeNetSz(len) | panic
//   estimate <addr> <len>                  → the model's number of enumerated addresses (observed: computeNetSz(len))
//   estimate-check <addr> <len> <sent> <computeNetSz>   → accept | reject …
//   cancel <addr> <len> <cap> <occ> <recv> <cancelled>   → returned | blocked
//   cancel-late <addr> <len> <cap> <occ>                 → returned | blocked   (cancel after the generator is stuck on a full channel)

import (
	"context"
	"fmt"
	"net"
	"regexp"
	"sort"
	"strconv"
	"strings"
	"sync"
	"sync/atomic"
	"testing"
	"time"

	"github.com/edgexfoundry/go-mod-core-contracts/v4/clients/logger"
	"github.com/edgexfoundry/go-mod-core-contracts/v4/models"
)

const c16Chunk = 4096

func c16cidr(a uint32, l int) string {
	return fmt.Sprintf("%d.%d.%d.%d/%d", byte(a>>24), byte(a>>16), byte(a>>8), byte(a), l)
}

func c16list(xs []uint32) string {
	b := make([]byte, 0, 11*len(xs)+2)
	b = append(b, '[')
	for i, x := range xs {
		if i > 0 {
			b = append(b, ' ')
		}
		b = strconv.AppendUint(b, uint64(x), 10)
	}
	b = append(b, ']')
	return string(b)
}

// c16gen starts the real generator on cidr; the returned channel is closed when the generator has returned.
// A panic inside the generator is recorded. closeCh may be used by a watchdog to end a stuck receiver loop.
type c16run struct {
	ch       chan uint32
	done     chan struct{}
	panicked atomic.Bool
	once     sync.Once
}

func (r *c16run) closeCh() {
	r.once.Do(func() {
		defer func() { _ = recover() }()
		close(r.ch)
	})
}

func c16start(ctx context.Context, inet *net.IPNet, ch chan uint32, closeAfter bool) *c16run {
	r := &c16run{ch: ch, done: make(chan struct{})}
	go func() {
		defer close(r.done)
		defer func() {
			if e := recover(); e != nil {
				r.panicked.Store(true)
			}
			if closeAfter {
				r.closeCh()
			}
		}()
		ipGenerator(ctx, inet, ch)
	}()
	return r
}

type c16mode int

const (
	c16full  c16mode = iota // record everything
	c16drain                // first and last chunk + count
	c16head                 // first chunk, then cancel
)

func c16enumerate(o *vout, a uint32, l int, mode c16mode, deadline time.Duration) {
	cidr := c16cidr(a, l)
	_, inet, err := net.ParseCIDR(cidr)
	if err != nil {
		o.line(fmt.Sprintf("hosts-count %d %d", a, l), "parse-error")
		return
	}
	if l >= 2 && l <= 30 && (a>>3+uint32(l))%2 == 1 {
		// the generator's own contract covers networks whose IP still has host bits set (it masks the base itself):
		// every other case hands it such an IPNet directly instead of ParseCIDR's already-masked one
		inet = &net.IPNet{IP: net.IPv4(byte(a>>24), byte(a>>16), byte(a>>8), byte(a)).To4(), Mask: net.CIDRMask(l, 32)}
	}
	want := uint64(1)
	if l <= 1 {
		want = 0
	} else if l <= 30 {
		want = uint64(1)<<(32-uint(l)) - 2
	}
	limit := want + 1 // a generator that runs past the size of the net is cut off (reported through the count)
	ctx, cancel := context.WithCancel(context.Background())
	defer cancel()
	run := c16start(ctx, inet, make(chan uint32, c16Chunk), true)
	var timedOut atomic.Bool
	wd := time.AfterFunc(deadline, func() { timedOut.Store(true); cancel() })
	wd2 := time.AfterFunc(deadline+5*time.Second, func() { run.closeCh() })
	defer wd.Stop()
	defer wd2.Stop()

	var all, first []uint32
	ring := make([]uint32, c16Chunk)
	var n uint64
	cancelledAt := uint64(0)
	for ip := range run.ch {
		switch mode {
		case c16full:
			all = append(all, ip)
		default:
			if n < c16Chunk {
				first = append(first, ip)
			}
			ring[n%c16Chunk] = ip
		}
		n++
		if mode == c16head && n == c16Chunk && cancelledAt == 0 {
			cancelledAt = n
			cancel()
		}
		if n == limit {
			cancel()
		}
	}
	status := "returned"
	select {
	case <-run.done:
	case <-time.After(2 * time.Second):
		status = "blocked"
	}
	if run.panicked.Load() {
		status = "panic"
	} else if timedOut.Load() {
		status = "timeout"
	}
	pre := fmt.Sprintf("hosts %d %d", a, l)
	switch mode {
	case c16full:
		for i := 0; i < len(all) || i == 0; i += c16Chunk {
			j := i + c16Chunk
			if j > len(all) {
				j = len(all)
			}
			o.line(fmt.Sprintf("%s from %d take %d", pre, i, c16Chunk), c16list(all[i:j]))
		}
		o.line(fmt.Sprintf("hosts-count %d %d", a, l), c16count(n, status))
		c16estimate(o, a, l, n)
	case c16drain:
		o.line(fmt.Sprintf("%s from 0 take %d", pre, c16Chunk), c16list(first))
		start := uint64(0)
		if n > c16Chunk {
			start = n - c16Chunk
		}
		last := make([]uint32, 0, c16Chunk)
		for i := start; i < n; i++ {
			last = append(last, ring[i%c16Chunk])
		}
		o.line(fmt.Sprintf("%s from %d take %d", pre, start, c16Chunk), c16list(last))
		o.line(fmt.Sprintf("hosts-count %d %d", a, l), c16count(n, status))
		c16estimate(o, a, l, n)
	case c16head:
		o.line(fmt.Sprintf("%s from 0 take %d", pre, c16Chunk), c16list(first))
		if cancelledAt != 0 {
			// cancelled in mid-enumeration with a live receiver: the generator must return
			o.line(fmt.Sprintf("cancel %d %d %d 0 1 1", a, l, c16Chunk), status)
		} else {
			o.line(fmt.Sprintf("hosts-count %d %d", a, l), c16count(n, status))
		}
	}
}

// the estimate autoDiscover uses for this net against the number of addresses the generator really sent
// (judged by the oracle: accept iff equal, and equal to the model's count)
func c16estimate(o *vout, a uint32, l int, n uint64) {
	if l < 2 {
		return
	}
	o.line(fmt.Sprintf("estimate-check %d %d %d %s", a, l, n, c16netsz(l)), "accept")
}

func c16count(n uint64, status string) string {
	if status == "returned" {
		return strconv.FormatUint(n, 10)
	}
	return fmt.Sprintf("%d %s", n, status)
}

func c16netsz(l int) (obs string) {
	defer func() {
		if e := recover(); e != nil {
			obs = "panic"
		}
	}()
	return strconv.FormatUint(uint64(computeNetSz(l)), 10)
}

type c16cancelCase struct {
	a         uint32
	l         int
	cap, occ  int
	recv      bool
	cancelled bool
	late      bool
}

func (c c16cancelCase) req() string {
	if c.late {
		return fmt.Sprintf("cancel-late %d %d %d %d", c.a, c.l, c.cap, c.occ)
	}
	b := func(x bool) int {
		if x {
			return 1
		}
		return 0
	}
	return fmt.Sprintf("cancel %d %d %d %d %d %d", c.a, c.l, c.cap, c.occ, b(c.recv), b(c.cancelled))
}

// run one cancellation scenario: does the generator goroutine return within the deadline?
func (c c16cancelCase) run(deadline time.Duration) string {
	_, inet, err := net.ParseCIDR(c16cidr(c.a, c.l))
	if err != nil {
		return "parse-error"
	}
	ch := make(chan uint32, c.cap)
	for i := 0; i < c.occ; i++ {
		ch <- 0
	}
	ctx, cancel := context.WithCancel(context.Background())
	defer cancel() // releases a generator that was (legitimately) waiting for a receiver
	if c.cancelled {
		cancel()
	}
	run := c16start(ctx, inet, ch, false)
	if c.recv {
		stop := make(chan struct{})
		defer close(stop)
		go func() {
			for {
				select {
				case <-ch:
				case <-stop:
					return
				}
			}
		}()
	}
	if c.late {
		time.Sleep(50 * time.Millisecond) // let it fill the channel and block in the send
		cancel()
	}
	select {
	case <-run.done:
		if run.panicked.Load() {
			return "panic"
		}
		return "returned"
	case <-time.After(deadline):
		return "blocked"
	}
}

// c16auto runs the real autoDiscover over the given networks (all inside 127/8, so that one wildcard listener sees every
// dial) and returns the sorted multiset of addresses that were dialled, or "blocked".
func c16auto(ctx context.Context, nets [][2]uint32, deadline time.Duration) string {
	ln, err := net.Listen("tcp4", "0.0.0.0:0")
	if err != nil {
		return "listen-failed"
	}
	defer ln.Close()
	var mu sync.Mutex
	var dialled []uint32
	go func() {
		for {
			c, err := ln.Accept()
			if err != nil {
				return
			}
			if ta, ok := c.LocalAddr().(*net.TCPAddr); ok {
				if ip := ta.IP.To4(); ip != nil {
					mu.Lock()
					dialled = append(dialled, uint32(ip[0])<<24|uint32(ip[1])<<16|uint32(ip[2])<<8|uint32(ip[3]))
					mu.Unlock()
				}
			}
			c.Close()
		}
	}()
	_, port, _ := net.SplitHostPort(ln.Addr().String())
	var subnets []string
	for _, n := range nets {
		subnets = append(subnets, c16cidr(n[0], int(n[1])))
	}
	done := make(chan struct{})
	go func() {
		defer close(done)
		defer func() { _ = recover() }()
		autoDiscover(ctx, discoverParams{subnets: subnets, asyncLimit: 4, timeout: 500 * time.Millisecond, scanPort: port})
	}()
	select {
	case <-done:
	case <-time.After(deadline):
		return "blocked"
	}
	time.Sleep(5 * time.Millisecond)
	mu.Lock()
	defer mu.Unlock()
	sort.Slice(dialled, func(i, j int) bool { return dialled[i] < dialled[j] })
	return c16list(dialled)
}

// c16skipLog captures the service's "Skip scan of <ip>:<port>…" debug lines: with every host of the configured networks
// registered (and Up), each enumerated address is skipped instead of dialled, so networks outside 127/8 can be observed
// without a listener. Only the address is taken from the line.
type c16skipLog struct {
	logger.LoggingClient
	mu   sync.Mutex
	seen []uint32
	est  int // the "total estimated network probes" the run logged (-1: no such line seen)
}

var c16estRe = regexp.MustCompile(`total estimated network probes: (\d+)`)

var c16addrRe = regexp.MustCompile(`(\d+)\.(\d+)\.(\d+)\.(\d+):\d+`)

func (l *c16skipLog) Debug(msg string, args ...interface{}) {
	if m := c16estRe.FindStringSubmatch(msg); m != nil {
		n, _ := strconv.Atoi(m[1])
		l.mu.Lock()
		l.est = n
		l.mu.Unlock()
	}
	if strings.Contains(msg, "Skip") {
		if m := c16addrRe.FindStringSubmatch(msg); m != nil {
			var a uint32
			for _, s := range m[1:] {
				n, _ := strconv.Atoi(s)
				a = a<<8 | uint32(n)
			}
			l.mu.Lock()
			l.seen = append(l.seen, a)
			l.mu.Unlock()
		}
	}
}
func (l *c16skipLog) Debugf(msg string, args ...interface{}) { l.Debug(fmt.Sprintf(msg, args...)) }

// the estimate the last c16autoSkip run logged (-1: none read)
var c16lastEst = -1

// c16autoSkip runs the real autoDiscover over networks anywhere in the IPv4 space, all of whose hosts are registered
// devices in state Up; returns the sorted multiset of addresses the workers met (and skipped), "inconclusive" when no
// skip line could be read at all (the log text is not part of the property), or "blocked".
func c16autoSkip(nets [][2]uint32, deadline time.Duration) string {
	var devs []models.Device
	seen := map[uint32]bool{}
	for _, n := range nets {
		lo, hi := n[0]&^(1<<(32-n[1])-1), n[0]|(1<<(32-n[1])-1)
		if n[1] == 32 {
			lo, hi = n[0], n[0]
		}
		for a := lo; ; a++ {
			if !seen[a] {
				seen[a] = true
				ip := fmt.Sprintf("%d.%d.%d.%d", a>>24, a>>16&255, a>>8&255, a&255)
				devs = append(devs, models.Device{Name: "reg-" + ip, OperatingState: models.Up,
					Protocols: map[string]models.ProtocolProperties{"tcp": {"host": ip, "port": "5084"}}})
			}
			if a == hi {
				break
			}
		}
	}
	oldSvc, oldLc := driver.svc, driver.lc
	lg := &c16skipLog{LoggingClient: oldLc, est: -1}
	c16lastEst = -1
	driver.svc, driver.lc = c17newSvc(devs), lg
	defer func() { driver.svc, driver.lc = oldSvc, oldLc }()
	var subnets []string
	for _, n := range nets {
		subnets = append(subnets, c16cidr(n[0], int(n[1])))
	}
	done := make(chan struct{})
	go func() {
		defer close(done)
		defer func() { _ = recover() }()
		autoDiscover(context.Background(), discoverParams{subnets: subnets, asyncLimit: 4, timeout: 200 * time.Millisecond, scanPort: "5084"})
	}()
	select {
	case <-done:
	case <-time.After(deadline):
		return "blocked"
	}
	lg.mu.Lock()
	defer lg.mu.Unlock()
	c16lastEst = lg.est
	if len(lg.seen) == 0 {
		return "inconclusive"
	}
	sort.Slice(lg.seen, func(i, j int) bool { return lg.seen[i] < lg.seen[j] })
	return c16list(lg.seen)
}

func TestVerifC16(t *testing.T) {
	o := vopen(t)
	defer o.close()
	rng := &vrng{s: vseed()}
	thorough := vthorough()

	// 0. whole runs of autoDiscover over several configured networks: nested, identical network numbers with different
	// prefix lengths, repeated, adjacent, /31 and /32 — every host of every configured network is dialled
	oldSvc := driver.svc
	driver.svc = c17newSvc([]models.Device{})
	for _, nets := range [][][2]uint32{
		{{0x7F000008, 31}, {0x7F000008, 30}},
		{{0x7F000100, 28}, {0x7F000100, 30}, {0x7F000100, 32}},
		{{0x7F000210, 29}, {0x7F000210, 29}},
		{{0x7F000300, 30}, {0x7F000304, 30}, {0x7F000308, 31}},
		{{0x7F00040D, 28}},
		{{0x7F000500, 27}, {0x7F000510, 28}},
	} {
		req := "auto"
		for _, n := range nets {
			req += fmt.Sprintf(" %d/%d", n[0], n[1])
		}
		o.line(req, c16auto(context.Background(), nets, 30*time.Second))
	}
	{
		ctx, cancel := context.WithCancel(context.Background())
		cancel()
		obs := c16auto(ctx, [][2]uint32{{0x7F000600, 29}, {0x7F000601, 32}}, 5*time.Second)
		if obs != "blocked" {
			obs = "returned"
		}
		o.line("auto-cancelled before-start", obs)
		ctx2, cancel2 := context.WithTimeout(context.Background(), 20*time.Millisecond)
		obs = c16auto(ctx2, [][2]uint32{{0x7F000700, 24}}, 10*time.Second)
		cancel2()
		if obs != "blocked" {
			obs = "returned"
		}
		o.line("auto-cancelled after-20ms", obs)
	}
	driver.svc = oldSvc
	// 0b. networks anywhere in the IPv4 space (link-local, private, public, the ends of the space, multicast and broadcast
	// ranges written as CIDR): observed through the skip rule instead of a listener
	for _, nets := range [][][2]uint32{
		{{0x7F000900, 30}, {0xA9FE0100, 29}},                  // 127.0.9.0/30, 169.254.1.0/29 (link-local)
		{{0xA9FE4D0C, 30}, {0xA9FE01C8, 32}, {0x0A000000, 30}}, // 169.254.77.12/30, 169.254.1.200/32, 10.0.0.0/30
		{{0xC0A80164, 31}, {0xAC100000, 29}, {0x08080800, 30}}, // 192.168.1.100/31, 172.16.0.0/29, 8.8.8.0/30
		{{0x00000000, 29}, {0xFFFFFFF8, 29}, {0xE0000000, 30}}, // 0.0.0.0/29, 255.255.255.248/29, 224.0.0.0/30
		{{0x00000001, 30}, {0x64400000, 30}},                   // 0.0.0.1/30 (unaligned), 100.64.0.0/30
		// one small network alone, every host a registered device: the estimate sizes the worker pool and the channel
		{{0xC0A80A05, 32}}, {{0xC0A80A04, 31}}, {{0x0A010100, 30}}, {{0xAC100010, 29}},
	} {
		req := "auto"
		for _, n := range nets {
			req += fmt.Sprintf(" %d/%d", n[0], n[1])
		}
		dl := 30 * time.Second
		if len(nets) == 1 {
			dl = 8 * time.Second
		}
		obs := c16autoSkip(nets, dl)
		if obs == "inconclusive" {
			continue
		}
		o.line(req, obs)
		if len(nets) == 1 && c16lastEst >= 0 && obs != "blocked" {
			// the probe-count estimate of the run (as logged) against the addresses the workers were handed
			n := 0
			if obs != "[]" {
				n = len(strings.Fields(obs))
			}
			o.line(fmt.Sprintf("estimate-check %d %d %d %d", nets[0][0], nets[0][1], n, c16lastEst), "accept")
		}
	}

	// base addresses: corners, x.y.z.255, 255.255.255.x, octet crossings, unaligned, then random from the seed
	bases := []uint32{
		0xC0A8016E,                                     // 192.168.1.110 (unaligned for every length < 31)
		0x00000000, 0xFFFFFFFF, 0x0A0A0AFF, 0xFFFFFF11, // 0.0.0.0, 255.255.255.255, 10.10.10.255, 255.255.255.17
		0x7FFFFFFF, 0x80000000, 0x00FFFFFF, 0x01000000, // crossings of the first octet boundary
		0xC0A800FF, 0xC0A80100, 0xAC1FFFFF, 0xAC200000, // crossings of lower octet boundaries
		0xFFFFFFFE, 0x00000001, 0xFFFFFF00, 0x0A0AFFFF, 0x55555555, 0xAAAAAAAA, 0x7F000001,
	}
	for len(bases) < 40 {
		bases = append(bases, uint32(rng.next()))
	}
	if thorough {
		for i := 0; i < 24; i++ {
			bases = append(bases, uint32(rng.next()))
		}
	}

	// 1. enumeration: every prefix length 2…32 (and the skipped 0, 1) x every base
	for l := 32; l >= 0; l-- {
		for bi, a := range bases {
			mode := c16head
			switch {
			case l >= 20:
				mode = c16full
			case l >= 16:
				if thorough || bi < 8 {
					mode = c16full
				}
			case l >= 12:
				if thorough && bi < 6 {
					mode = c16full
				} else if bi < 4 {
					mode = c16drain
				}
			case l >= 10:
				if bi < 4 || (thorough && bi < 8) {
					mode = c16drain
				}
			case l >= 8:
				if thorough && bi < 2 { // includes one full /8 per base
					mode = c16drain
				}
			}
			if l <= 1 {
				mode = c16full // nothing may be sent at all
			}
			c16enumerate(o, a, l, mode, 120*time.Second)
		}
	}

	// 2. the probe-count estimate
	for l := -5; l <= 40; l++ {
		o.line(fmt.Sprintf("netsz %d", l), c16netsz(l))
	}
	// the estimate against the model's enumeration for every length, also where the harness did not drain the net
	for l := 2; l <= 32; l++ {
		for _, a := range bases[:4] {
			o.line(fmt.Sprintf("estimate %d %d", a, l), c16netsz(l))
		}
	}

	// 3. cancellation: full / empty / half-full / unbuffered channel, no receiver (and with one), context cancelled
	// before the start, after the generator got stuck, or not at all (then a generator without a receiver must wait)
	var cases []c16cancelCase
	chans := [][2]int{{0, 0}, {4, 0}, {4, 4}, {4, 2}, {1, 1}, {64, 64}}
	for _, l := range []int{32, 31, 30, 29, 24, 16, 8, 2} {
		for _, a := range []uint32{bases[0], bases[2], uint32(rng.next())} {
			for _, co := range chans {
				cases = append(cases,
					c16cancelCase{a: a, l: l, cap: co[0], occ: co[1], cancelled: true},
					c16cancelCase{a: a, l: l, cap: co[0], occ: co[1], late: true},
					c16cancelCase{a: a, l: l, cap: co[0], occ: co[1], recv: true, cancelled: true})
				if a == bases[0] {
					cases = append(cases, c16cancelCase{a: a, l: l, cap: co[0], occ: co[1]})
				}
			}
		}
	}
	deadline := 1500 * time.Millisecond
	if thorough {
		deadline = 5 * time.Second
	}
	obs := make([]string, len(cases))
	var wg sync.WaitGroup
	for i := range cases {
		wg.Add(1)
		go func(i int) {
			defer wg.Done()
			obs[i] = cases[i].run(deadline)
		}(i)
	}
	wg.Wait()
	for i, c := range cases {
		o.line(c.req(), obs[i])
	}
}
