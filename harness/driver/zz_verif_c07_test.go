//go:build verif

package driver

// C07 at the level of the device service: the handlers the service registers for tag reports and reader events run on
// the client's read goroutine. While EdgeX does not take readings (the asynchronous channel is full and nobody reads
// it) keep-alives that follow must still be acknowledged. The session is written in the event language of the
// acknowledgement model (`ack-script`: m<typ>:<n> other inbound message, k<id> keep-alive), so the oracle's answer is
// the model's; the frames reported are those the scripted reader received after connection setup.

import (
	"context"
	"encoding/binary"
	"fmt"
	"io"
	"net"
	"strings"
	"sync"
	"testing"
	"time"

	dsModels "github.com/edgexfoundry/device-sdk-go/v4/pkg/models"
	"github.com/edgexfoundry/device-sdk-go/v4/pkg/interfaces/mocks"
	"github.com/edgexfoundry/go-mod-core-contracts/v4/clients/logger"
	"github.com/stretchr/testify/mock"

	"github.com/edgexfoundry/device-rfid-llrp-go/pkg/llrp"
)

type c07reader struct {
	mu     sync.Mutex
	conn   net.Conn
	ready  chan struct{}
	once   sync.Once
	frames chan c14frame // what the service wrote after setup
}

func (r *c07reader) write(b []byte) error {
	r.mu.Lock()
	defer r.mu.Unlock()
	r.conn.SetWriteDeadline(time.Now().Add(5 * time.Second))
	_, err := r.conn.Write(b)
	return err
}

func (r *c07reader) serve(conn net.Conn, hello []byte) {
	r.mu.Lock()
	r.conn = conn
	r.mu.Unlock()
	_ = r.write(append(c14header(1, 63, len(hello), 0), hello...))
	hdr := make([]byte, 10)
	setup := true
	for {
		if _, err := io.ReadFull(conn, hdr); err != nil {
			return
		}
		w := binary.BigEndian.Uint16(hdr[0:2])
		l := binary.BigEndian.Uint32(hdr[2:6])
		f := c14frame{typ: w & 0x3ff, ver: uint8(w>>10) & 7, id: binary.BigEndian.Uint32(hdr[6:10])}
		if l < 10 || l > 1<<24 {
			return
		}
		f.payload = make([]byte, l-10)
		if _, err := io.ReadFull(conn, f.payload); err != nil {
			return
		}
		if !setup {
			select {
			case r.frames <- f:
			default:
			}
		}
		if f.typ == 72 {
			continue
		}
		at, ap := c14response(f)
		if err := r.write(append(c14header(1, at, len(ap), f.id), ap...)); err != nil {
			return
		}
		if f.typ == 3 {
			setup = false
			r.once.Do(func() { close(r.ready) })
		}
	}
}

func context3s() context.Context {
	ctx, cancel := context.WithTimeout(context.Background(), 3*time.Second)
	_ = cancel
	return ctx
}

func c07driverSession(rng *vrng, evs []string) string {
	sdk := &mocks.DeviceServiceSDK{}
	sdk.On("UpdateDeviceOperatingState", mock.Anything, mock.Anything).Return(nil)
	async := make(chan *dsModels.AsyncValues) // nobody reads it until the script is over
	d := &Driver{lc: logger.MockLogger{}, activeDevices: map[string]*LLRPDevice{}, asyncCh: async, svc: sdk}
	ln, err := net.Listen("tcp4", "127.0.0.1:0")
	if err != nil {
		return "listen-failed"
	}
	defer ln.Close()
	r := &c07reader{ready: make(chan struct{}), frames: make(chan c14frame, 256)}
	hello := c13mustMarshal(llrp.NewConnectMessage(llrp.ConnSuccess))
	go func() {
		c, err := ln.Accept()
		if err != nil {
			return
		}
		r.serve(c, hello)
	}()
	_, port, _ := net.SplitHostPort(ln.Addr().String())
	name := fmt.Sprintf("vdev-c07-%d", rng.intn(1<<30))
	dev, _, err := d.getDevice(name, protocolMap{"tcp": {"host": "127.0.0.1", "port": port}})
	if err != nil {
		return "device-failed"
	}
	stopDrain := make(chan struct{})
	drained := make(chan int, 1)
	defer func() {
		// now EdgeX takes what is pending, so that nothing is left blocked, and the device is stopped
		go func() {
			n := 0
			for {
				select {
				case <-async:
					n++
				case <-stopDrain:
					drained <- n
					return
				}
			}
		}()
		time.Sleep(50 * time.Millisecond)
		done := make(chan struct{})
		go func() { dev.Stop(context3s()); close(done) }()
		select {
		case <-done:
		case <-time.After(5 * time.Second):
		}
		close(stopDrain)
		<-drained
	}()
	select {
	case <-r.ready:
	case <-time.After(10 * time.Second):
		return "setup-timeout"
	}
	// the greeting's own reading is pending on the channel already; push the script
	var want, got []string
	seq := uint32(0)
	for k, ev := range evs {
		switch ev[0] {
		case 'm':
			var typ, n int
			fmt.Sscanf(ev, "m%d:%d", &typ, &n)
			seq++
			var p []byte
			if typ == 61 {
				p = c13report(rng, seq)
			} else {
				p = c13event(rng, seq)
			}
			if err := r.write(append(c14header(1, uint16(typ), len(p), uint32(5000+k)), p...)); err != nil {
				return "write-failed"
			}
		case 'k':
			var id uint32
			fmt.Sscanf(ev, "k%d", &id)
			// the property is about keep-alives that find at most five earlier ones unacknowledged: the reader does not
			// send a sixth before an acknowledgement has come back (on a loaded machine the write loop may lag)
			for wait := time.After(3 * time.Second); len(want)-len(got) >= 5; {
				select {
				case f := <-r.frames:
					got = append(got, fmt.Sprintf("%d:%d", f.typ, f.id))
				case <-wait:
					return fmt.Sprintf("frames=%s dropped= queued= ok=0 (five keep-alives unacknowledged for 3 s while EdgeX takes no readings)", strings.Join(got, ","))
				}
			}
			if err := r.write(c14header(1, 62, 0, id)); err != nil {
				return "write-failed"
			}
			want = append(want, fmt.Sprintf("72:%d", id))
		}
	}
	deadline := time.After(3 * time.Second)
	for len(got) < len(want) {
		select {
		case f := <-r.frames:
			got = append(got, fmt.Sprintf("%d:%d", f.typ, f.id))
		case <-deadline:
			return fmt.Sprintf("frames=%s dropped= queued= ok=0 (acknowledgements missing after 3 s while EdgeX takes no readings)", strings.Join(got, ","))
		}
	}
	time.Sleep(20 * time.Millisecond)
	for {
		select {
		case f := <-r.frames:
			got = append(got, fmt.Sprintf("%d:%d", f.typ, f.id))
			continue
		default:
		}
		break
	}
	return fmt.Sprintf("frames=%s dropped= queued= ok=1", strings.Join(got, ","))
}

func TestVerifC07Driver(t *testing.T) {
	o := vopen(t)
	defer o.close()
	rng := &vrng{s: vseed() ^ 0xC07D}
	scripts := [][]string{
		{"k4242"},
		{"m61:1", "k1"},
		{"m61:1", "m61:2", "m61:3", "m61:4", "m61:5", "m61:6", "m61:7", "m61:8", "k4242", "m63:9", "m63:10", "k7"},
		{"m63:1", "m63:2", "m63:3", "k1", "m61:4", "k2", "m61:5", "m63:6", "k3", "k4"},
	}
	// a long burst of reports (then events) that EdgeX does not take, then keep-alives: any bounded hand-over between the
	// read loop and EdgeX fills up
	for _, typ := range []int{61, 63} {
		var evs []string
		for k := 1; k <= 80; k++ {
			evs = append(evs, fmt.Sprintf("m%d:%d", typ, k))
		}
		scripts = append(scripts, append(evs, "k4242", "k4243"))
	}
	if vthorough() {
		for i := 0; i < 6; i++ {
			var evs []string
			for k := 0; k < 20; k++ {
				switch rng.intn(3) {
				case 0:
					evs = append(evs, fmt.Sprintf("k%d", uint32(rng.next())))
				case 1:
					evs = append(evs, fmt.Sprintf("m61:%d", k))
				default:
					evs = append(evs, fmt.Sprintf("m63:%d", k))
				}
				if k%6 == 5 {
					time.Sleep(time.Millisecond)
				}
			}
			scripts = append(scripts, evs)
		}
	}
	for _, evs := range scripts {
		o.line("ack-script 1 "+strings.Join(evs, " "), c07driverSession(rng, evs))
	}
}
