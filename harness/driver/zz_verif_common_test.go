//go:build verif

package driver

// Verification harness (injected with `go test -overlay`, never written to /repo).
// Each TestVerif* writes one case per line to $VERIF_OUT: "<oracle request>\t<observed reply>".
// The runner pipes the request column to the Lean oracle and compares its replies with the observed column.

import (
	"bufio"
	"fmt"
	"os"
	"strconv"
	"testing"
)

type vout struct {
	f *os.File
	w *bufio.Writer
	n int
}

func vopen(t *testing.T) *vout {
	p := os.Getenv("VERIF_OUT")
	if p == "" {
		t.Skip("VERIF_OUT not set")
	}
	f, err := os.Create(p)
	if err != nil {
		t.Fatal(err)
	}
	return &vout{f: f, w: bufio.NewWriterSize(f, 1<<20)}
}

func (o *vout) line(req, obs string) {
	o.w.WriteString(req)
	o.w.WriteByte('\t')
	o.w.WriteString(obs)
	o.w.WriteByte('\n')
	o.n++
}

func (o *vout) linef(req string, format string, a ...interface{}) {
	o.line(req, fmt.Sprintf(format, a...))
}

func (o *vout) close() {
	o.w.Flush()
	o.f.Close()
}

func vseed() uint64 {
	s, _ := strconv.ParseUint(os.Getenv("VERIF_SEED"), 10, 64)
	return s*0x9E3779B97F4A7C15 + 0x1234567
}

func vthorough() bool { return os.Getenv("VERIF_TIER") == "thorough" }

// splitmix64: the single PRNG all random choices derive from
type vrng struct{ s uint64 }

func (r *vrng) next() uint64 {
	r.s += 0x9E3779B97F4A7C15
	z := r.s
	z = (z ^ (z >> 30)) * 0xBF58476D1CE4E5B9
	z = (z ^ (z >> 27)) * 0x94D049BB133111EB
	return z ^ (z >> 31)
}
func (r *vrng) intn(n int) int { return int(r.next() % uint64(n)) }

const hexdigits = "0123456789abcdef"

func vhex(b []byte) string {
	out := make([]byte, 2*len(b))
	for i, c := range b {
		out[2*i] = hexdigits[c>>4]
		out[2*i+1] = hexdigits[c&15]
	}
	return string(out)
}
