//go:build verif

package retry

// C18 harness: drives the real ExpBackOff.nextWait (unexported, reached through the overlay) on a dense grid and the
// real ExpBackOff.RetryWithCtx with scripted operations and scripted contexts. One line per case:
//   "<oracle request>\t<observation>"; the Lean oracle (LLRP.Oracle.C18) must answer the observation verbatim.

import (
	"context"
	"errors"
	"fmt"
	"math"
	"os"
	"os/signal"
	"runtime"
	"strconv"
	"strings"
	"sync"
	"syscall"
	"testing"
	"time"
)

// vErr is the error returned by the i-th call of a scripted operation; every call gets its own value.
type vErr struct{ i int }

func (e *vErr) Error() string { return fmt.Sprintf("op%d", e.i) }

// vctx is a context whose end is scripted: Done closes and Err becomes `err` when end() is called.
// Deadline() reports what the script says (none, or a far one).
type vctx struct {
	mu       sync.Mutex
	done     chan struct{}
	err      error
	deadline time.Time
	hasDl    bool
}

func (c *vctx) Deadline() (time.Time, bool) { return c.deadline, c.hasDl }
func (c *vctx) Done() <-chan struct{}       { return c.done }
func (c *vctx) Value(interface{}) interface{} {
	return nil
}
func (c *vctx) Err() error {
	c.mu.Lock()
	defer c.mu.Unlock()
	return c.err
}
func (c *vctx) end(err error) {
	c.mu.Lock()
	defer c.mu.Unlock()
	if c.err == nil {
		c.err = err
		close(c.done)
	}
}

type c18case struct {
	cfg     ExpBackOff
	retries int
	outs    string // o | r | f per call; "" = empty script (the operation succeeds once the script is used up)
	ctx     string // entry char (- h C D) then one char per wait (. c x d)
	trials  int    // > 1: the observation must be the same in every trial
	elapsed bool   // emit a retry-elapsed line instead (no-jitter policies only)
	via     int    // 0 RetryWithCtx, 1 RetrySome, 2 Retry (the wrappers: live context, ctx must be "-")
	probe   time.Duration // > 0: the context has a deadline this far ahead and never ends (ctx must be "h"); the oracle
	// decides from the pause it computes whether the deadline check refuses the wait (retry-probe)
}

func (c c18case) request() string {
	j := 0
	if c.cfg.Jitter {
		j = 1
	}
	outs := c.outs
	if outs == "" {
		outs = "-"
	}
	return fmt.Sprintf("%d,%d,%d,%d %d %s %s", int64(c.cfg.BackOff), int64(c.cfg.Max), c.cfg.KeepErrs, j, c.retries, outs, c.ctx)
}

func c18name(e error, ops []*vErr) string {
	switch e {
	case ErrRetriesExceeded:
		return "R"
	case context.Canceled:
		return "C"
	case context.DeadlineExceeded:
		return "D"
	case ErrWaitExceedsDeadline:
		return "W"
	}
	if v, ok := e.(*vErr); ok && v.i < len(ops) && ops[v.i] == v {
		return fmt.Sprintf("op%d", v.i)
	}
	return "?"
}

func joinOr(xs []string) string {
	if len(xs) == 0 {
		return "-"
	}
	return strings.Join(xs, ",")
}

// c18run executes one case once against the real RetryWithCtx; returns the observation and the elapsed time.
// Cases with a 'd' event use a real deadline a little ahead; if the machine is so loaded that the deadline passes
// before the scripted call is reached, the case is repeated with a longer one (the script, not the load, must decide).
func c18run(c c18case) (string, time.Duration) {
	if !strings.ContainsRune(c.ctx[1:], 'd') || strings.ContainsRune(c.ctx[1:], 'x') {
		obs, el, _ := c18runOnce(c, 0)
		return obs, el
	}
	var obs string
	var el time.Duration
	for _, dl := range []time.Duration{40 * time.Millisecond, 400 * time.Millisecond, 3 * time.Second} {
		var overrun bool
		obs, el, overrun = c18runOnce(c, dl)
		if !overrun {
			break
		}
	}
	return obs, el
}

func c18runOnce(c c18case, nearIn time.Duration) (string, time.Duration, bool) {
	const guard = 10 * time.Second
	evs := c.ctx[1:]
	ops := make([]*vErr, len(c.outs)+3)
	for i := range ops {
		ops[i] = &vErr{i}
	}

	// the context
	var ctx context.Context
	var endCtx func(error)
	cancelAll := func() {}
	useV := strings.ContainsRune(evs, 'x')
	near := strings.ContainsRune(evs, 'd')
	var nearDeadline time.Time
	switch {
	case c.probe > 0:
		v := &vctx{done: make(chan struct{})}
		v.deadline, v.hasDl = time.Now().Add(c.probe), true
		ctx, endCtx = v, v.end
	case useV:
		v := &vctx{done: make(chan struct{})}
		if c.ctx[0] == 'h' {
			v.deadline, v.hasDl = time.Now().Add(time.Hour), true
		}
		ctx, endCtx = v, v.end
	case near:
		nearDeadline = time.Now().Add(nearIn)
		// contexts carry a cause of their own wherever the API allows one: what RetryWithCtx reports must match the
		// context's ERROR (ctx.Err(): Canceled / DeadlineExceeded), whatever cause its owner attached
		cc, cancel := context.WithDeadlineCause(context.Background(), nearDeadline, errors.New("owner's cause: too slow"))
		ctx, cancelAll = cc, cancel
		endCtx = func(error) { cancel() }
	case c.ctx[0] == 'h':
		cc0, cancel0 := context.WithDeadlineCause(context.Background(), time.Now().Add(time.Hour), errors.New("owner's cause: hour over"))
		cc, cancel := context.WithCancelCause(cc0)
		ctx, cancelAll = cc, func() { cancel(nil); cancel0() }
		endCtx = func(error) { cancel(errors.New("owner's cause: gave up")) }
	case c.ctx[0] == 'D':
		cc, cancel := context.WithDeadlineCause(context.Background(), time.Now().Add(-time.Second), errors.New("owner's cause: late from the start"))
		ctx, cancelAll = cc, cancel
		endCtx = func(error) { cancel() }
	default:
		cc, cancel := context.WithCancelCause(context.Background())
		ctx, cancelAll = cc, func() { cancel(nil) }
		endCtx = func(error) { cancel(errors.New("owner's cause: shutting down")) }
		if c.ctx[0] == 'C' {
			cancel(errors.New("owner's cause: never mind"))
		}
	}
	defer cancelAll()

	calls := 0
	f := func(_ context.Context) (bool, error) {
		calls++
		k := calls
		out := byte('o')
		if k <= len(c.outs) {
			out = c.outs[k-1]
		}
		if k <= len(evs) {
			// what happens "at the wait that follows call k" is arranged just before call k returns,
			// so that the wait observes it deterministically
			switch evs[k-1] {
			case 'c':
				endCtx(context.Canceled)
			case 'x':
				endCtx(context.DeadlineExceeded)
			case 'd':
				for !time.Now().After(nearDeadline) {
					time.Sleep(time.Until(nearDeadline) + 50*time.Microsecond)
				}
			}
		}
		if k >= len(ops) {
			return false, errors.New("script overrun")
		}
		switch out {
		case 'r':
			return true, ops[k]
		case 'f':
			return false, ops[k]
		}
		return true, nil
	}

	type result struct {
		err      error
		panicked interface{}
		el       time.Duration
	}
	ch := make(chan result, 1)
	go func() {
		var r result
		t0 := time.Now()
		defer func() {
			r.panicked = recover()
			r.el = time.Since(t0)
			ch <- r
		}()
		switch c.via {
		case 1:
			r.err = c.cfg.RetrySome(c.retries, func() (bool, error) { return f(ctx) })
		case 2:
			r.err = c.cfg.Retry(c.retries, func() error { _, e := f(ctx); return e })
		default:
			r.err = c.cfg.RetryWithCtx(ctx, c.retries, f)
		}
	}()
	var r result
	select {
	case r = <-ch:
	case <-time.After(guard):
		return "timeout", guard, false
	}
	// the run ended before the call that was scripted to outlast the deadline, yet the deadline has passed
	overrun := near && calls < strings.IndexByte(evs, 'd')+1 && time.Now().After(nearDeadline)
	if r.panicked != nil {
		return "panic", r.el, overrun
	}
	if r.err == nil {
		return fmt.Sprintf("calls=%d result=ok", calls), r.el, overrun
	}
	var fe *FError
	if !errors.As(r.err, &fe) {
		return fmt.Sprintf("calls=%d result=err-not-FError", calls), r.el, overrun
	}
	targets := []error{ErrRetriesExceeded, context.Canceled, context.DeadlineExceeded, ErrWaitExceedsDeadline}
	names := []string{"R", "C", "D", "W"}
	nops := calls
	if nops < 1 {
		nops = 1
	}
	for i := 1; i <= nops && i < len(ops); i++ {
		targets = append(targets, ops[i])
		names = append(names, fmt.Sprintf("op%d", i))
	}
	var is []string
	for i, tg := range targets {
		if errors.Is(r.err, tg) {
			is = append(is, names[i])
		}
	}
	var others []string
	for _, e := range fe.Others {
		others = append(others, c18name(e, ops))
	}
	return fmt.Sprintf("calls=%d result=err main=%s is=%s kept=%d others=%s attempts=%d",
		calls, c18name(fe.MainErr, ops), joinOr(is), len(fe.Others), joinOr(others), fe.Attempts), r.el, overrun
}

func c18nextWait(ebo ExpBackOff, n int) (s string) {
	defer func() {
		if recover() != nil {
			s = "panic"
		}
	}()
	return fmt.Sprintf("%d", int64(ebo.nextWait(n)))
}

func c18sequences(maxLen int) []string {
	out := []string{""}
	level := []string{""}
	for l := 1; l <= maxLen; l++ {
		var next []string
		for _, s := range level {
			for _, ch := range "orf" {
				next = append(next, s+string(ch))
			}
		}
		out = append(out, next...)
		level = next
	}
	return out
}

func TestVerifC18(t *testing.T) {
	o := vopen(t)
	defer o.close()
	rng := &vrng{s: vseed()}

	// ------------------------------------------------------------------ 1. nextWait on a dense grid
	vals := []int64{0, 1, int64(time.Millisecond), int64(time.Second), int64(time.Minute), 1 << 62, math.MaxInt64,
		int64(rng.next() >> 1), int64(rng.next() >> (1 + uint(rng.intn(62)))), int64(rng.next() >> (1 + uint(rng.intn(40))))}
	neg := []int64{-1, math.MinInt64, -int64(rng.next() >> 1)}
	if vthorough() {
		for i := 0; i < 12; i++ {
			vals = append(vals, int64(rng.next()>>(1+uint(rng.intn(63)))))
		}
		vals = append(vals, 2, 3, 1<<31, 1<<32, 1<<61, 1<<62-1, 1<<62+1, math.MaxInt64-1)
	}
	draws := 4
	if vthorough() {
		draws = 16
	}
	ns := []int{}
	for n := -2; n <= 70; n++ {
		ns = append(ns, n)
	}
	ns = append(ns, math.MinInt64, math.MaxInt64, -1<<31, 1<<31, 1<<32+1)
	all := append(append([]int64{}, vals...), neg...)
	for _, n := range ns {
		for _, b := range all {
			for _, m := range all {
				w := c18nextWait(ExpBackOff{BackOff: time.Duration(b), Max: time.Duration(m)}, n)
				o.line(fmt.Sprintf("nextwait %d %d 0 %d 0", b, m, n), w)
				if b >= 1 && m >= 1 { // the property's own wording, judged by the Lean monitor (not by the translation)
					o.line(fmt.Sprintf("wait-spec %d %d 0 %d %s", b, m, n, w), "accept")
				}
			}
		}
		for _, b := range vals { // jitter: non-negative base (the feasibility decision is exact there), any max
			for _, m := range all {
				ebo := ExpBackOff{BackOff: time.Duration(b), Max: time.Duration(m), Jitter: true}
				for d := 0; d < draws; d++ {
					w := c18nextWait(ebo, n)
					if b >= 1 && m >= 1 {
						o.line(fmt.Sprintf("wait-spec %d %d 1 %d %s", b, m, n, w), "accept")
					}
					if w == "panic" {
						o.line(fmt.Sprintf("nextwait-feasible %d %d %d 0", b, m, n), "panic")
						break
					}
					o.line(fmt.Sprintf("nextwait-feasible %d %d %d %s", b, m, n, w), "yes")
				}
			}
		}
	}

	// ------------------------------------------------------------------ 2. RetryWithCtx with scripted operations / contexts
	policies := []ExpBackOff{
		{BackOff: 1, Max: 0, Jitter: false},
		{BackOff: 0, Max: 0, Jitter: true},
		{BackOff: 1, Max: 8, Jitter: true},
		{BackOff: -5, Max: -1, Jitter: false},
		{BackOff: time.Microsecond, Max: 2 * time.Microsecond, Jitter: false},
		{BackOff: 3, Max: time.Microsecond, Jitter: true},
	}
	retriesSet := []int{-5, -4, -3, -2, Forever, 0, 1, 2, 3, 4, 5}
	keeps := []int{0, 1, 2, 10, -3}
	maxLen, evLen := 6, 6
	if vthorough() {
		retriesSet = append(retriesSet, 6, 7, 8, 100, math.MaxInt64, math.MinInt64)
		keeps = append(keeps, 3, 5, math.MaxInt64, math.MinInt64)
		maxLen, evLen = 7, 7
	}
	var cases []c18case
	pick := func() ExpBackOff { return policies[rng.intn(len(policies))] }
	seqs := c18sequences(maxLen)
	// 2a. every outcome sequence x retry count x KeepErrs, live context (plain or with a far deadline)
	for _, s := range seqs {
		for _, r := range retriesSet {
			for _, k := range keeps {
				p := pick()
				p.KeepErrs = k
				entry := "-"
				if rng.intn(4) == 0 {
					entry = "h"
				}
				cases = append(cases, c18case{cfg: p, retries: r, outs: s, ctx: entry, trials: 1})
			}
		}
	}
	// 2a'. the exported wrappers RetrySome and Retry (Retry treats every error as recoverable: no 'f' outcomes)
	for _, s := range c18sequences(4) {
		for _, r := range retriesSet {
			p := pick()
			p.KeepErrs = keeps[rng.intn(len(keeps))]
			cases = append(cases, c18case{cfg: p, retries: r, outs: s, ctx: "-", trials: 1, via: 1})
			if !strings.ContainsRune(s, 'f') {
				cases = append(cases, c18case{cfg: p, retries: r, outs: s, ctx: "-", trials: 1, via: 2})
			}
		}
	}
	// 2b. context already ended at entry
	for _, s := range c18sequences(2) {
		for _, r := range retriesSet {
			for _, e := range []string{"C", "D"} {
				p := pick()
				p.KeepErrs = keeps[rng.intn(len(keeps))]
				cases = append(cases, c18case{cfg: p, retries: r, outs: s, ctx: e, trials: 1})
			}
		}
	}
	// 2c. context ends at wait k (cancel: real context; deadline error without a deadline check: scripted context)
	trials := 3
	if vthorough() {
		trials = 8
	}
	if v, err := strconv.Atoi(os.Getenv("VERIF_C18_TRIALS")); err == nil && v > 0 {
		trials = v // replays ask for more trials so that a scheduling-dependent failure shows reliably
	}
	for _, s := range c18sequences(evLen) {
		for _, r := range retriesSet {
			for k := 1; k <= len(s)+1 && k <= maxLen; k++ {
				for _, ev := range "cx" {
					p := pick()
					p.KeepErrs = keeps[rng.intn(len(keeps))]
					entry := "-"
					if rng.intn(3) == 0 {
						entry = "h"
					}
					cases = append(cases, c18case{cfg: p, retries: r, outs: s, ctx: entry + strings.Repeat(".", k-1) + string(ev), trials: trials})
				}
			}
		}
	}
	// the same with waits far longer than the test: the context must cut the wait short
	long := []ExpBackOff{{BackOff: time.Hour, Max: 0, Jitter: false}, {BackOff: time.Hour, Max: 2 * time.Hour, Jitter: false, KeepErrs: 3},
		{BackOff: 1 << 62, Max: math.MaxInt64, Jitter: false, KeepErrs: 1}}
	for _, p := range long {
		for _, r := range retriesSet {
			for _, s := range []string{"r", "rr", "rf", "ro", "rrr"} {
				for _, ev := range "cx" {
					cases = append(cases, c18case{cfg: p, retries: r, outs: s, ctx: "-" + string(ev), trials: 1})
				}
				cases = append(cases, c18case{cfg: p, retries: r, outs: s, ctx: "hd", trials: 1})
			}
		}
	}
	// 2d. the wait would exceed the deadline at wait k (the k-th call returns only after the deadline has passed)
	for k := 1; k <= maxLen; k++ {
		for tail := range []int{0, 1, 2} {
			for _, r := range []int{Forever, 0, 1, 2, 3, 5, 7} {
				s := strings.Repeat("r", k-1+tail)
				for _, end := range []string{"", "o", "f", "r"} {
					p := pick()
					p.KeepErrs = keeps[rng.intn(len(keeps))]
					cases = append(cases, c18case{cfg: p, retries: r, outs: s + end, ctx: "h" + strings.Repeat(".", k-1) + "d", trials: 1})
				}
			}
		}
	}
	// 2e. waits are really slept through (no jitter): elapsed >= sum of the model's waits
	for k := 1; k <= 5; k++ {
		for _, p := range []ExpBackOff{{BackOff: 20 * time.Microsecond}, {BackOff: 50 * time.Microsecond, Max: 120 * time.Microsecond}} {
			cases = append(cases, c18case{cfg: p, retries: k + 1, outs: strings.Repeat("r", k+2), ctx: "-", trials: 1, elapsed: true})
			cases = append(cases, c18case{cfg: p, retries: Forever, outs: strings.Repeat("r", k) + "o", ctx: "h", trials: 1, elapsed: true})
		}
	}

	// 2f. the magnitude of pauses far longer than a test can sleep, seen through the deadline check: the context's
	// deadline lies 30 min ahead; every policy's pauses are either at most microseconds (slept) or at least an hour
	// (refused).  The oracle computes the pause from the policy as configured and decides.
	probes := []ExpBackOff{
		{BackOff: time.Hour, Max: 1}, {BackOff: time.Hour, Max: time.Microsecond}, {BackOff: 2 * time.Hour, Max: time.Hour},
		{BackOff: 1, Max: time.Hour}, {BackOff: time.Microsecond, Max: 0}, {BackOff: time.Hour, Max: 0},
		{BackOff: 0, Max: time.Hour}, {BackOff: -5, Max: 2 * time.Hour}, {BackOff: time.Hour, Max: -1},
		{BackOff: math.MaxInt64, Max: 3}, {BackOff: 1 << 62, Max: time.Microsecond, KeepErrs: 2}, {BackOff: 3, Max: math.MaxInt64},
		{BackOff: time.Hour, Max: time.Hour - 1}, {BackOff: time.Hour, Max: time.Hour + 1}, {BackOff: 2, Max: 1},
		// a base far above a small maximum: the pause is the maximum, never the base
		{BackOff: time.Hour, Max: 10 * time.Microsecond}, {BackOff: 2 * time.Hour, Max: 5 * time.Microsecond, KeepErrs: 3},
	}
	for _, p := range probes {
		for _, r := range []int{Forever, 1, 2, 3, 5, 7} {
			for _, s := range []string{"r", "rr", "rrr", "rrrrr", "rro", "rrf", "rrrrrr"} {
				cases = append(cases, c18case{cfg: p, retries: r, outs: s, ctx: "h", trials: 1, probe: 30 * time.Minute})
			}
		}
	}

	// 2g. finite counts beyond the 63 re-runs after which the pause stops growing: the count still ends the retries
	for _, r := range []int{63, 64, 65, 100} {
		cases = append(cases, c18case{cfg: ExpBackOff{BackOff: 1, Max: 1}, retries: r, outs: strings.Repeat("r", r+6), ctx: "-", trials: 1})
		cases = append(cases, c18case{cfg: ExpBackOff{BackOff: 1, Max: 2, Jitter: true, KeepErrs: 4}, retries: r, outs: strings.Repeat("r", r-2) + "o", ctx: "-", trials: 1})
	}

	// run them on a pool of workers; results are written in case order
	obs := make([]string, len(cases))
	els := make([]time.Duration, len(cases))
	var wg sync.WaitGroup
	idx := make(chan int, 1024)
	workers := runtime.GOMAXPROCS(0)
	if workers > 16 {
		workers = 16
	}
	for w := 0; w < workers; w++ {
		wg.Add(1)
		go func() {
			defer wg.Done()
			for i := range idx {
				c := cases[i]
				first, el := c18run(c)
				els[i] = el
				res := first
				for tr := 1; tr < c.trials; tr++ {
					again, _ := c18run(c)
					if again != first {
						res = "nondeterministic: " + first + " | " + again
						break
					}
				}
				obs[i] = res
			}
		}()
	}
	for i := range cases {
		idx <- i
	}
	close(idx)
	wg.Wait()
	for i, c := range cases {
		if c.elapsed {
			if strings.HasPrefix(obs[i], "calls=") {
				o.line(fmt.Sprintf("retry-elapsed %s %d", c.request(), int64(els[i])), "ok")
			} else {
				o.line(fmt.Sprintf("retry-elapsed %s %d", c.request(), int64(els[i])), obs[i])
			}
		}
		if c.probe > 0 {
			f := strings.Fields(c.request())
			o.line(fmt.Sprintf("retry-probe %s %s %s %d", f[0], f[1], f[2], int64(c.probe)), obs[i])
			continue
		}
		o.line("retry "+c.request(), obs[i])
	}
	// 3. the wrappers after the process has handled a termination signal of its own: Retry / RetrySome cancel on
	// SIGINT/SIGTERM *during* a call only; an earlier signal, survived by the program, must not affect later calls
	sigc := make(chan os.Signal, 4)
	signal.Notify(sigc, syscall.SIGTERM)
	defer signal.Stop(sigc)
	warm := c18case{cfg: ExpBackOff{BackOff: 1, Max: 10}, retries: 2, outs: "ro", ctx: "-", trials: 1, via: 1}
	first, _ := c18run(warm)
	o.line("retry "+warm.request(), first)
	if err := syscall.Kill(os.Getpid(), syscall.SIGTERM); err == nil {
		select {
		case <-sigc:
		case <-time.After(2 * time.Second):
		}
		time.Sleep(20 * time.Millisecond)
		for _, c := range []c18case{
			{cfg: ExpBackOff{BackOff: 1, Max: 10}, retries: 3, outs: "rro", ctx: "-", trials: 1, via: 1},
			{cfg: ExpBackOff{BackOff: 1, Max: 10, KeepErrs: 2}, retries: 2, outs: "rr", ctx: "-", trials: 1, via: 2},
			{cfg: ExpBackOff{BackOff: 1, Max: 10}, retries: 1, outs: "o", ctx: "-", trials: 1, via: 2},
		} {
			res, _ := c18run(c)
			o.line("retry "+c.request(), res)
		}
	}
}
