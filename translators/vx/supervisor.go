package main

// supervisor facts (C15): the shape of the connection supervisor in Driver.NewLLRPDevice and of LLRPDevice.TrySend
//
//	outer `for <cond>` loop; retry.<P1>.RetryWithCtx(ctx, <n1>, f1) containing retry.<P2>.RetryWithCtx(ctx, <n2>, f2);
//	how f1 recognises "the device was stopped" after the inner retry returned err:
//	  "eq"  — `switch err { case context.Canceled: … }` or `err == context.Canceled`  (pointer comparison with an *FError)
//	  "is"  — `errors.Is(err, context.Canceled)`
//	and what f1 returns in that branch / in the nil branch;
//	TrySend: policy, retry count and the expression deciding whether an error is retried.
//
// Anything that does not have this shape makes the tool exit non-zero (a broken tie).

import (
	"fmt"
	"strings"
	"go/ast"
	"go/token"
	"go/types"
)

type retryCall struct {
	call   *ast.CallExpr
	policy string
	count  string
	fn     *ast.FuncLit
}

// retry.<Policy>.RetryWithCtx(ctx, n, func…) calls directly inside body (not inside nested function literals)
func retryCallsIn(p *Pkg, body ast.Node) []retryCall {
	var out []retryCall
	ast.Inspect(body, func(n ast.Node) bool {
		if fl, ok := n.(*ast.FuncLit); ok && ast.Node(fl) != body {
			return false
		}
		ce, ok := n.(*ast.CallExpr)
		if !ok {
			return true
		}
		sel, ok := ce.Fun.(*ast.SelectorExpr)
		if !ok || sel.Sel.Name != "RetryWithCtx" || len(ce.Args) != 3 {
			return true
		}
		pol, ok := sel.X.(*ast.SelectorExpr)
		if !ok {
			fail("%s: RetryWithCtx receiver is not retry.<Policy>", p.pos(ce))
		}
		if id, ok := pol.X.(*ast.Ident); !ok || id.Name != "retry" {
			fail("%s: RetryWithCtx receiver is not retry.<Policy>", p.pos(ce))
		}
		// a local constant is folded; a constant of package retry (not type-checked offline) is passed by name
		// (`retry.Forever`) and resolved by facts2lean against the constants extracted from internal/retry
		count := ""
		if tv := p.info.Types[ce.Args[1]]; tv.Value != nil {
			count = tv.Value.ExactString()
		} else if s, ok := ce.Args[1].(*ast.SelectorExpr); ok && isIdent(s.X, "retry") {
			count = "retry." + s.Sel.Name
		} else {
			fail("%s: retry count %s is not a constant", p.pos(ce), types.ExprString(ce.Args[1]))
		}
		fl, ok := ce.Args[2].(*ast.FuncLit)
		if !ok {
			fail("%s: retried function is not a function literal", p.pos(ce))
		}
		out = append(out, retryCall{ce, pol.Sel.Name, count, fl})
		// the arguments are visited separately by the caller
		return false
	})
	return out
}

func isSel(e ast.Expr, x, sel string) bool {
	s, ok := e.(*ast.SelectorExpr)
	if !ok || s.Sel.Name != sel {
		return false
	}
	id, ok := s.X.(*ast.Ident)
	return ok && id.Name == x
}

func isIdent(e ast.Expr, name string) bool {
	id, ok := e.(*ast.Ident)
	return ok && id.Name == name
}

func firstReturn(stmts []ast.Stmt) []string {
	for _, s := range stmts {
		if rs, ok := s.(*ast.ReturnStmt); ok {
			var out []string
			for _, r := range rs.Results {
				out = append(out, types.ExprString(r))
			}
			return out
		}
	}
	return nil
}

func supervisorFacts(p *Pkg) map[string]interface{} {
	out := map[string]interface{}{}
	fd := findFunc(p, "Driver.NewLLRPDevice")
	// the supervisor goroutine: the `go func() { … }()` statement of NewLLRPDevice
	var gofn *ast.FuncLit
	for _, s := range fd.Body.List {
		if gs, ok := s.(*ast.GoStmt); ok {
			if fl, ok := gs.Call.Fun.(*ast.FuncLit); ok {
				if gofn != nil {
					fail("%s: more than one goroutine in NewLLRPDevice", p.pos(gs))
				}
				gofn = fl
			}
		}
	}
	if gofn == nil {
		fail("NewLLRPDevice: supervisor goroutine not found")
	}
	// the outer for loop
	var loop *ast.ForStmt
	for _, s := range gofn.Body.List {
		if fs, ok := s.(*ast.ForStmt); ok {
			if loop != nil {
				fail("%s: more than one loop in the supervisor goroutine", p.pos(fs))
			}
			loop = fs
		}
	}
	if loop == nil || loop.Init != nil || loop.Post != nil || loop.Cond == nil {
		fail("NewLLRPDevice: supervisor loop `for <cond> { … }` not found")
	}
	out["loopCond"] = types.ExprString(loop.Cond)
	outer := retryCallsIn(p, loop.Body)
	if len(outer) != 1 {
		fail("%s: expected exactly one RetryWithCtx in the supervisor loop, found %d", p.pos(loop), len(outer))
	}
	inner := retryCallsIn(p, outer[0].fn)
	if len(inner) != 1 {
		fail("%s: expected exactly one nested RetryWithCtx, found %d", p.pos(outer[0].call), len(inner))
	}
	if n := retryCallsIn(p, inner[0].fn); len(n) != 0 {
		fail("%s: unexpected third level of RetryWithCtx", p.pos(inner[0].call))
	}
	out["outerPolicy"], out["outerRetries"] = outer[0].policy, outer[0].count
	out["innerPolicy"], out["innerRetries"] = inner[0].policy, inner[0].count

	// the inner retry's result must be bound to `err`
	f1 := outer[0].fn
	bound := false
	for _, s := range f1.Body.List {
		if as, ok := s.(*ast.AssignStmt); ok && len(as.Lhs) == 1 && len(as.Rhs) == 1 && as.Rhs[0] == ast.Expr(inner[0].call) && isIdent(as.Lhs[0], "err") {
			bound = true
		}
	}
	if !bound {
		fail("%s: result of the inner retry is not bound to `err`", p.pos(inner[0].call))
	}

	// how f1 recognises cancellation, and the nil case
	stop, stopRet, nilRet := "", []string(nil), []string(nil)
	set := func(kind string, n ast.Node, ret []string) {
		if stop != "" {
			fail("%s: more than one cancellation test in the supervisor", p.pos(n))
		}
		stop, stopRet = kind, ret
	}
	isCanceled := func(e ast.Expr) bool { return isSel(e, "context", "Canceled") }
	isErrorsIs := func(e ast.Expr) bool {
		ce, ok := e.(*ast.CallExpr)
		return ok && isSel(ce.Fun, "errors", "Is") && len(ce.Args) == 2 && isIdent(ce.Args[0], "err") && isCanceled(ce.Args[1])
	}
	isEq := func(e ast.Expr) bool {
		be, ok := e.(*ast.BinaryExpr)
		return ok && be.Op == token.EQL && ((isIdent(be.X, "err") && isCanceled(be.Y)) || (isIdent(be.Y, "err") && isCanceled(be.X)))
	}
	isNilTest := func(e ast.Expr) bool {
		be, ok := e.(*ast.BinaryExpr)
		return ok && be.Op == token.EQL && ((isIdent(be.X, "err") && isIdent(be.Y, "nil")) || (isIdent(be.Y, "err") && isIdent(be.X, "nil")))
	}
	for _, s := range f1.Body.List {
		switch st := s.(type) {
		case *ast.SwitchStmt:
			tagErr := st.Tag != nil && isIdent(st.Tag, "err")
			if st.Tag != nil && !tagErr {
				continue
			}
			for _, c := range st.Body.List {
				cc := c.(*ast.CaseClause)
				for _, e := range cc.List {
					switch {
					case tagErr && isCanceled(e):
						set("eq", cc, firstReturn(cc.Body))
					case tagErr && isIdent(e, "nil"):
						nilRet = firstReturn(cc.Body)
					case !tagErr && isErrorsIs(e):
						set("is", cc, firstReturn(cc.Body))
					case !tagErr && isEq(e):
						set("eq", cc, firstReturn(cc.Body))
					case !tagErr && isNilTest(e):
						nilRet = firstReturn(cc.Body)
					}
				}
			}
		case *ast.IfStmt:
			for cur := st; cur != nil; {
				switch {
				case isErrorsIs(cur.Cond):
					set("is", cur, firstReturn(cur.Body.List))
				case isEq(cur.Cond):
					set("eq", cur, firstReturn(cur.Body.List))
				case isNilTest(cur.Cond):
					nilRet = firstReturn(cur.Body.List)
				}
				next, _ := cur.Else.(*ast.IfStmt)
				cur = next
			}
		}
	}
	if stop == "" {
		fail("%s: the supervisor has no test for context.Canceled after the inner retry (neither `==`/switch nor errors.Is)", p.pos(f1))
	}
	if len(stopRet) != 2 || stopRet[0] != "false" {
		fail("%s: the cancellation branch does not `return false, …` (got %v)", p.pos(f1), stopRet)
	}
	if len(nilRet) != 2 || nilRet[0] != "true" || nilRet[1] != "nil" {
		fail("%s: the nil branch does not `return true, nil` (got %v)", p.pos(f1), nilRet)
	}
	out["stopCheck"] = stop

	// what one attempt (f₂) reports: the error variable of its final `return true, <v>` and every assignment to it, each
	// with the conditions it sits under (an attempt counts as failed iff that value is non-nil)
	f2 := inner[0].fn
	lastRet, _ := f2.Body.List[len(f2.Body.List)-1].(*ast.ReturnStmt)
	if lastRet == nil || len(lastRet.Results) != 2 {
		fail("%s: the attempt function does not end in `return <retry?>, <err>`", p.pos(f2))
	}
	rv, okv := lastRet.Results[1].(*ast.Ident)
	if !okv {
		fail("%s: the attempt function's final error result is not a variable", p.pos(lastRet))
	}
	var attempt []string
	var walk func(list []ast.Stmt, conds []string)
	walk = func(list []ast.Stmt, conds []string) {
		for _, st := range list {
			switch x := st.(type) {
			case *ast.AssignStmt:
				for i, l := range x.Lhs {
					if isIdent(l, rv.Name) {
						rhs := ""
						if len(x.Rhs) == len(x.Lhs) {
							rhs = types.ExprString(x.Rhs[i])
						} else {
							rhs = types.ExprString(x.Rhs[0]) + fmt.Sprintf("#%d", i)
						}
						attempt = append(attempt, strings.Join(conds, " && ")+" => "+rhs)
					}
				}
			case *ast.ReturnStmt:
				var rs []string
				for _, r := range x.Results {
					rs = append(rs, types.ExprString(r))
				}
				attempt = append(attempt, strings.Join(conds, " && ")+" => return "+strings.Join(rs, ", "))
			case *ast.IfStmt:
				c := types.ExprString(x.Cond)
				walk(x.Body.List, append(append([]string{}, conds...), c))
				switch e := x.Else.(type) {
				case *ast.BlockStmt:
					walk(e.List, append(append([]string{}, conds...), "!("+c+")"))
				case *ast.IfStmt:
					walk([]ast.Stmt{e}, append(append([]string{}, conds...), "!("+c+")"))
				}
			case *ast.BlockStmt:
				walk(x.List, conds)
			case *ast.ForStmt, *ast.RangeStmt, *ast.SwitchStmt, *ast.SelectStmt:
				ast.Inspect(x, func(n ast.Node) bool {
					if as, ok := n.(*ast.AssignStmt); ok {
						for _, l := range as.Lhs {
							if isIdent(l, rv.Name) {
								attempt = append(attempt, "<nested> => "+types.ExprString(as.Rhs[0]))
							}
						}
					}
					return true
				})
			}
		}
	}
	walk(f2.Body.List, nil)
	out["attemptErrVar"] = rv.Name
	out["attemptErr"] = attempt
	out["attemptRetry"] = types.ExprString(lastRet.Results[0])

	// TrySend
	ts := findFunc(p, "LLRPDevice.TrySend")
	calls := retryCallsIn(p, ts.Body)
	if len(calls) != 1 {
		fail("TrySend: expected exactly one RetryWithCtx, found %d", len(calls))
	}
	out["sendPolicy"], out["sendRetries"] = calls[0].policy, calls[0].count
	body := calls[0].fn.Body.List
	last, ok := body[len(body)-1].(*ast.ReturnStmt)
	if !ok || len(last.Results) != 2 {
		fail("%s: TrySend's retried function does not end in `return <retry?>, err`", p.pos(calls[0].fn))
	}
	out["sendRetryCond"] = types.ExprString(last.Results[0])
	// the `c == nil` early return
	noClient := ""
	for _, s := range body {
		if is, ok := s.(*ast.IfStmt); ok {
			if r := firstReturn(is.Body.List); len(r) == 2 {
				noClient = r[0]
			}
		}
	}
	out["sendNoClientRetry"] = noClient
	return out
}
