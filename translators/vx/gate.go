package main

// gate facts (C08): where the channels that gate callers are closed.
//
//	The client model opens the `ready` gate in two places only: on the reject path of Connect, where no writer
//	goroutine exists (so nothing a released caller queues can reach the wire), and after negotiation has succeeded.
//	For every `close(c.ready)` / `close(c.done)` of package llrp this records the function, whether the statement comes
//	(in source order, within the same function) after a `go` statement whose body calls handleOutgoing (a writer is
//	live), whether it comes after the call of negotiate, and whether it sits on an error path (inside an `if` whose
//	condition mentions `err != nil`, or directly followed by a `return` of a non-nil error expression).

import (
	"go/ast"
	"go/types"
	"strings"
)

type CloseSite struct {
	Func           string `json:"func"`
	Field          string `json:"field"`
	WriterLive     bool   `json:"writerLive"`
	AfterNegotiate bool   `json:"afterNegotiate"`
	OnErrPath      bool   `json:"onErrPath"`
	Pos            string `json:"pos"`
}

func gateFacts(p *Pkg) []CloseSite {
	out := []CloseSite{}
	for _, fd := range p.funcs() {
		if fd.Body == nil || strings.HasSuffix(p.fset.Position(fd.Pos()).Filename, "_test.go") {
			continue
		}
		var writerAt, negAt ast.Node
		ast.Inspect(fd.Body, func(n ast.Node) bool {
			switch x := n.(type) {
			case *ast.GoStmt:
				ast.Inspect(x, func(m ast.Node) bool {
					if c, ok := m.(*ast.CallExpr); ok && strings.HasSuffix(types.ExprString(c.Fun), ".handleOutgoing") && writerAt == nil {
						writerAt = x
					}
					return true
				})
			case *ast.CallExpr:
				if strings.HasSuffix(types.ExprString(x.Fun), ".negotiate") && negAt == nil {
					negAt = x
				}
			}
			return true
		})
		// enclosing statements for the error-path decision
		var stack []ast.Node
		ast.Inspect(fd.Body, func(n ast.Node) bool {
			if n == nil {
				stack = stack[:len(stack)-1]
				return true
			}
			stack = append(stack, n)
			c, ok := n.(*ast.CallExpr)
			if !ok || types.ExprString(c.Fun) != "close" || len(c.Args) != 1 {
				return true
			}
			arg := types.ExprString(c.Args[0])
			if arg != "c.ready" && arg != "c.done" {
				return true
			}
			s := CloseSite{Func: funcName(fd), Field: strings.TrimPrefix(arg, "c."), Pos: p.pos(c)}
			s.WriterLive = writerAt != nil && writerAt.Pos() < c.Pos()
			s.AfterNegotiate = negAt != nil && negAt.Pos() < c.Pos()
			for i := len(stack) - 1; i >= 0; i-- {
				switch e := stack[i].(type) {
				case *ast.IfStmt:
					if strings.Contains(types.ExprString(e.Cond), "err != nil") && e.Body.Pos() <= c.Pos() && c.End() <= e.Body.End() {
						s.OnErrPath = true
					}
				case *ast.BlockStmt:
					// directly followed by `return <something that is not nil>`
					for j, st := range e.List {
						if st.Pos() <= c.Pos() && c.End() <= st.End() && j+1 < len(e.List) {
							if r, ok := e.List[j+1].(*ast.ReturnStmt); ok && len(r.Results) > 0 {
								last := types.ExprString(r.Results[len(r.Results)-1])
								if last != "nil" {
									s.OnErrPath = true
								}
							}
						}
					}
				}
			}
			out = append(out, s)
			return true
		})
	}
	return out
}

// InitCheckSite: one call of checkInitialMessage — in which function, and whether it can run more than once there
// (inside a `for` / `range` loop or a function literal)
type InitCheckSite struct {
	Func   string `json:"func"`
	InLoop bool   `json:"inLoop"`
}

// initCheckFacts (C08): the first message of a connection is read and judged exactly once: every call site of
// checkInitialMessage in package llrp
func initCheckFacts(p *Pkg) []InitCheckSite {
	out := []InitCheckSite{}
	for _, fd := range p.funcs() {
		if fd.Body == nil || strings.HasSuffix(p.fset.Position(fd.Pos()).Filename, "_test.go") {
			continue
		}
		var stack []ast.Node
		ast.Inspect(fd.Body, func(n ast.Node) bool {
			if n == nil {
				stack = stack[:len(stack)-1]
				return true
			}
			stack = append(stack, n)
			c, ok := n.(*ast.CallExpr)
			if !ok || !strings.HasSuffix(types.ExprString(c.Fun), ".checkInitialMessage") {
				return true
			}
			s := InitCheckSite{Func: funcName(fd)}
			for _, e := range stack {
				switch e.(type) {
				case *ast.ForStmt, *ast.RangeStmt, *ast.FuncLit:
					s.InLoop = true
				}
			}
			out = append(out, s)
			return true
		})
	}
	return out
}
