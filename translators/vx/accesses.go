package main

import (
	"go/ast"
	"go/token"
	"go/types"
	"sort"
	"strings"
)

// Access is one syntactic read or write of a field of a tracked struct type.
type Access struct {
	Struct string   `json:"struct"`
	Field  string   `json:"field"`
	Func   string   `json:"func"` // enclosing function; closures are Outer$1, Outer$1$2 …
	Pos    string   `json:"pos"`
	Kind   string   `json:"kind"`   // "R" | "W"
	Atomic bool     `json:"atomic"` // the address is passed to a sync/atomic function
	Held   []string `json:"held"`   // mutex fields syntactically held (receiver.field names, R-locks as name+":R")
	Via    string   `json:"via"`    // "method" when the field is only used as receiver of a method call (e.g. mu.Lock, ch ops)
}

func namedStruct(t types.Type) string {
	if t == nil {
		return ""
	}
	if p, ok := t.(*types.Pointer); ok {
		t = p.Elem()
	}
	if n, ok := t.(*types.Named); ok {
		if _, ok := n.Underlying().(*types.Struct); ok {
			return n.Obj().Name()
		}
	}
	return ""
}

// ---- additional race facts (C20), a separate output: the Access records above are unchanged ----

// Call is one syntactic use of a method of a tracked struct type.
type Call struct {
	Callee   string   `json:"callee"` // Type.method
	Func     string   `json:"func"`   // enclosing function (closures as Outer$1 …)
	Pos      string   `json:"pos"`
	Mode     string   `json:"mode"` // "call" | "go" | "defer" | "value" (method value, not called in place)
	Held     []string `json:"held"` // mutex fields syntactically held at the call
	PostFork bool     `json:"postFork"`
}

// AccSite identifies an access record (same struct/field/func/pos as in Access).
type AccSite struct {
	Struct string `json:"struct"`
	Field  string `json:"field"`
	Func   string `json:"func"`
	Pos    string `json:"pos"`
}

// RaceAux: call sites of methods of the tracked types with the locks held at the call; the write records that are
// really `close(x.f)` channel operations; the access records that do not precede every `go` statement of their function.
type RaceAux struct {
	Calls      []Call `json:"calls"`
	ChanCloses []AccSite `json:"chanCloses"`
	PostFork   []AccSite `json:"postFork"`
}

type accWalker struct {
	p       *Pkg
	tracked map[string]bool
	out     []Access
	fn      string
	nclos   int
	// race aux
	aux       RaceAux
	forkPos   map[string]token.Pos // function -> first position that may follow a `go` statement of that function
	callMode  string
	funOfCall map[ast.Expr]bool
	isClose   bool
}

// firstForkPos returns the first source position of body (not descending into function literals) from which a
// `go` statement of this body may already have been executed: the `go` statement itself, or the start of the
// outermost loop that contains one.
func firstForkPos(body *ast.BlockStmt) token.Pos {
	best := token.NoPos
	var loops []ast.Node
	var visit func(n ast.Node)
	visit = func(n ast.Node) {
		if n == nil {
			return
		}
		ast.Inspect(n, func(m ast.Node) bool {
			switch x := m.(type) {
			case *ast.FuncLit:
				return false
			case *ast.GoStmt:
				pos := x.Pos()
				if len(loops) > 0 {
					pos = loops[0].Pos()
				}
				if best == token.NoPos || pos < best {
					best = pos
				}
				return false
			case *ast.ForStmt:
				loops = append(loops, x)
				visit(x.Body)
				loops = loops[:len(loops)-1]
				return false
			case *ast.RangeStmt:
				loops = append(loops, x)
				visit(x.Body)
				loops = loops[:len(loops)-1]
				return false
			}
			return true
		})
	}
	visit(body)
	return best
}

func (w *accWalker) postFork(pos token.Pos) bool {
	fp, ok := w.forkPos[w.fn]
	return ok && fp != token.NoPos && pos >= fp
}

// trackedMethod returns "Type.method" when e denotes a method of a tracked struct type declared in this package.
func (w *accWalker) trackedMethod(e ast.Expr) string {
	se, ok := e.(*ast.SelectorExpr)
	if !ok {
		return ""
	}
	sel, ok := w.p.info.Selections[se]
	if !ok || sel.Kind() != types.MethodVal {
		return ""
	}
	fn, ok := sel.Obj().(*types.Func)
	if !ok || fn.Pkg() != w.p.pkg {
		return ""
	}
	sig, ok := fn.Type().(*types.Signature)
	if !ok || sig.Recv() == nil {
		return ""
	}
	rn := namedStruct(sig.Recv().Type())
	if !w.tracked[rn] {
		return ""
	}
	return rn + "." + fn.Name()
}

func (w *accWalker) recordCall(e ast.Expr, mode string, held map[string]bool) {
	if name := w.trackedMethod(e); name != "" {
		w.aux.Calls = append(w.aux.Calls, Call{name, w.fn, w.p.pos(e), mode, heldList(held), w.postFork(e.Pos())})
	}
}

func accesses(p *Pkg, structsTracked []string) []Access {
	a, _ := accessesAux(p, structsTracked)
	return a
}

func accessesAux(p *Pkg, structsTracked []string) ([]Access, RaceAux) {
	w := &accWalker{p: p, tracked: map[string]bool{}, forkPos: map[string]token.Pos{}, funOfCall: map[ast.Expr]bool{}}
	for _, s := range structsTracked {
		w.tracked[s] = true
	}
	for _, fd := range p.funcs() {
		if fd.Body == nil {
			continue
		}
		f := fileOf(p, fd)
		if f != nil && strings.HasPrefix(p.fname[f], "test_") {
			continue
		}
		w.fn = funcName(fd)
		w.nclos = 0
		w.forkPos[w.fn] = firstForkPos(fd.Body)
		w.block(fd.Body.List, map[string]bool{})
	}
	sort.SliceStable(w.out, func(i, j int) bool { return w.out[i].Pos < w.out[j].Pos })
	if w.aux.Calls == nil {
		w.aux.Calls = []Call{}
	}
	if w.aux.ChanCloses == nil {
		w.aux.ChanCloses = []AccSite{}
	}
	if w.aux.PostFork == nil {
		w.aux.PostFork = []AccSite{}
	}
	return w.out, w.aux
}

func copyHeld(h map[string]bool) map[string]bool {
	c := map[string]bool{}
	for k, v := range h {
		c[k] = v
	}
	return c
}

func heldList(h map[string]bool) []string {
	out := []string{}
	for k, v := range h {
		if v {
			out = append(out, k)
		}
	}
	sort.Strings(out)
	return out
}

// lockCall recognises x.<mu>.Lock/RLock/Unlock/RUnlock() and returns (mutex field name, op).
func lockCall(e ast.Expr) (string, string) {
	ce, ok := e.(*ast.CallExpr)
	if !ok {
		return "", ""
	}
	se, ok := ce.Fun.(*ast.SelectorExpr)
	if !ok {
		return "", ""
	}
	switch se.Sel.Name {
	case "Lock", "RLock", "Unlock", "RUnlock":
	default:
		return "", ""
	}
	mu, ok := se.X.(*ast.SelectorExpr)
	if !ok {
		return "", ""
	}
	return mu.Sel.Name, se.Sel.Name
}

func (w *accWalker) block(stmts []ast.Stmt, held map[string]bool) {
	for _, s := range stmts {
		w.stmt(s, held)
	}
}

func (w *accWalker) stmt(s ast.Stmt, held map[string]bool) {
	switch st := s.(type) {
	case *ast.ExprStmt:
		if mu, op := lockCall(st.X); mu != "" {
			switch op {
			case "Lock":
				held[mu] = true
			case "RLock":
				held[mu+":R"] = true
			case "Unlock":
				delete(held, mu)
			case "RUnlock":
				delete(held, mu+":R")
			}
			return
		}
		w.expr(st.X, held, false)
	case *ast.DeferStmt:
		if mu, _ := lockCall(st.Call); mu != "" {
			return // stays held to the end of the function
		}
		w.callMode = "defer"
		w.expr(st.Call, held, false)
	case *ast.GoStmt:
		w.callMode = "go"
		w.expr(st.Call, held, false)
	case *ast.AssignStmt:
		for _, r := range st.Rhs {
			w.expr(r, held, false)
		}
		for _, l := range st.Lhs {
			w.expr(l, held, true)
		}
	case *ast.IncDecStmt:
		w.expr(st.X, held, true)
	case *ast.ReturnStmt:
		for _, r := range st.Results {
			w.expr(r, held, false)
		}
	case *ast.SendStmt:
		w.expr(st.Chan, held, false)
		w.expr(st.Value, held, false)
	case *ast.DeclStmt:
		if gd, ok := st.Decl.(*ast.GenDecl); ok {
			for _, sp := range gd.Specs {
				if vs, ok := sp.(*ast.ValueSpec); ok {
					for _, v := range vs.Values {
						w.expr(v, held, false)
					}
				}
			}
		}
	case *ast.BlockStmt:
		w.block(st.List, held)
	case *ast.IfStmt:
		if st.Init != nil {
			w.stmt(st.Init, held)
		}
		w.expr(st.Cond, held, false)
		w.block(st.Body.List, copyHeld(held))
		if st.Else != nil {
			w.stmt(st.Else, copyHeld(held))
		}
	case *ast.ForStmt:
		if st.Init != nil {
			w.stmt(st.Init, held)
		}
		if st.Cond != nil {
			w.expr(st.Cond, held, false)
		}
		if st.Post != nil {
			w.stmt(st.Post, held)
		}
		w.block(st.Body.List, copyHeld(held))
	case *ast.RangeStmt:
		w.expr(st.X, held, false)
		w.block(st.Body.List, copyHeld(held))
	case *ast.SwitchStmt:
		if st.Init != nil {
			w.stmt(st.Init, held)
		}
		if st.Tag != nil {
			w.expr(st.Tag, held, false)
		}
		for _, c := range st.Body.List {
			cc := c.(*ast.CaseClause)
			for _, e := range cc.List {
				w.expr(e, held, false)
			}
			w.block(cc.Body, copyHeld(held))
		}
	case *ast.TypeSwitchStmt:
		for _, c := range st.Body.List {
			w.block(c.(*ast.CaseClause).Body, copyHeld(held))
		}
	case *ast.SelectStmt:
		for _, c := range st.Body.List {
			cc := c.(*ast.CommClause)
			if cc.Comm != nil {
				w.stmt(cc.Comm, held)
			}
			w.block(cc.Body, copyHeld(held))
		}
	case *ast.LabeledStmt:
		w.stmt(st.Stmt, held)
	case *ast.BranchStmt, *ast.EmptyStmt:
	default:
		fail("%s: accesses: unsupported statement %T", w.p.pos(s), s)
	}
}

func isAtomicCall(ce *ast.CallExpr) bool {
	se, ok := ce.Fun.(*ast.SelectorExpr)
	if !ok {
		return false
	}
	x, ok := se.X.(*ast.Ident)
	return ok && x.Name == "atomic"
}

func (w *accWalker) record(se *ast.SelectorExpr, held map[string]bool, write, atomic bool, via string) {
	tv, ok := w.p.info.Types[se.X]
	if !ok {
		return
	}
	sn := namedStruct(tv.Type)
	if !w.tracked[sn] {
		return
	}
	// only fields, not methods
	if sel, ok := w.p.info.Selections[se]; ok && sel.Kind() != types.FieldVal {
		return
	}
	k := "R"
	if write {
		k = "W"
	}
	w.out = append(w.out, Access{sn, se.Sel.Name, w.fn, w.p.pos(se), k, atomic, heldList(held), via})
	if w.postFork(se.Pos()) {
		w.aux.PostFork = append(w.aux.PostFork, AccSite{sn, se.Sel.Name, w.fn, w.p.pos(se)})
	}
	if write && w.isClose {
		w.aux.ChanCloses = append(w.aux.ChanCloses, AccSite{sn, se.Sel.Name, w.fn, w.p.pos(se)})
	}
}

func (w *accWalker) expr(e ast.Expr, held map[string]bool, write bool) {
	switch x := e.(type) {
	case nil:
	case *ast.SelectorExpr:
		if !w.funOfCall[x] {
			w.recordCall(x, "value", held)
		}
		w.record(x, held, write, false, "")
		w.expr(x.X, held, false)
	case *ast.CallExpr:
		mode := w.callMode
		w.callMode = ""
		if mode == "" {
			mode = "call"
		}
		w.funOfCall[x.Fun] = true
		w.recordCall(x.Fun, mode, held)
		atomic := isAtomicCall(x)
		// method call on a tracked field: c.awaitMu.Lock(), l.cancel(), c.logger.X(...)
		if se, ok := x.Fun.(*ast.SelectorExpr); ok {
			if inner, ok := se.X.(*ast.SelectorExpr); ok {
				if _, isMethod := w.p.info.Selections[se]; isMethod {
					w.record(inner, held, false, false, "method")
					w.expr(inner.X, held, false)
				} else {
					w.expr(x.Fun, held, false)
				}
			} else {
				w.expr(x.Fun, held, false)
			}
		} else {
			w.expr(x.Fun, held, false)
		}
		for _, a := range x.Args {
			if atomic {
				if ue, ok := a.(*ast.UnaryExpr); ok && ue.Op == token.AND {
					if se, ok := ue.X.(*ast.SelectorExpr); ok {
						w.record(se, held, true, true, "")
						w.expr(se.X, held, false)
						continue
					}
				}
			}
			// builtin delete(m, k) / close(ch) write their first argument
			if id, ok := x.Fun.(*ast.Ident); ok && (id.Name == "delete" || id.Name == "close") && a == x.Args[0] {
				if _, direct := a.(*ast.SelectorExpr); direct && id.Name == "close" {
					w.isClose = true
				}
				w.expr(a, held, true)
				w.isClose = false
				continue
			}
			w.expr(a, held, false)
		}
	case *ast.FuncLit:
		saved := w.fn
		w.nclos++
		w.fn = saved + "$" + itoa(w.nclos)
		sc := w.nclos
		w.nclos = 0
		w.forkPos[w.fn] = firstForkPos(x.Body)
		// a closure does not inherit the caller's locks unless it is called in place; the repo never does that
		// except through defer, where the deferred closure runs at function end (locks taken with defer-unlock are still held
		// only if registered before; we are conservative and give it none).
		w.block(x.Body.List, map[string]bool{})
		w.nclos = sc
		w.fn = saved
	case *ast.UnaryExpr:
		if x.Op == token.AND {
			// taking the address of a field counts as a write unless it is a composite literal
			if se, ok := x.X.(*ast.SelectorExpr); ok {
				w.record(se, held, true, false, "addr")
				w.expr(se.X, held, false)
				return
			}
		}
		w.expr(x.X, held, false)
	case *ast.BinaryExpr:
		w.expr(x.X, held, false)
		w.expr(x.Y, held, false)
	case *ast.ParenExpr:
		w.expr(x.X, held, write)
	case *ast.StarExpr:
		w.expr(x.X, held, false)
	case *ast.IndexExpr:
		// m[k] = v writes the map held in the field
		w.expr(x.X, held, write)
		w.expr(x.Index, held, false)
	case *ast.SliceExpr:
		w.expr(x.X, held, false)
		w.expr(x.Low, held, false)
		w.expr(x.High, held, false)
	case *ast.TypeAssertExpr:
		w.expr(x.X, held, false)
	case *ast.CompositeLit:
		for _, el := range x.Elts {
			if kv, ok := el.(*ast.KeyValueExpr); ok {
				w.expr(kv.Value, held, false)
			} else {
				w.expr(el, held, false)
			}
		}
	case *ast.KeyValueExpr:
		w.expr(x.Value, held, false)
	case *ast.Ident, *ast.BasicLit, *ast.ArrayType, *ast.MapType, *ast.ChanType, *ast.FuncType, *ast.InterfaceType, *ast.StructType, *ast.Ellipsis:
	default:
		fail("%s: accesses: unsupported expression %T", w.p.pos(e), e)
	}
}

func itoa(n int) string {
	if n == 0 {
		return "0"
	}
	s := ""
	for n > 0 {
		s = string(rune('0'+n%10)) + s
		n /= 10
	}
	return s
}
