package main

import (
	"go/ast"
	"go/token"
	"go/types"
	"sort"
	"strings"
)

// Access is one syntactic read or write of a field of a tracked struct type.
type Access struct {
	Struct string   `json:"struct"`
	Field  string   `json:"field"`
	Func   string   `json:"func"` // enclosing function; closures are Outer$1, Outer$1$2 …
	Pos    string   `json:"pos"`
	Kind   string   `json:"kind"`   // "R" | "W"
	Atomic bool     `json:"atomic"` // the address is passed to a sync/atomic function
	Held   []string `json:"held"`   // mutex fields syntactically held (receiver.field names, R-locks as name+":R")
	Via    string   `json:"via"`    // "method" when the field is only used as receiver of a method call (e.g. mu.Lock, ch ops)
}

func namedStruct(t types.Type) string {
	if t == nil {
		return ""
	}
	if p, ok := t.(*types.Pointer); ok {
		t = p.Elem()
	}
	if n, ok := t.(*types.Named); ok {
		if _, ok := n.Underlying().(*types.Struct); ok {
			return n.Obj().Name()
		}
	}
	return ""
}

type accWalker struct {
	p       *Pkg
	tracked map[string]bool
	out     []Access
	fn      string
	nclos   int
}

func accesses(p *Pkg, structsTracked []string) []Access {
	w := &accWalker{p: p, tracked: map[string]bool{}}
	for _, s := range structsTracked {
		w.tracked[s] = true
	}
	for _, fd := range p.funcs() {
		if fd.Body == nil {
			continue
		}
		f := fileOf(p, fd)
		if f != nil && strings.HasPrefix(p.fname[f], "test_") {
			continue
		}
		w.fn = funcName(fd)
		w.nclos = 0
		w.block(fd.Body.List, map[string]bool{})
	}
	sort.SliceStable(w.out, func(i, j int) bool { return w.out[i].Pos < w.out[j].Pos })
	return w.out
}

func copyHeld(h map[string]bool) map[string]bool {
	c := map[string]bool{}
	for k, v := range h {
		c[k] = v
	}
	return c
}

func heldList(h map[string]bool) []string {
	out := []string{}
	for k, v := range h {
		if v {
			out = append(out, k)
		}
	}
	sort.Strings(out)
	return out
}

// lockCall recognises x.<mu>.Lock/RLock/Unlock/RUnlock() and returns (mutex field name, op).
func lockCall(e ast.Expr) (string, string) {
	ce, ok := e.(*ast.CallExpr)
	if !ok {
		return "", ""
	}
	se, ok := ce.Fun.(*ast.SelectorExpr)
	if !ok {
		return "", ""
	}
	switch se.Sel.Name {
	case "Lock", "RLock", "Unlock", "RUnlock":
	default:
		return "", ""
	}
	mu, ok := se.X.(*ast.SelectorExpr)
	if !ok {
		return "", ""
	}
	return mu.Sel.Name, se.Sel.Name
}

func (w *accWalker) block(stmts []ast.Stmt, held map[string]bool) {
	for _, s := range stmts {
		w.stmt(s, held)
	}
}

func (w *accWalker) stmt(s ast.Stmt, held map[string]bool) {
	switch st := s.(type) {
	case *ast.ExprStmt:
		if mu, op := lockCall(st.X); mu != "" {
			switch op {
			case "Lock":
				held[mu] = true
			case "RLock":
				held[mu+":R"] = true
			case "Unlock":
				delete(held, mu)
			case "RUnlock":
				delete(held, mu+":R")
			}
			return
		}
		w.expr(st.X, held, false)
	case *ast.DeferStmt:
		if mu, _ := lockCall(st.Call); mu != "" {
			return // stays held to the end of the function
		}
		w.expr(st.Call, held, false)
	case *ast.GoStmt:
		w.expr(st.Call, held, false)
	case *ast.AssignStmt:
		for _, r := range st.Rhs {
			w.expr(r, held, false)
		}
		for _, l := range st.Lhs {
			w.expr(l, held, true)
		}
	case *ast.IncDecStmt:
		w.expr(st.X, held, true)
	case *ast.ReturnStmt:
		for _, r := range st.Results {
			w.expr(r, held, false)
		}
	case *ast.SendStmt:
		w.expr(st.Chan, held, false)
		w.expr(st.Value, held, false)
	case *ast.DeclStmt:
		if gd, ok := st.Decl.(*ast.GenDecl); ok {
			for _, sp := range gd.Specs {
				if vs, ok := sp.(*ast.ValueSpec); ok {
					for _, v := range vs.Values {
						w.expr(v, held, false)
					}
				}
			}
		}
	case *ast.BlockStmt:
		w.block(st.List, held)
	case *ast.IfStmt:
		if st.Init != nil {
			w.stmt(st.Init, held)
		}
		w.expr(st.Cond, held, false)
		w.block(st.Body.List, copyHeld(held))
		if st.Else != nil {
			w.stmt(st.Else, copyHeld(held))
		}
	case *ast.ForStmt:
		if st.Init != nil {
			w.stmt(st.Init, held)
		}
		if st.Cond != nil {
			w.expr(st.Cond, held, false)
		}
		if st.Post != nil {
			w.stmt(st.Post, held)
		}
		w.block(st.Body.List, copyHeld(held))
	case *ast.RangeStmt:
		w.expr(st.X, held, false)
		w.block(st.Body.List, copyHeld(held))
	case *ast.SwitchStmt:
		if st.Init != nil {
			w.stmt(st.Init, held)
		}
		if st.Tag != nil {
			w.expr(st.Tag, held, false)
		}
		for _, c := range st.Body.List {
			cc := c.(*ast.CaseClause)
			for _, e := range cc.List {
				w.expr(e, held, false)
			}
			w.block(cc.Body, copyHeld(held))
		}
	case *ast.TypeSwitchStmt:
		for _, c := range st.Body.List {
			w.block(c.(*ast.CaseClause).Body, copyHeld(held))
		}
	case *ast.SelectStmt:
		for _, c := range st.Body.List {
			cc := c.(*ast.CommClause)
			if cc.Comm != nil {
				w.stmt(cc.Comm, held)
			}
			w.block(cc.Body, copyHeld(held))
		}
	case *ast.LabeledStmt:
		w.stmt(st.Stmt, held)
	case *ast.BranchStmt, *ast.EmptyStmt:
	default:
		fail("%s: accesses: unsupported statement %T", w.p.pos(s), s)
	}
}

func isAtomicCall(ce *ast.CallExpr) bool {
	se, ok := ce.Fun.(*ast.SelectorExpr)
	if !ok {
		return false
	}
	x, ok := se.X.(*ast.Ident)
	return ok && x.Name == "atomic"
}

func (w *accWalker) record(se *ast.SelectorExpr, held map[string]bool, write, atomic bool, via string) {
	tv, ok := w.p.info.Types[se.X]
	if !ok {
		return
	}
	sn := namedStruct(tv.Type)
	if !w.tracked[sn] {
		return
	}
	// only fields, not methods
	if sel, ok := w.p.info.Selections[se]; ok && sel.Kind() != types.FieldVal {
		return
	}
	k := "R"
	if write {
		k = "W"
	}
	w.out = append(w.out, Access{sn, se.Sel.Name, w.fn, w.p.pos(se), k, atomic, heldList(held), via})
}

func (w *accWalker) expr(e ast.Expr, held map[string]bool, write bool) {
	switch x := e.(type) {
	case nil:
	case *ast.SelectorExpr:
		w.record(x, held, write, false, "")
		w.expr(x.X, held, false)
	case *ast.CallExpr:
		atomic := isAtomicCall(x)
		// method call on a tracked field: c.awaitMu.Lock(), l.cancel(), c.logger.X(...)
		if se, ok := x.Fun.(*ast.SelectorExpr); ok {
			if inner, ok := se.X.(*ast.SelectorExpr); ok {
				if _, isMethod := w.p.info.Selections[se]; isMethod {
					w.record(inner, held, false, false, "method")
					w.expr(inner.X, held, false)
				} else {
					w.expr(x.Fun, held, false)
				}
			} else {
				w.expr(x.Fun, held, false)
			}
		} else {
			w.expr(x.Fun, held, false)
		}
		for _, a := range x.Args {
			if atomic {
				if ue, ok := a.(*ast.UnaryExpr); ok && ue.Op == token.AND {
					if se, ok := ue.X.(*ast.SelectorExpr); ok {
						w.record(se, held, true, true, "")
						w.expr(se.X, held, false)
						continue
					}
				}
			}
			// builtin delete(m, k) / close(ch) write their first argument
			if id, ok := x.Fun.(*ast.Ident); ok && (id.Name == "delete" || id.Name == "close") && a == x.Args[0] {
				w.expr(a, held, true)
				continue
			}
			w.expr(a, held, false)
		}
	case *ast.FuncLit:
		saved := w.fn
		w.nclos++
		w.fn = saved + "$" + itoa(w.nclos)
		sc := w.nclos
		w.nclos = 0
		// a closure does not inherit the caller's locks unless it is called in place; the repo never does that
		// except through defer, where the deferred closure runs at function end (locks taken with defer-unlock are still held
		// only if registered before; we are conservative and give it none).
		w.block(x.Body.List, map[string]bool{})
		w.nclos = sc
		w.fn = saved
	case *ast.UnaryExpr:
		if x.Op == token.AND {
			// taking the address of a field counts as a write unless it is a composite literal
			if se, ok := x.X.(*ast.SelectorExpr); ok {
				w.record(se, held, true, false, "addr")
				w.expr(se.X, held, false)
				return
			}
		}
		w.expr(x.X, held, false)
	case *ast.BinaryExpr:
		w.expr(x.X, held, false)
		w.expr(x.Y, held, false)
	case *ast.ParenExpr:
		w.expr(x.X, held, write)
	case *ast.StarExpr:
		w.expr(x.X, held, false)
	case *ast.IndexExpr:
		// m[k] = v writes the map held in the field
		w.expr(x.X, held, write)
		w.expr(x.Index, held, false)
	case *ast.SliceExpr:
		w.expr(x.X, held, false)
		w.expr(x.Low, held, false)
		w.expr(x.High, held, false)
	case *ast.TypeAssertExpr:
		w.expr(x.X, held, false)
	case *ast.CompositeLit:
		for _, el := range x.Elts {
			if kv, ok := el.(*ast.KeyValueExpr); ok {
				w.expr(kv.Value, held, false)
			} else {
				w.expr(el, held, false)
			}
		}
	case *ast.KeyValueExpr:
		w.expr(x.Value, held, false)
	case *ast.Ident, *ast.BasicLit, *ast.ArrayType, *ast.MapType, *ast.ChanType, *ast.FuncType, *ast.InterfaceType, *ast.StructType, *ast.Ellipsis:
	default:
		fail("%s: accesses: unsupported expression %T", w.p.pos(e), e)
	}
}

func itoa(n int) string {
	if n == 0 {
		return "0"
	}
	s := ""
	for n > 0 {
		s = string(rune('0'+n%10)) + s
		n /= 10
	}
	return s
}
