module vx

go 1.23
