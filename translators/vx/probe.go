package main

// probe facts (C17 / C10): what bounds one discovery probe besides the per-message timeout of its client.
//
//	The exchange goroutine of `probe` runs under a context: its constructor and argument decide how long a host that
//	keeps the connection busy (so that no single read times out) can hold a probe — `context.WithTimeout(_, sendTimeout)`
//	in the source the model describes. When the graceful Shutdown at the end of the exchange fails, the client must be
//	closed unconditionally, or Connect (and the probe) never returns: the conditions that guard that `c.Close()` are
//	recorded (none in the source the model describes). The test that lets ipWorker skip a registered device is
//	recorded as source text.

import (
	"go/ast"
	"go/types"
	"strings"
)

type ProbeFacts struct {
	CtxKind         string `json:"ctxKind"`         // WithTimeout | WithCancel | WithDeadline | Background | …
	CtxArg          string `json:"ctxArg"`          // second argument of the constructor (source text)
	ClientTimeout   string `json:"clientTimeout"`   // argument of llrp.WithTimeout(…) given to the probing client
	DialTimeout     string `json:"dialTimeout"`     // third argument of net.DialTimeout
	ForceCloseGuard string `json:"forceCloseGuard"` // conditions between the Shutdown-error branch and c.Close() ("" = none; "-" = no Close there)
	ShutdownErrCond string `json:"shutdownErrCond"` // condition of the branch taken when Shutdown fails
	SkipCond        string `json:"skipCond"`        // condition under which ipWorker skips a registered device
	// who starts a discovery run: the functions that call Driver.discover / autoDiscover, and how Discover bounds its run
	DiscoverCallers     []string `json:"discoverCallers"`
	AutoDiscoverCallers []string `json:"autoDiscoverCallers"`
	DiscoverBound       string   `json:"discoverBound"` // "<ctx constructor>(<duration>) if <condition>" in Driver.Discover
}

func probeFacts(p *Pkg) ProbeFacts {
	out := ProbeFacts{ForceCloseGuard: "-"}
	fd := findFunc(p, "probe")
	var goBody *ast.BlockStmt
	ast.Inspect(fd.Body, func(n ast.Node) bool {
		switch x := n.(type) {
		case *ast.GoStmt:
			if fl, ok := x.Call.Fun.(*ast.FuncLit); ok && goBody == nil {
				goBody = fl.Body
			}
		case *ast.CallExpr:
			switch types.ExprString(x.Fun) {
			case "llrp.WithTimeout":
				if len(x.Args) == 1 {
					out.ClientTimeout = types.ExprString(x.Args[0])
				}
			case "net.DialTimeout":
				if len(x.Args) == 3 {
					out.DialTimeout = types.ExprString(x.Args[2])
				}
			}
		}
		return true
	})
	if goBody == nil {
		fail("probe: exchange goroutine not found")
	}
	ast.Inspect(goBody, func(n ast.Node) bool {
		as, ok := n.(*ast.AssignStmt)
		if !ok || len(as.Rhs) != 1 || len(as.Lhs) < 1 {
			return true
		}
		if id, ok := as.Lhs[0].(*ast.Ident); !ok || id.Name != "ctx" {
			return true
		}
		if c, ok := as.Rhs[0].(*ast.CallExpr); ok && out.CtxKind == "" {
			out.CtxKind = strings.TrimPrefix(types.ExprString(c.Fun), "context.")
			if len(c.Args) >= 2 {
				out.CtxArg = types.ExprString(c.Args[1])
			}
		}
		return true
	})
	if out.CtxKind == "" {
		fail("probe: no `ctx, … := context.…(…)` in the exchange goroutine")
	}
	// the branch taken when Shutdown fails, and what guards c.Close() inside it
	ast.Inspect(goBody, func(n ast.Node) bool {
		is, ok := n.(*ast.IfStmt)
		if !ok || is.Init == nil || !strings.Contains(types.ExprString(is.Init.(*ast.AssignStmt).Rhs[0]), ".Shutdown(") {
			return true
		}
		out.ShutdownErrCond = types.ExprString(is.Cond)
		var walk func(b *ast.BlockStmt, guards []string)
		walk = func(b *ast.BlockStmt, guards []string) {
			for _, st := range b.List {
				switch x := st.(type) {
				case *ast.IfStmt:
					walk(x.Body, append(append([]string{}, guards...), types.ExprString(x.Cond)))
					if eb, ok := x.Else.(*ast.BlockStmt); ok {
						walk(eb, append(append([]string{}, guards...), "!("+types.ExprString(x.Cond)+")"))
					}
				default:
					ast.Inspect(st, func(m ast.Node) bool {
						if c, ok := m.(*ast.CallExpr); ok && strings.HasSuffix(types.ExprString(c.Fun), ".Close") && out.ForceCloseGuard == "-" {
							out.ForceCloseGuard = strings.Join(guards, " && ")
						}
						return true
					})
				}
			}
		}
		walk(is.Body, nil)
		return false
	})
	// ipWorker: `if d, found := params.deviceMap[addr]; found { if <cond> { …; continue } … }`
	w := findFunc(p, "ipWorker")
	ast.Inspect(w.Body, func(n ast.Node) bool {
		is, ok := n.(*ast.IfStmt)
		if !ok || out.SkipCond != "" {
			return true
		}
		for _, st := range is.Body.List {
			if br, ok := st.(*ast.BranchStmt); ok && br.Tok.String() == "continue" {
				out.SkipCond = types.ExprString(is.Cond)
			}
		}
		return true
	})
	if out.SkipCond == "" {
		fail("ipWorker: the branch that skips a registered device (`if <cond> { …; continue }`) was not found")
	}
	// callers of discover / autoDiscover in the package (a discovery run started any other way than through Discover
	// does not get Discover's maximum duration)
	for _, f := range p.files {
		for _, d := range f.Decls {
			fd, ok := d.(*ast.FuncDecl)
			if !ok || fd.Body == nil {
				continue
			}
			name := fd.Name.Name
			if fd.Recv != nil && len(fd.Recv.List) == 1 {
				t := fd.Recv.List[0].Type
				if st, ok := t.(*ast.StarExpr); ok {
					t = st.X
				}
				name = types.ExprString(t) + "." + name
			}
			ast.Inspect(fd.Body, func(n ast.Node) bool {
				c, ok := n.(*ast.CallExpr)
				if !ok {
					return true
				}
				switch fn := c.Fun.(type) {
				case *ast.SelectorExpr:
					if fn.Sel.Name == "discover" {
						out.DiscoverCallers = append(out.DiscoverCallers, name)
					}
				case *ast.Ident:
					if fn.Name == "autoDiscover" {
						out.AutoDiscoverCallers = append(out.AutoDiscoverCallers, name)
					}
				}
				return true
			})
		}
	}
	// Driver.Discover: `if <cond> { ctx, cancel = context.<Kind>(…, <duration>) … }`
	disc := findFunc(p, "Driver.Discover")
	ast.Inspect(disc.Body, func(n ast.Node) bool {
		is, ok := n.(*ast.IfStmt)
		if !ok {
			return true
		}
		for _, st := range is.Body.List {
			if as, ok := st.(*ast.AssignStmt); ok && len(as.Rhs) == 1 {
				if c, ok := as.Rhs[0].(*ast.CallExpr); ok && strings.HasPrefix(types.ExprString(c.Fun), "context.With") && len(c.Args) == 2 {
					out.DiscoverBound = strings.TrimPrefix(types.ExprString(c.Fun), "context.") + "(" + types.ExprString(c.Args[1]) + ") if " + types.ExprString(is.Cond)
				}
			}
		}
		return true
	})
	return out
}
