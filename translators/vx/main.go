// vx: source-to-facts and source-to-Lean translators for /repo (device-rfid-llrp-go).
//
//	vx facts   <repo>   -> JSON facts on stdout (constants, tables, methods, writers, accesses, struct shapes)
//	vx go2lean <repo>   -> Lean definitions of the whitelisted loop-free functions on stdout
//
// Only the standard library is used (go/parser, go/ast, go/types with the "source" importer;
// imports that cannot be resolved offline are tolerated, the local expressions we need still type-check).
// Anything outside the supported subset makes the tool exit non-zero: that is a broken tie, never a skip.
package main

import (
	"encoding/json"
	"fmt"
	"go/ast"
	"go/importer"
	"go/parser"
	"go/token"
	"go/types"
	"os"
	"path/filepath"
	"sort"
	"strings"
)

type Pkg struct {
	dir   string
	name  string
	fset  *token.FileSet
	files []*ast.File
	fname map[*ast.File]string
	info  *types.Info
	pkg   *types.Package
}

func load(dir string) *Pkg {
	fset := token.NewFileSet()
	pkgs, err := parser.ParseDir(fset, dir, func(fi os.FileInfo) bool { return !strings.HasSuffix(fi.Name(), "_test.go") }, parser.ParseComments)
	if err != nil {
		fail("parse %s: %v", dir, err)
	}
	if len(pkgs) != 1 {
		fail("expected one package in %s, got %d", dir, len(pkgs))
	}
	p := &Pkg{dir: dir, fset: fset, fname: map[*ast.File]string{}}
	for name, ap := range pkgs {
		p.name = name
		var names []string
		for fn := range ap.Files {
			names = append(names, fn)
		}
		sort.Strings(names)
		for _, fn := range names {
			f := ap.Files[fn]
			// skip files excluded by a build tag we do not set (e.g. verif hooks ON variant)
			if excludedByTag(f) {
				continue
			}
			p.files = append(p.files, f)
			p.fname[f] = filepath.Base(fn)
		}
	}
	conf := types.Config{Importer: importer.ForCompiler(fset, "source", nil), Error: func(err error) {}}
	p.info = &types.Info{
		Types:      map[ast.Expr]types.TypeAndValue{},
		Defs:       map[*ast.Ident]types.Object{},
		Uses:       map[*ast.Ident]types.Object{},
		Selections: map[*ast.SelectorExpr]*types.Selection{},
	}
	p.pkg, _ = conf.Check(p.name, fset, p.files, p.info)
	return p
}

func excludedByTag(f *ast.File) bool {
	for _, cg := range f.Comments {
		if cg.Pos() > f.Package {
			break
		}
		for _, c := range cg.List {
			t := strings.TrimSpace(c.Text)
			if strings.HasPrefix(t, "//go:build") {
				expr := strings.TrimSpace(strings.TrimPrefix(t, "//go:build"))
				// we analyse the hooks-off build: "verif" is false, "!verif" is true
				if expr == "verif" {
					return true
				}
			}
		}
	}
	return false
}

// vxFailure is what fail() raises: the current translation unit (one fact section, one translated function) cannot be
// produced from this source. Units are independent: unit() turns the failure into an error string for that unit only,
// so that a construct one extractor does not understand does not take the other sections down with it.
type vxFailure struct{ msg string }

func fail(format string, a ...interface{}) {
	panic(vxFailure{fmt.Sprintf(format, a...)})
}

func unit(f func()) (err string) {
	defer func() {
		if r := recover(); r != nil {
			if v, ok := r.(vxFailure); ok {
				err = v.msg
			} else {
				err = fmt.Sprintf("translator panic: %v", r)
			}
			if err == "" {
				err = "failed"
			}
		}
	}()
	f()
	return ""
}

func (p *Pkg) pos(n ast.Node) string {
	ps := p.fset.Position(n.Pos())
	return fmt.Sprintf("%s:%d", filepath.Base(ps.Filename), ps.Line)
}

func (p *Pkg) funcs() []*ast.FuncDecl {
	var out []*ast.FuncDecl
	for _, f := range p.files {
		for _, d := range f.Decls {
			if fd, ok := d.(*ast.FuncDecl); ok {
				out = append(out, fd)
			}
		}
	}
	return out
}

func recvTypeName(fd *ast.FuncDecl) string {
	if fd.Recv == nil || len(fd.Recv.List) == 0 {
		return ""
	}
	t := fd.Recv.List[0].Type
	if s, ok := t.(*ast.StarExpr); ok {
		t = s.X
	}
	if id, ok := t.(*ast.Ident); ok {
		return id.Name
	}
	return "?"
}

func funcName(fd *ast.FuncDecl) string {
	if r := recvTypeName(fd); r != "" {
		return r + "." + fd.Name.Name
	}
	return fd.Name.Name
}

func main() {
	defer func() {
		if r := recover(); r != nil {
			if v, ok := r.(vxFailure); ok {
				fmt.Fprintf(os.Stderr, "vx: %s\n", v.msg)
				os.Exit(2)
			}
			panic(r)
		}
	}()
	if len(os.Args) < 3 {
		fail("usage: vx facts|go2lean <repo>")
	}
	repo := os.Args[2]
	switch os.Args[1] {
	case "facts":
		out := map[string]interface{}{}
		llrp := load(filepath.Join(repo, "pkg/llrp"))
		drv := load(filepath.Join(repo, "internal/driver"))
		rt := load(filepath.Join(repo, "internal/retry"))
		errs := map[string]string{}
		sec := func(key string, f func() interface{}) {
			var v interface{}
			if e := unit(func() { v = f() }); e != "" {
				errs[key] = e
				return
			}
			out[key] = v
		}
		sec("consts", func() interface{} {
			return map[string]interface{}{"llrp": consts(llrp), "driver": consts(drv), "retry": consts(rt)}
		})
		sec("mirrorType", func() interface{} { return mirrorTable(llrp) })
		sec("newInstance", func() interface{} { return newInstance(llrp) })
		sec("typeMethods", func() interface{} { return constMethods(llrp, "Type") })
		sec("statusMethods", func() interface{} { return statusMethods(llrp) })
		sec("writers", func() interface{} { return writers(llrp) })
		sec("retryVars", func() interface{} { return retryVars(rt) })
		sec("structs", func() interface{} { return structs(llrp) })
		sec("marshalMethods", func() interface{} { return marshalMethods(llrp) })
		var auxAll interface{}
		sec("accesses", func() interface{} {
			acc, aux := accessesAux(llrp, []string{"Client"})
			acc2, aux2 := accessesAux(drv, []string{"LLRPDevice", "Driver"})
			acc = append(acc, acc2...)
			aux.Calls = append(aux.Calls, aux2.Calls...)
			aux.ChanCloses = append(aux.ChanCloses, aux2.ChanCloses...)
			aux.PostFork = append(aux.PostFork, aux2.PostFork...)
			auxAll = aux
			return acc
		})
		if auxAll != nil {
			out["raceAux"] = auxAll
		} else {
			errs["raceAux"] = errs["accesses"]
		}
		sec("readCmd", func() interface{} { return cmdSwitches(drv) })
		sec("keepAlive", func() interface{} { return keepAliveFacts(drv) })
		sec("supervisor", func() interface{} { return supervisorFacts(drv) })
		sec("readSide", func() interface{} { return readFacts(llrp) })
		sec("chanCaps", func() interface{} { return chanCaps(llrp) })
		sec("closeSites", func() interface{} { return gateFacts(llrp) })
		sec("initCheckSites", func() interface{} { return initCheckFacts(llrp) })
		sec("probe", func() interface{} { return probeFacts(drv) })
		out["_errors"] = errs
		enc := json.NewEncoder(os.Stdout)
		enc.SetIndent("", " ")
		if err := enc.Encode(out); err != nil {
			fail("%v", err)
		}
	case "go2lean":
		go2lean(repo)
	case "go2seq":
		go2seq(repo)
	default:
		fail("unknown subcommand %s", os.Args[1])
	}
}

// ---------------------------------------------------------------- constants

func consts(p *Pkg) map[string]interface{} {
	out := map[string]interface{}{}
	add := func(scope *types.Scope) {
		for _, n := range scope.Names() {
			if c, ok := scope.Lookup(n).(*types.Const); ok {
				v := c.Val()
				tn := c.Type().String()
				if i := strings.LastIndex(tn, "."); i >= 0 {
					tn = tn[i+1:]
				}
				out[n] = map[string]string{"type": tn, "value": v.ExactString()}
			}
		}
	}
	add(p.pkg.Scope())
	// function-local constants that the models mention (ackQueueSz)
	for _, fd := range p.funcs() {
		if fd.Body == nil {
			continue
		}
		ast.Inspect(fd.Body, func(n ast.Node) bool {
			if gd, ok := n.(*ast.GenDecl); ok && gd.Tok == token.CONST {
				for _, s := range gd.Specs {
					vs := s.(*ast.ValueSpec)
					for _, id := range vs.Names {
						if c, ok := p.info.Defs[id].(*types.Const); ok {
							out[funcName(fd)+"."+id.Name] = map[string]string{"type": c.Type().String(), "value": c.Val().ExactString()}
						}
					}
				}
			}
			return true
		})
	}
	return out
}

func constName(p *Pkg, e ast.Expr) string {
	if id, ok := e.(*ast.Ident); ok {
		if _, ok := p.info.Uses[id].(*types.Const); ok {
			return id.Name
		}
	}
	fail("%s: expected a named constant, got %s", p.pos(e), types.ExprString(e))
	return ""
}

func mirrorTable(p *Pkg) [][2]string {
	var out [][2]string
	found := false
	for _, f := range p.files {
		for _, d := range f.Decls {
			gd, ok := d.(*ast.GenDecl)
			if !ok || gd.Tok != token.VAR {
				continue
			}
			for _, s := range gd.Specs {
				vs := s.(*ast.ValueSpec)
				for i, id := range vs.Names {
					if id.Name != "mirrorType" || i >= len(vs.Values) {
						continue
					}
					cl, ok := vs.Values[i].(*ast.CompositeLit)
					if !ok {
						fail("mirrorType is not a composite literal")
					}
					found = true
					for _, el := range cl.Elts {
						kv := el.(*ast.KeyValueExpr)
						out = append(out, [2]string{constName(p, kv.Key), constName(p, kv.Value)})
					}
				}
			}
		}
	}
	if !found {
		fail("mirrorType not found")
	}
	return out
}

func findFunc(p *Pkg, name string) *ast.FuncDecl {
	for _, fd := range p.funcs() {
		if funcName(fd) == name {
			return fd
		}
	}
	fail("function %s not found in %s", name, p.dir)
	return nil
}

// newInstance: every `case C: u = &T{}` of MessageType.NewInstance
func newInstance(p *Pkg) [][2]string {
	fd := findFunc(p, "MessageType.NewInstance")
	var out [][2]string
	ast.Inspect(fd.Body, func(n ast.Node) bool {
		cc, ok := n.(*ast.CaseClause)
		if !ok {
			return true
		}
		if len(cc.Body) != 1 {
			fail("%s: NewInstance case with %d statements", p.pos(cc), len(cc.Body))
		}
		as, ok := cc.Body[0].(*ast.AssignStmt)
		if !ok || len(as.Rhs) != 1 {
			fail("%s: NewInstance case is not an assignment", p.pos(cc))
		}
		ue, ok := as.Rhs[0].(*ast.UnaryExpr)
		if !ok || ue.Op != token.AND {
			fail("%s: NewInstance case does not assign &T{}", p.pos(cc))
		}
		cl, ok := ue.X.(*ast.CompositeLit)
		if !ok || len(cl.Elts) != 0 {
			fail("%s: NewInstance case does not assign &T{}", p.pos(cc))
		}
		tn := types.ExprString(cl.Type)
		for _, e := range cc.List {
			out = append(out, [2]string{constName(p, e), tn})
		}
		return true
	})
	return out
}

// constMethods: methods named `name` with no parameters whose body is `return <Const>`
func constMethods(p *Pkg, name string) [][2]string {
	var out [][2]string
	for _, fd := range p.funcs() {
		if fd.Name.Name != name || fd.Recv == nil || fd.Body == nil || len(fd.Type.Params.List) != 0 {
			continue
		}
		if len(fd.Body.List) != 1 {
			continue
		}
		rs, ok := fd.Body.List[0].(*ast.ReturnStmt)
		if !ok || len(rs.Results) != 1 {
			continue
		}
		id, ok := rs.Results[0].(*ast.Ident)
		if !ok {
			continue
		}
		if _, ok := p.info.Uses[id].(*types.Const); !ok {
			continue
		}
		out = append(out, [2]string{recvTypeName(fd), id.Name})
	}
	return out
}

func statusMethods(p *Pkg) []string {
	var out []string
	for _, fd := range p.funcs() {
		if fd.Name.Name == "Status" && fd.Recv != nil && len(fd.Type.Params.List) == 0 {
			// body must be `return m.LLRPStatus`
			ok := false
			if fd.Body != nil && len(fd.Body.List) == 1 {
				if rs, isRet := fd.Body.List[0].(*ast.ReturnStmt); isRet && len(rs.Results) == 1 {
					if se, isSel := rs.Results[0].(*ast.SelectorExpr); isSel && se.Sel.Name == "LLRPStatus" {
						ok = true
					}
				}
			}
			if !ok {
				fail("%s: Status() method with an unexpected body", p.pos(fd))
			}
			out = append(out, recvTypeName(fd))
		}
	}
	sort.Strings(out)
	return out
}

func marshalMethods(p *Pkg) map[string][]string {
	out := map[string][]string{}
	for _, fd := range p.funcs() {
		switch fd.Name.Name {
		case "MarshalBinary", "UnmarshalBinary", "MarshalJSON", "UnmarshalJSON", "MarshalText", "UnmarshalText", "EncodeFields":
			out[fd.Name.Name] = append(out[fd.Name.Name], recvTypeName(fd))
		}
	}
	for k := range out {
		sort.Strings(out[k])
	}
	return out
}

// ---------------------------------------------------------------- writers (C05 single_writer)

type Site struct {
	Func string `json:"func"`
	Call string `json:"call"`
	Pos  string `json:"pos"`
}

// writers lists every call that can put bytes on the connection: x.conn.Write(..), io.Copy(x.conn, ..),
// io.CopyN(x.conn, ..), and every call of a function that itself contains such a call (one level: callers).
func writers(p *Pkg) map[string][]Site {
	isConn := func(e ast.Expr) bool {
		se, ok := e.(*ast.SelectorExpr)
		return ok && se.Sel.Name == "conn"
	}
	var direct []Site
	dset := map[string]bool{}
	for _, fd := range p.funcs() {
		if fd.Body == nil || strings.HasPrefix(p.fname[fileOf(p, fd)], "test_") {
			continue
		}
		ast.Inspect(fd.Body, func(n ast.Node) bool {
			ce, ok := n.(*ast.CallExpr)
			if !ok {
				return true
			}
			if se, ok := ce.Fun.(*ast.SelectorExpr); ok {
				if se.Sel.Name == "Write" && isConn(se.X) {
					direct = append(direct, Site{funcName(fd), "conn.Write", p.pos(ce)})
					dset[fd.Name.Name] = true
				}
				if x, ok := se.X.(*ast.Ident); ok && x.Name == "io" && (se.Sel.Name == "Copy" || se.Sel.Name == "CopyN" || se.Sel.Name == "CopyBuffer" || se.Sel.Name == "WriteString") && len(ce.Args) > 0 && isConn(ce.Args[0]) {
					direct = append(direct, Site{funcName(fd), "io." + se.Sel.Name + "(conn)", p.pos(ce)})
					dset[fd.Name.Name] = true
				}
				// conn handed to something else that may write: fmt.Fprint*(c.conn, ..), x.WriteTo(c.conn)
				if (strings.HasPrefix(se.Sel.Name, "Fprint") || se.Sel.Name == "WriteTo") && len(ce.Args) > 0 && isConn(ce.Args[0]) {
					direct = append(direct, Site{funcName(fd), se.Sel.Name + "(conn)", p.pos(ce)})
					dset[fd.Name.Name] = true
				}
			}
			return true
		})
	}
	var callers []Site
	for _, fd := range p.funcs() {
		if fd.Body == nil || strings.HasPrefix(p.fname[fileOf(p, fd)], "test_") {
			continue
		}
		ast.Inspect(fd.Body, func(n ast.Node) bool {
			ce, ok := n.(*ast.CallExpr)
			if !ok {
				return true
			}
			if se, ok := ce.Fun.(*ast.SelectorExpr); ok && dset[se.Sel.Name] {
				if _, isMethod := p.info.Selections[se]; isMethod {
					callers = append(callers, Site{funcName(fd), se.Sel.Name, p.pos(ce)})
				}
			}
			return true
		})
	}
	return map[string][]Site{"direct": direct, "callers": callers}
}

func fileOf(p *Pkg, n ast.Node) *ast.File {
	for _, f := range p.files {
		if f.Pos() <= n.Pos() && n.Pos() <= f.End() {
			return f
		}
	}
	return nil
}

// ---------------------------------------------------------------- retry.Quick / retry.Slow

func retryVars(p *Pkg) map[string]map[string]string {
	out := map[string]map[string]string{}
	for _, f := range p.files {
		for _, d := range f.Decls {
			gd, ok := d.(*ast.GenDecl)
			if !ok || gd.Tok != token.VAR {
				continue
			}
			for _, s := range gd.Specs {
				vs := s.(*ast.ValueSpec)
				for i, id := range vs.Names {
					if (id.Name != "Quick" && id.Name != "Slow") || i >= len(vs.Values) {
						continue
					}
					cl, ok := vs.Values[i].(*ast.CompositeLit)
					if !ok {
						fail("retry.%s is not a composite literal", id.Name)
					}
					m := map[string]string{}
					for _, el := range cl.Elts {
						kv := el.(*ast.KeyValueExpr)
						tv := p.info.Types[kv.Value]
						if tv.Value == nil {
							fail("%s: retry.%s.%s is not constant", p.pos(kv), id.Name, types.ExprString(kv.Key))
						}
						m[types.ExprString(kv.Key)] = tv.Value.ExactString()
					}
					out[id.Name] = m
				}
			}
		}
	}
	return out
}

// ---------------------------------------------------------------- struct shapes (C01 json_safe)

type FieldShape struct {
	Name     string `json:"name"`
	Type     string `json:"type"`
	Kind     string `json:"kind"` // classification of the underlying type, see kindOf
	Exported bool   `json:"exported"`
	Embedded bool   `json:"embedded"`
	Tag      string `json:"tag"`
}
type StructShape struct {
	Name   string       `json:"name"`
	File   string       `json:"file"`
	Kind   string       `json:"kind"` // "struct" or the basic kind of a named scalar
	Fields []FieldShape `json:"fields"`
}

func kindOf(t types.Type) string {
	switch u := t.Underlying().(type) {
	case *types.Basic:
		return u.Name()
	case *types.Pointer:
		return "ptr(" + kindOf(u.Elem()) + ")"
	case *types.Slice:
		return "slice(" + kindOf(u.Elem()) + ")"
	case *types.Array:
		return "array(" + kindOf(u.Elem()) + ")"
	case *types.Struct:
		return "struct"
	case *types.Map:
		return "map"
	case *types.Interface:
		return "interface"
	case *types.Chan:
		return "chan"
	case *types.Signature:
		return "func"
	}
	return "other"
}

func structs(p *Pkg) []StructShape {
	var out []StructShape
	for _, f := range p.files {
		if p.fname[f] != "generated_structs.go" {
			continue
		}
		for _, d := range f.Decls {
			gd, ok := d.(*ast.GenDecl)
			if !ok || gd.Tok != token.TYPE {
				continue
			}
			for _, s := range gd.Specs {
				ts := s.(*ast.TypeSpec)
				obj := p.info.Defs[ts.Name]
				if obj == nil {
					continue
				}
				sh := StructShape{Name: ts.Name.Name, File: p.fname[f]}
				if st, ok := obj.Type().Underlying().(*types.Struct); ok {
					sh.Kind = "struct"
					for i := 0; i < st.NumFields(); i++ {
						fl := st.Field(i)
						tn := types.TypeString(fl.Type(), func(*types.Package) string { return "" })
						sh.Fields = append(sh.Fields, FieldShape{fl.Name(), tn, kindOf(fl.Type()), fl.Exported(), fl.Embedded(), st.Tag(i)})
					}
				} else {
					sh.Kind = kindOf(obj.Type())
				}
				out = append(out, sh)
			}
		}
	}
	return out
}

// ---------------------------------------------------------------- command switches of the driver (C14)

// litType: the struct type named by `&llrp.T{…}` (-> `T`); for `&v` the type of the composite literal that the same case
// body assigns to v with `v := llrp.T{…}`. Anything else is reported verbatim with a leading `?`.
func litType(e ast.Expr, body []ast.Stmt) string {
	if u, ok := e.(*ast.UnaryExpr); ok && u.Op == token.AND {
		switch x := u.X.(type) {
		case *ast.CompositeLit:
			return strings.TrimPrefix(types.ExprString(x.Type), "llrp.")
		case *ast.Ident:
			for _, st := range body {
				if as, ok := st.(*ast.AssignStmt); ok && as.Tok == token.DEFINE && len(as.Lhs) == 1 && len(as.Rhs) == 1 {
					if id, ok := as.Lhs[0].(*ast.Ident); ok && id.Name == x.Name {
						if cl, ok := as.Rhs[0].(*ast.CompositeLit); ok {
							return strings.TrimPrefix(types.ExprString(cl.Type), "llrp.")
						}
					}
				}
			}
		}
	}
	return "?" + types.ExprString(e)
}

// keyedFields: `&llrp.EnableROSpec{ROSpecID: roID}` -> `ROSpecID=roID`; several fields joined with `,`
func keyedFields(e ast.Expr) string {
	if u, ok := e.(*ast.UnaryExpr); ok {
		e = u.X
	}
	cl, ok := e.(*ast.CompositeLit)
	if !ok {
		return ""
	}
	var out []string
	for _, el := range cl.Elts {
		if kv, ok := el.(*ast.KeyValueExpr); ok {
			out = append(out, types.ExprString(kv.Key)+"="+types.ExprString(kv.Value))
		}
	}
	return strings.Join(out, ",")
}

// keepAliveFacts (C14): the argument of llrp.WithTimeout in NewLLRPDevice (text and constant value, ns), the definition of
// `ka` in TrySend, and the KeepAliveSpec literal of onConnect.
func keepAliveFacts(p *Pkg) map[string]string {
	out := map[string]string{}
	ast.Inspect(findFunc(p, "Driver.NewLLRPDevice").Body, func(n ast.Node) bool {
		if c, ok := n.(*ast.CallExpr); ok && types.ExprString(c.Fun) == "llrp.WithTimeout" && len(c.Args) == 1 {
			if _, dup := out["clientTimeoutExpr"]; dup {
				fail("%s: more than one llrp.WithTimeout in NewLLRPDevice", p.pos(c))
			}
			out["clientTimeoutExpr"] = types.ExprString(c.Args[0])
			if v := p.info.Types[c.Args[0]].Value; v != nil {
				out["clientTimeoutNs"] = v.ExactString()
			}
		}
		return true
	})
	if out["clientTimeoutNs"] == "" {
		fail("NewLLRPDevice: no llrp.WithTimeout(<constant>) option found")
	}
	ast.Inspect(findFunc(p, "LLRPDevice.TrySend").Body, func(n ast.Node) bool {
		if as, ok := n.(*ast.AssignStmt); ok && len(as.Lhs) == 1 && len(as.Rhs) == 1 && types.ExprString(as.Lhs[0]) == "ka" {
			out["trySendKA"] = types.ExprString(as.Rhs[0])
		}
		return true
	})
	ast.Inspect(findFunc(p, "LLRPDevice.onConnect").Body, func(n ast.Node) bool {
		if cl, ok := n.(*ast.CompositeLit); ok && types.ExprString(cl.Type) == "llrp.KeepAliveSpec" {
			out["onConnectKA"] = keyedFields(cl)
		}
		return true
	})
	return out
}

// cmdSwitches extracts, from handleReadCommands and handleWriteCommands, the case labels (as constant values)
// and the request/response struct types assigned in each case.
func cmdSwitches(p *Pkg) map[string][]map[string]string {
	out := map[string][]map[string]string{}
	for _, fn := range []string{"Driver.handleReadCommands", "Driver.handleWriteCommands"} {
		fd := findFunc(p, fn)
		var rows []map[string]string
		var walk func(n ast.Node, outer string)
		walk = func(n ast.Node, outer string) {
			ast.Inspect(n, func(m ast.Node) bool {
				sw, ok := m.(*ast.SwitchStmt)
				if !ok {
					return true
				}
				tag := types.ExprString(sw.Tag)
				for _, c := range sw.Body.List {
					cc := c.(*ast.CaseClause)
					labels := []string{}
					for _, e := range cc.List {
						tv := p.info.Types[e]
						if tv.Value != nil {
							labels = append(labels, tv.Value.ExactString())
						} else {
							labels = append(labels, types.ExprString(e))
						}
					}
					if cc.List == nil {
						labels = []string{"<default>"}
					}
					req, resp := "", ""
					reqType, respType, idField, dataTarget, usesJSON := "", "", "", "", ""
					for _, st := range cc.Body {
						if as, ok := st.(*ast.AssignStmt); ok && len(as.Lhs) == 1 && len(as.Rhs) == 1 {
							l := types.ExprString(as.Lhs[0])
							r := types.ExprString(as.Rhs[0])
							if l == "llrpReq" {
								req = r
								reqType = litType(as.Rhs[0], cc.Body)
								idField = keyedFields(as.Rhs[0])
							}
							if l == "llrpResp" {
								resp = r
								respType = litType(as.Rhs[0], cc.Body)
							}
							if l == "dataTarget" {
								dataTarget = r
							}
							if l == "reqData" {
								usesJSON = r
							}
						}
						if as, ok := st.(*ast.AssignStmt); ok && len(as.Lhs) == 2 && len(as.Rhs) == 1 && types.ExprString(as.Lhs[0]) == "reqData" {
							usesJSON = types.ExprString(as.Rhs[0])
						}
					}
					rows = append(rows, map[string]string{"switch": tag, "outer": outer, "labels": strings.Join(labels, "|"), "req": req, "resp": resp,
						"reqType": reqType, "respType": respType, "fields": idField, "dataTarget": dataTarget, "reqData": usesJSON})
					for _, st := range cc.Body {
						walk(st, outer+"/"+strings.Join(labels, "|"))
					}
				}
				return false
			})
		}
		walk(fd.Body, "")
		out[fn] = rows
	}
	return out
}

// ---------------------------------------------------------------- channel capacities

// ChanMake is one `make(chan T[, cap])` of package llrp: the function it occurs in, the variable or struct field it
// initialises, the element type, the capacity expression as written and its constant value (0 = unbuffered).
type ChanMake struct {
	Func    string `json:"func"`
	Name    string `json:"name"`
	Elem    string `json:"elem"`
	CapExpr string `json:"capExpr"`
	Cap     string `json:"cap"`
	Pos     string `json:"pos"`
}

// chanCaps lists every channel creation of the package. The client model (C03/C08/C09) assumes particular capacities
// (reply channel 1, token channel 1, errs 2, sendQueue 0, ackQueue ackQueueSz); a capacity that is not a constant, or
// a channel created in a way this function does not recognise, is a broken tie.
func chanCaps(p *Pkg) []ChanMake {
	var out []ChanMake
	for _, fd := range p.funcs() {
		if fd.Body == nil {
			continue
		}
		fn := funcName(fd)
		record := func(name string, call *ast.CallExpr) {
			ct, ok := call.Args[0].(*ast.ChanType)
			if !ok {
				fail("%s: make of a named channel type is not supported: %s", p.pos(call), types.ExprString(call))
			}
			m := ChanMake{Func: fn, Name: name, Elem: types.ExprString(ct.Value), CapExpr: "", Cap: "0", Pos: p.pos(call)}
			if len(call.Args) > 1 {
				m.CapExpr = types.ExprString(call.Args[1])
				tv, ok := p.info.Types[call.Args[1]]
				if !ok || tv.Value == nil {
					fail("%s: channel capacity %s is not a constant", p.pos(call), m.CapExpr)
				}
				m.Cap = tv.Value.ExactString()
			}
			out = append(out, m)
		}
		isMakeChan := func(e ast.Expr) *ast.CallExpr {
			call, ok := e.(*ast.CallExpr)
			if !ok || len(call.Args) == 0 {
				return nil
			}
			if id, ok := call.Fun.(*ast.Ident); !ok || id.Name != "make" {
				return nil
			}
			if tv, ok := p.info.Types[call.Args[0]]; ok {
				if _, isChan := tv.Type.Underlying().(*types.Chan); isChan {
					return call
				}
				return nil
			}
			if _, ok := call.Args[0].(*ast.ChanType); ok {
				return call
			}
			return nil
		}
		seen := map[*ast.CallExpr]bool{}
		ast.Inspect(fd.Body, func(n ast.Node) bool {
			switch x := n.(type) {
			case *ast.AssignStmt:
				for i, r := range x.Rhs {
					if call := isMakeChan(r); call != nil && i < len(x.Lhs) {
						seen[call] = true
						record(types.ExprString(x.Lhs[i]), call)
					}
				}
			case *ast.ValueSpec:
				for i, r := range x.Values {
					if call := isMakeChan(r); call != nil && i < len(x.Names) {
						seen[call] = true
						record(x.Names[i].Name, call)
					}
				}
			case *ast.KeyValueExpr:
				if call := isMakeChan(x.Value); call != nil {
					seen[call] = true
					record(types.ExprString(x.Key), call)
				}
			case *ast.CallExpr:
				if call := isMakeChan(x); call != nil && !seen[call] {
					// a channel created in an expression position we do not name (argument, return value, …)
					seen[call] = true
					record("_", call)
				}
			}
			return true
		})
	}
	sort.SliceStable(out, func(i, j int) bool { return out[i].Pos < out[j].Pos })
	return out
}
