package main

// read-side facts (C10): blocking behaviour of the built-in KeepAlive handler and the panic guard around handlers.
//
//	ackHandler.HandleMessage runs on the read goroutine. The read-loop model treats handler calls as steps that
//	return; for the one handler the library itself installs that rests on it never blocking: every channel send it
//	makes must be the communication of a `select` that has a `default` clause, and it must contain no other
//	potentially blocking construct (a receive, a select without default, a range over a channel, a call other
//	than panic).
//	handleGuarded must defer a function that calls recover().

import (
	"go/ast"
	"go/token"
	"go/types"
)

type ReadFacts struct {
	AckSends         int      `json:"ackSends"`         // channel sends in ackHandler.HandleMessage
	AckGuardedSends  int      `json:"ackGuardedSends"`  // … that are the comm of a select with a default clause
	AckOtherBlocking []string `json:"ackOtherBlocking"` // receives / selects without default / range / go / defer, with positions
	AckCalls         []string `json:"ackCalls"`         // functions called (other than panic)
	GuardRecovers    bool     `json:"guardRecovers"`    // handleGuarded defers a func literal that calls recover()
	GuardCallsDirect bool     `json:"guardCallsDirect"` // handleGuarded calls handler.HandleMessage after installing the defer
}

func readFacts(p *Pkg) ReadFacts {
	out := ReadFacts{AckOtherBlocking: []string{}, AckCalls: []string{}}
	fd := findFunc(p, "ackHandler.HandleMessage")
	guarded := map[ast.Stmt]bool{} // comm statements of selects that have a default clause
	ast.Inspect(fd.Body, func(n ast.Node) bool {
		sel, ok := n.(*ast.SelectStmt)
		if !ok {
			return true
		}
		hasDefault := false
		for _, c := range sel.Body.List {
			if cc := c.(*ast.CommClause); cc.Comm == nil {
				hasDefault = true
			}
		}
		if !hasDefault {
			out.AckOtherBlocking = append(out.AckOtherBlocking, "select without default at "+p.pos(sel))
			return true
		}
		for _, c := range sel.Body.List {
			if cc := c.(*ast.CommClause); cc.Comm != nil {
				guarded[cc.Comm] = true
			}
		}
		return true
	})
	var walk func(n ast.Node, inGuardedComm bool)
	walk = func(n ast.Node, inGuardedComm bool) {
		ast.Inspect(n, func(m ast.Node) bool {
			if m == nil || m == n {
				return true
			}
			switch x := m.(type) {
			case *ast.SendStmt:
				out.AckSends++
				if guarded[x] {
					out.AckGuardedSends++
				}
			case *ast.UnaryExpr:
				if x.Op == token.ARROW {
					ok := false
					for st := range guarded { // a receive that is (part of) a guarded comm statement
						if st.Pos() <= x.Pos() && x.End() <= st.End() {
							ok = true
						}
					}
					if !ok {
						out.AckOtherBlocking = append(out.AckOtherBlocking, "receive at "+p.pos(x))
					}
				}
			case *ast.RangeStmt:
				if t := p.info.TypeOf(x.X); t != nil {
					if _, isChan := t.Underlying().(*types.Chan); isChan {
						out.AckOtherBlocking = append(out.AckOtherBlocking, "range over channel at "+p.pos(x))
					}
				}
			case *ast.GoStmt:
				out.AckOtherBlocking = append(out.AckOtherBlocking, "go statement at "+p.pos(x))
			case *ast.CallExpr:
				name := types.ExprString(x.Fun)
				if name != "panic" {
					out.AckCalls = append(out.AckCalls, name)
				}
			}
			return true
		})
	}
	walk(fd.Body, false)

	g := findFunc(p, "Client.handleGuarded")
	deferSeen := false
	for _, st := range g.Body.List {
		switch x := st.(type) {
		case *ast.DeferStmt:
			if fl, ok := x.Call.Fun.(*ast.FuncLit); ok {
				ast.Inspect(fl.Body, func(m ast.Node) bool {
					if c, ok := m.(*ast.CallExpr); ok && types.ExprString(c.Fun) == "recover" {
						out.GuardRecovers = true
						deferSeen = true
					}
					return true
				})
			}
		case *ast.ExprStmt:
			if c, ok := x.X.(*ast.CallExpr); ok && types.ExprString(c.Fun) == "handler.HandleMessage" && deferSeen {
				out.GuardCallsDirect = true
			}
		}
	}
	return out
}
