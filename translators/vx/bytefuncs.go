package main

import (
	"fmt"
	"go/ast"
	"go/token"
	"go/types"
	"strings"
)

// Byte-buffer functions: the three hand-written copies of the LLRP header codec
// (Header.UnmarshalBinary, Header.MarshalBinary, Client.writeHeader). Supported on top of go2lean's expressions:
//   * a []byte parameter (Lean: List Int, bytes 0..255), len(buf), buf[c], binary.BigEndian.UintN(buf[a:b])
//   * a struct receiver/parameter whose fields are integers: one Lean variable per field (h_payloadLen …);
//     `*h = T{f: e, …}`, `h.f = e`, `h.f op= e`
//   * `x := make([]byte, C)` and `binary.BigEndian.PutUintN(x[a:b], e)` as functional updates of a List Int
//   * `if err := f(args); err != nil { return …err }` for a whitelisted f translated to Bool
//   * results: `error` with a pointer receiver  → Option (tuple of the receiver's fields) (none = error)
//              `([]byte, error)`               → Option (List Int)
//              `error` with a conn.Write(x)    → List Int (the bytes handed to the connection)
// Anything else: exit 2.

type byteFunc struct {
	pkg, name, lean string
}

var byteFuncs = []byteFunc{
	{"pkg/llrp", "Header.UnmarshalBinary", "llrp_Header_UnmarshalBinary"},
	{"pkg/llrp", "Header.MarshalBinary", "llrp_Header_MarshalBinary"},
	{"pkg/llrp", "Header.WriteTo", "llrp_Header_WriteTo"},
	{"pkg/llrp", "Client.writeHeader", "llrp_Client_writeHeader"},
}

type bfCtx struct {
	g        *g2l
	fields   []string // lean names of the struct's fields, in declaration order
	structV  string   // Go name of the struct variable (receiver or parameter)
	mode     string   // "fields" | "bytes" | "written"
	leanOf   map[string]string
	fieldTys map[string]ity
}

func (c *bfCtx) structFields(t types.Type, v string, n ast.Node) []string {
	if p, ok := t.(*types.Pointer); ok {
		t = p.Elem()
	}
	st, ok := t.Underlying().(*types.Struct)
	if !ok {
		return nil
	}
	var out []string
	for i := 0; i < st.NumFields(); i++ {
		f := st.Field(i)
		if _, ok := f.Type().Underlying().(*types.Basic); !ok {
			return nil
		}
		c.fieldTys[f.Name()] = c.g.typeOf(f.Type(), n)
		out = append(out, v+"_"+f.Name())
	}
	return out
}

func (c *bfCtx) function(fd *ast.FuncDecl, lean string) {
	g := c.g
	var params []string
	// which variable is the header struct: the receiver (Header methods) or a parameter (writeHeader)
	if fd.Recv != nil && len(fd.Recv.List) == 1 && len(fd.Recv.List[0].Names) == 1 {
		r := fd.Recv.List[0]
		if fs := c.structFields(g.p.info.Types[r.Type].Type, r.Names[0].Name, fd); fs != nil && recvTypeName(fd) == "Header" {
			c.structV, c.fields = r.Names[0].Name, fs
		}
	}
	bufParam := ""
	for _, f := range fd.Type.Params.List {
		t := g.p.info.Types[f.Type].Type
		for _, n := range f.Names {
			if sl, ok := t.Underlying().(*types.Slice); ok {
				if b, ok := sl.Elem().Underlying().(*types.Basic); ok && b.Kind() == types.Uint8 {
					bufParam = n.Name
					params = append(params, fmt.Sprintf("(%s : List Int)", n.Name))
					continue
				}
			}
			if fs := c.structFields(t, n.Name, f); fs != nil {
				c.structV, c.fields = n.Name, fs
				continue
			}
			if _, ok := t.Underlying().(*types.Interface); ok {
				continue // io.Writer of WriteTo: the bytes written are the result
			}
			g.bad(f, "unsupported parameter %s", n.Name)
		}
	}
	if c.fields == nil {
		g.bad(fd, "no header struct found")
	}
	// result mode
	res := fd.Type.Results.List
	switch {
	case bufParam != "" && len(res) == 1:
		c.mode = "fields" // decodes into the receiver
	case len(res) == 2 && types.ExprString(res[0].Type) == "[]byte":
		c.mode = "bytes"
	default:
		c.mode = "written"
	}
	if c.mode != "fields" {
		for _, f := range c.fields {
			params = append(params, fmt.Sprintf("(%s : Int)", f))
		}
	}
	var rt string
	switch c.mode {
	case "fields":
		rt = "Option (" + strings.Repeat("Int × ", len(c.fields)-1) + "Int)"
	case "bytes", "written":
		rt = "Option (List Int)"
	}
	pre := ""
	if c.mode == "fields" {
		// the receiver's previous contents are irrelevant: the function overwrites every field before reading it
		for _, f := range c.fields {
			pre += fmt.Sprintf("let %s : Int := 0\n  ", f)
		}
	}
	body := c.stmts(fd.Body.List)
	fmt.Fprintf(g.sb, "/-- %s (%s) -/\ndef %s %s : %s :=\n  %s%s\n\n", g.fn, g.p.pos(fd), lean, strings.Join(params, " "), rt, pre, body)
}

func (c *bfCtx) fieldTuple() string { return "(" + strings.Join(c.fields, ", ") + ")" }

func (c *bfCtx) isNil(e ast.Expr) bool {
	id, ok := e.(*ast.Ident)
	return ok && id.Name == "nil"
}

func (c *bfCtx) ret(st *ast.ReturnStmt) string {
	switch c.mode {
	case "fields":
		if len(st.Results) == 1 && c.isNil(st.Results[0]) {
			return "some " + c.fieldTuple()
		}
		return "none"
	case "bytes":
		if len(st.Results) == 2 && c.isNil(st.Results[1]) {
			if id, ok := st.Results[0].(*ast.Ident); ok {
				return "some " + id.Name
			}
		}
		return "none"
	}
	// "written": a return before anything was handed to the writer is an error
	return "none"
}

// writeCall recognises `w.Write(x)` / `c.conn.Write(x)` and returns x
func writeCall(e ast.Expr) (string, bool) {
	ce, ok := e.(*ast.CallExpr)
	if !ok || len(ce.Args) != 1 {
		return "", false
	}
	se, ok := ce.Fun.(*ast.SelectorExpr)
	if !ok || se.Sel.Name != "Write" {
		return "", false
	}
	id, ok := ce.Args[0].(*ast.Ident)
	if !ok {
		return "", false
	}
	return id.Name, true
}

func (c *bfCtx) stmts(list []ast.Stmt) string {
	g := c.g
	if len(list) == 0 {
		return "none"
	}
	s, rest := list[0], list[1:]
	switch st := s.(type) {
	case *ast.ReturnStmt:
		return c.ret(st)
	case *ast.IfStmt:
		// `if err := f(args); err != nil { return … }`
		if st.Init != nil {
			as, ok := st.Init.(*ast.AssignStmt)
			if !ok || len(as.Rhs) != 1 {
				g.bad(st, "unsupported if-init")
			}
			if x, ok := writeCall(as.Rhs[0]); ok {
				// n, err := w.Write(header): the bytes are out; the error branch is the writer's, not the codec's —
				// provided nothing else happens afterwards (no second write, no retry, no other effect)
				c.tailPure(append(append([]ast.Stmt{}, st.Body.List...), rest...), st)
				if st.Else != nil {
					c.tailPure([]ast.Stmt{st.Else}, st)
				}
				return "some " + x
			}
			ce, ok := as.Rhs[0].(*ast.CallExpr)
			if !ok {
				g.bad(st, "unsupported if-init")
			}
			fn, ok := ce.Fun.(*ast.Ident)
			if !ok {
				g.bad(st, "unsupported if-init call")
			}
			lean := ""
			for _, w := range whitelist {
				if w.name == fn.Name {
					lean = w.lean
				}
			}
			if lean == "" {
				g.bad(st, "if-init calls %s, which is not translated", fn.Name)
			}
			var args []string
			for _, a := range ce.Args {
				args = append(args, c.expr(a))
			}
			return fmt.Sprintf("if !(%s %s) then\n    %s\n  else\n    %s", lean, strings.Join(args, " "), indent(c.stmts(st.Body.List)), indent(c.stmts(rest)))
		}
		if st.Else != nil {
			g.bad(st, "else branch")
		}
		return fmt.Sprintf("if %s then\n    %s\n  else\n    %s", c.expr(st.Cond), indent(c.stmts(append(append([]ast.Stmt{}, st.Body.List...), restIfFallsThrough(st.Body.List, rest)...))), indent(c.stmts(rest)))
	case *ast.AssignStmt:
		if len(st.Lhs) != 1 || len(st.Rhs) != 1 {
			// n, err := w.Write(header)
			if len(st.Rhs) == 1 {
				if x, ok := writeCall(st.Rhs[0]); ok {
					c.tailPure(rest, st)
					return "some " + x
				}
			}
			g.bad(st, "unsupported multi-assignment")
		}
		// _ = buf[9]
		if id, ok := st.Lhs[0].(*ast.Ident); ok && id.Name == "_" {
			return c.stmts(rest)
		}
		// *h = Header{…}
		if star, ok := st.Lhs[0].(*ast.StarExpr); ok {
			if id, ok := star.X.(*ast.Ident); ok && id.Name == c.structV {
				cl, ok := st.Rhs[0].(*ast.CompositeLit)
				if !ok {
					g.bad(st, "*%s = non-literal", id.Name)
				}
				vals := map[string]string{}
				for _, el := range cl.Elts {
					kv := el.(*ast.KeyValueExpr)
					vals[types.ExprString(kv.Key)] = c.expr(kv.Value)
				}
				out := ""
				for _, f := range c.fields {
					name := strings.TrimPrefix(f, c.structV+"_")
					v, ok := vals[name]
					if !ok {
						v = "0"
					}
					out += fmt.Sprintf("let %s' : Int := %s\n  ", f, v)
				}
				for _, f := range c.fields {
					out += fmt.Sprintf("let %s : Int := %s'\n  ", f, f)
				}
				return out + c.stmts(rest)
			}
		}
		// h.f = e / h.f -= e
		if se, ok := st.Lhs[0].(*ast.SelectorExpr); ok {
			if id, ok := se.X.(*ast.Ident); ok && id.Name == c.structV {
				f := c.structV + "_" + se.Sel.Name
				t := c.fieldTys[se.Sel.Name]
				var v string
				switch st.Tok {
				case token.ASSIGN:
					v = c.expr(st.Rhs[0])
				case token.SUB_ASSIGN:
					v = g.binop(token.SUB, f, c.expr(st.Rhs[0]), t, st)
				case token.ADD_ASSIGN:
					v = g.binop(token.ADD, f, c.expr(st.Rhs[0]), t, st)
				default:
					g.bad(st, "unsupported field assignment")
				}
				return fmt.Sprintf("let %s : Int := %s\n  %s", f, v, c.stmts(rest))
			}
		}
		// header := make([]byte, C)
		if id, ok := st.Lhs[0].(*ast.Ident); ok && st.Tok == token.DEFINE {
			if ce, ok := st.Rhs[0].(*ast.CallExpr); ok {
				if fn, ok := ce.Fun.(*ast.Ident); ok && fn.Name == "make" && len(ce.Args) == 2 {
					n := g.p.info.Types[ce.Args[1]]
					if n.Value == nil {
						g.bad(st, "make with a non-constant length")
					}
					return fmt.Sprintf("let %s : List Int := List.replicate %s 0\n  %s", id.Name, n.Value.ExactString(), c.stmts(rest))
				}
			}
		}
		g.bad(st, "unsupported assignment")
	case *ast.ExprStmt:
		// binary.BigEndian.PutUint16/32(x[a:b], e)
		if ce, ok := st.X.(*ast.CallExpr); ok && len(ce.Args) == 2 {
			if base, off, ok := g.beArg(ce); ok {
				se := ce.Fun.(*ast.SelectorExpr)
				switch se.Sel.Name {
				case "PutUint16":
					return fmt.Sprintf("let %s : List Int := putBE16 %s %d %s\n  %s", base, base, off, c.expr(ce.Args[1]), c.stmts(rest))
				case "PutUint32":
					return fmt.Sprintf("let %s : List Int := putBE32 %s %d %s\n  %s", base, base, off, c.expr(ce.Args[1]), c.stmts(rest))
				}
			}
		}
		g.bad(st, "unsupported expression statement")
	}
	g.bad(s, "unsupported statement %T", s)
	return ""
}

func (c *bfCtx) expr(e ast.Expr) string { return c.g.expr(e) }

// tailPure: what follows the single write may only build the result (conversions, error construction, returns):
// any other call, loop, goroutine or second write means the bytes handed to the connection are no longer just `x`
func (c *bfCtx) tailPure(list []ast.Stmt, at ast.Node) {
	for _, s := range list {
		ast.Inspect(s, func(n ast.Node) bool {
			switch x := n.(type) {
			case *ast.ForStmt, *ast.RangeStmt, *ast.GoStmt, *ast.DeferStmt, *ast.SelectStmt, *ast.SendStmt:
				c.g.bad(x, "statement after the write to the connection")
			case *ast.CallExpr:
				if tv, ok := c.g.p.info.Types[x.Fun]; ok && tv.IsType() {
					return true
				}
				switch types.ExprString(x.Fun) {
				case "fmt.Errorf", "errors.New", "errors.Wrap", "errors.Wrapf", "msgErr":
					return true
				}
				c.g.bad(x, "call %s after the write to the connection", types.ExprString(x.Fun))
			}
			return true
		})
	}
}
