package main

import (
	"fmt"
	"os"
	"go/ast"
	"go/constant"
	"go/token"
	"go/types"
	"path/filepath"
	"sort"
	"strings"
)

// go2seq translates loop-free *sequential* functions — decision logic interleaved with calls to other code — into
// Lean 4 definitions in state-passing style over an environment structure that the translator declares itself:
//
//	structure Env_<f> where                     one field per opaque Go type the function touches (Message, Context …),
//	  World : Type                              one field per operation on them (field get/set, zero value, nil, deref,
//	  …                                         conversions, comma-ok assertions) and one per *call site* (numbered per callee
//	def <f> (E : Env_<f>) (w : E.World) …       in source order), which takes and returns the World.
//
// Integers/bools/strings/[]byte/error are concrete (Int, Bool, String, List Int, GoErr); everything else is opaque and
// only manipulated through Env operations, so the translator needs no knowledge of other packages: the hand-written
// glue (Proofs/SeqGlue*.lean) instantiates each Env with the model's types and proves the model equal to the translated
// source. A change of the source changes the definition (and possibly the Env's shape) the glue theorems are about.
//
// Supported statements: :=, =, op=, var, expression statements, if/else (with init), switch on an integer tag or
// tagless, return, defer, blocks. An `if` whose branches neither return nor defer becomes a join point
// (`let (w, x, …) := if c then … else …`); otherwise the continuation is duplicated into both branches.
// Pointer receivers of non-"world" types are treated as values and returned (first result after the World) when the
// function assigns through them. Anything else: the unit fails (see go2lean).

type seqFunc struct{ pkg, name, lean string }

var seqFuncs = []seqFunc{
	{"pkg/llrp", "LLRPStatus.Err", "llrp_LLRPStatus_Err"},
	{"pkg/llrp", "Message.isResponseTo", "llrp_Message_isResponseTo"},
	{"pkg/llrp", "Message.data", "llrp_Message_data"},
	{"pkg/llrp", "Message.UnmarshalTo", "llrp_Message_UnmarshalTo"},
	{"pkg/llrp", "Message.Close", "llrp_Message_Close"},
	{"pkg/llrp", "Client.checkInitialMessage", "llrp_Client_checkInitialMessage"},
	{"pkg/llrp", "Client.getSupportedVersion", "llrp_Client_getSupportedVersion"},
	{"pkg/llrp", "Client.negotiate", "llrp_Client_negotiate"},
	{"pkg/llrp", "Client.SendFor", "llrp_Client_SendFor"},
	{"internal/retry", "ExpBackOff.RetryWithCtx", "retry_ExpBackOff_RetryWithCtx"},
	{"internal/driver", "ipGenerator", "driver_ipGenerator"},
	{"pkg/llrp", "Client.passToHandler", "llrp_Client_passToHandler"},
	{"pkg/llrp", "Client.readHeader", "llrp_Client_readHeader"},
	{"pkg/llrp", "Client.handleIncoming", "llrp_Client_handleIncoming"},
	{"pkg/llrp", "ackHandler.HandleMessage", "llrp_ackHandler_HandleMessage"},
	{"pkg/llrp", "Client.send", "llrp_Client_send"},
	{"pkg/llrp", "Client.handleOutgoing", "llrp_Client_handleOutgoing"},
	{"internal/driver", "LLRPDevice.TrySend", "driver_LLRPDevice_TrySend"},
	{"internal/driver", "LLRPDevice.closeLocked", "driver_LLRPDevice_closeLocked"},
}

// receivers of these types live in the World: their fields are read with World → T operations and their methods are
// call sites without a receiver argument
var worldTypes = map[string]bool{"Client": true, "LLRPDevice": true, "Driver": true}

// functions in which `x == nil` on a byte slice may be read as `len(x) == 0`: ipGenerator compares the result of
// net.IP.To4(), which is nil or a 4-byte slice
var nilAsEmpty = map[string]bool{"ipGenerator": true}

// external functions that write into a slice argument: the operation returns the slice's new content as well
var outParams = map[string][]int{"io.ReadFull": {1}, "io.ReadAtLeast": {1}}

var leanReserved = map[string]bool{"in": true, "at": true, "from": true, "end": true, "then": true, "else": true, "do": true, "let": true,
	"fun": true, "have": true, "show": true, "match": true, "with": true, "if": true, "open": true, "def": true, "where": true, "by": true,
	"w": true, "E": true, "Type": true, "then_": true, "local": true, "instance": true, "structure": true, "class": true, "universe": true,
	"variable": true, "section": true, "namespace": true, "import": true, "export": true, "theorem": true, "example": true, "prefix": true,
	"infix": true, "notation": true, "mutual": true, "partial": true, "unsafe": true, "private": true, "protected": true, "macro": true,
	"syntax": true, "deriving": true, "extends": true, "for": true, "return": true, "break": true, "continue": true, "try": true,
	"catch": true, "finally": true, "nomatch": true, "nofun": true, "calc": true, "suffices": true, "obtain": true, "using": true, "mut": true}

type envOp struct {
	name string
	sig  string // with § before every opaque type name
}

type sq struct {
	p        *Pkg
	fn       string
	types    []string
	typeSet  map[string]bool
	ops      []envOp
	opIdx    map[string]bool
	callName map[token.Pos]string
	selName  map[token.Pos]int
	loopDone map[string]string
	counters map[string]int
	tmp      int
	names    map[types.Object]string
	used     map[string]bool
	worldRcv types.Object
	valRcv   types.Object
	rcvMut   bool
	usesW    bool
	results  []types.Type
	body     *ast.BlockStmt
	hasLoop  bool       // the function contains a for loop: it takes a fuel argument and returns an Option
	inBranch bool       // translating a join-point branch (its end is `()`, never a loop continuation)
	loops    []*loopCtx // enclosing loops, innermost last
	aux      []string   // loop definitions, in dependency order
	lean     string
	named    []types.Object    // named results (variables; a bare return yields their current values)
	closures []*ast.FuncLit    // deferred function literals, by index ("§CLOSURE§i" in a defers list)
	conts    []func() string   // continuation stack: what follows the end of a deferred closure's body
	inCont   int               // > 0 while the body of a continuation definition is being translated
	breaks   []breakCtx        // enclosing breakable constructs, innermost last
	litName  map[token.Pos]int // function literals used as values, numbered in source order
}

// breakCtx: what an unlabelled `break` leaves: a select (go on with the statements after it) or the innermost loop
type breakCtx struct {
	isSelect bool
	rest     []ast.Stmt
	defers   []string
}

// callCont: the end of a select arm when what follows the select was bound to a local continuation `k`
type callCont struct {
	ast.EmptyStmt
	call string // with §REC§ where the loop is passed on
	rec  string // how the loop is named outside a continuation definition: `(<loop> E fuel)`
}

// popBreak marks, inside a statement list, the end of a select arm's own statements: what follows belongs to the
// enclosing construct again
type popBreak struct{ ast.EmptyStmt }

// loopCtx: a `for` loop becomes a recursive definition on a fuel argument; its parameters are the variables in scope at
// loop entry that the loop or the statements after it use; the statements after the loop are translated inside the
// definition, where the loop ends (condition false, break)
type loopCtx struct {
	name   string
	params []types.Object
	post   ast.Stmt
	inPost bool
	exit   []ast.Stmt
	defers []string
	outer  []*loopCtx
	breakDepth int
	viaRec bool
}

// escaped: &x of a local x is only understood when x is not used afterwards (the pointer and the Lean variable would
// otherwise have to alias)
func (s *sq) escaped(id *ast.Ident, at ast.Node) {
	o := s.p.info.Uses[id]
	if o == nil || s.body == nil {
		return
	}
	ast.Inspect(s.body, func(n ast.Node) bool {
		if u, ok := n.(*ast.Ident); ok && u.Pos() > at.End() && s.p.info.Uses[u] == o {
			s.bad(u, "local %s is used after its address was taken", id.Name)
		}
		return true
	})
}

func go2seq(repo string) {
	// the source importer resolves the module's own packages and its dependencies relative to the working directory
	if abs, err := filepath.Abs(repo); err == nil {
		repo = abs
		_ = os.Chdir(repo)
	}
	pkgs := map[string]*Pkg{}
	var sb strings.Builder
	sb.WriteString("-- GENERATED by /verif/translators/vx (go2seq) from /repo — do not edit\n")
	sb.WriteString("import LLRP.Model.GoInt\nimport LLRP.Model.GoSeq\nnamespace LLRP.Gen\nopen LLRP.GoInt LLRP.GoSeq\n\n")
	for _, f := range seqFuncs {
		f := f
		var b strings.Builder
		if e := unit(func() {
			p := pkgs[f.pkg]
			if p == nil {
				p = load(filepath.Join(repo, f.pkg))
				pkgs[f.pkg] = p
			}
			fd := findFunc(p, f.name)
			s := &sq{p: p, fn: f.name, typeSet: map[string]bool{}, opIdx: map[string]bool{}, callName: map[token.Pos]string{}, selName: map[token.Pos]int{}, loopDone: map[string]string{}, litName: map[token.Pos]int{},
				counters: map[string]int{}, names: map[types.Object]string{}, used: map[string]bool{}}
			s.function(fd, f.lean, &b)
		}); e != "" {
			sb.WriteString("-- FAILED " + f.lean + ": " + strings.ReplaceAll(e, "\n", " ") + "\n")
			continue
		}
		sb.WriteString("-- BEGIN " + f.lean + "\n" + b.String() + "-- END " + f.lean + "\n")
	}
	sb.WriteString("end LLRP.Gen\n")
	fmt.Print(sb.String())
}

func (s *sq) bad(n ast.Node, format string, a ...interface{}) {
	fail("go2seq %s at %s: %s", s.fn, s.p.pos(n), fmt.Sprintf(format, a...))
}

// ---------------------------------------------------------------- types

func sanitize(x string) string {
	var b strings.Builder
	for _, r := range x {
		switch {
		case r >= 'a' && r <= 'z', r >= 'A' && r <= 'Z', r >= '0' && r <= '9', r == '_':
			b.WriteRune(r)
		case r == '.' || r == '/':
			b.WriteRune('_')
		}
	}
	return b.String()
}

func isErrorType(t types.Type) bool {
	if t == nil {
		return false
	}
	if n, ok := t.(*types.Named); ok && n.Obj().Pkg() == nil && n.Obj().Name() == "error" {
		return true
	}
	return false
}

func isByteSlice(t types.Type) bool {
	if sl, ok := t.Underlying().(*types.Slice); ok {
		if b, ok := sl.Elem().Underlying().(*types.Basic); ok && b.Kind() == types.Uint8 {
			return true
		}
	}
	return false
}

// opaqueName is the Env type name standing for Go type t (only called for types that are not concrete in Lean)
func (s *sq) opaqueName(t types.Type, n ast.Node) string {
	if a, ok := t.(*types.Alias); ok {
		return s.opaqueName(types.Unalias(a), n)
	}
	switch x := t.(type) {
	case *types.Named:
		o := x.Obj()
		if o.Pkg() != nil && o.Pkg() != s.p.pkg {
			return sanitize(o.Pkg().Name() + "_" + o.Name())
		}
		return sanitize(o.Name())
	case *types.Pointer:
		return "Ptr_" + s.anyName(x.Elem(), n)
	case *types.Slice:
		return "Slice_" + s.anyName(x.Elem(), n)
	case *types.Map:
		return "Map_" + s.anyName(x.Key(), n) + "_" + s.anyName(x.Elem(), n)
	case *types.Interface:
		if x.Empty() {
			return "Any"
		}
		return "Iface_" + sanitize(x.String())
	case *types.Signature:
		return "Func_" + sanitize(x.String())
	case *types.Chan:
		return "Chan_" + s.anyName(x.Elem(), n)
	case *types.Struct:
		return "Struct_" + sanitize(x.String())
	}
	s.bad(n, "unsupported type %s", t)
	return ""
}

// anyName names any type (also concrete ones) for use inside operation / type names
func (s *sq) anyName(t types.Type, n ast.Node) string {
	t = types.Unalias(t)
	if isErrorType(t) {
		return "error"
	}
	if nm, ok := t.(*types.Named); ok {
		o := nm.Obj()
		if o.Pkg() != nil && o.Pkg() != s.p.pkg {
			return sanitize(o.Pkg().Name() + "_" + o.Name())
		}
		return sanitize(o.Name())
	}
	if b, ok := t.(*types.Basic); ok {
		return sanitize(b.Name())
	}
	return s.opaqueName(t, n)
}

// lt is the Lean type of Go type t, with § before opaque Env types
func (s *sq) lt(t types.Type, n ast.Node) string {
	if t == nil {
		s.bad(n, "untyped expression")
	}
	if isErrorType(t) {
		return "GoErr"
	}
	if b, ok := t.Underlying().(*types.Basic); ok {
		switch {
		case b.Info()&types.IsBoolean != 0:
			return "Bool"
		case b.Info()&types.IsString != 0:
			return "String"
		case b.Info()&types.IsInteger != 0:
			return "Int"
		}
		s.bad(n, "unsupported basic type %s", t)
	}
	if isByteSlice(t) {
		return "(List Int)"
	}
	if tu, ok := t.(*types.Tuple); ok {
		s.bad(n, "tuple type %s in a value position", tu)
	}
	name := s.opaqueName(t, n)
	if !s.typeSet[name] {
		s.typeSet[name] = true
		s.types = append(s.types, name)
	}
	return "§" + name
}

func (s *sq) ity(t types.Type, n ast.Node) ity {
	b, ok := t.Underlying().(*types.Basic)
	if !ok {
		s.bad(n, "not an integer type: %s", t)
	}
	g := &g2l{p: s.p, fn: s.fn}
	return g.typeOf(b, n)
}

func (s *sq) op(name, sig string) string {
	if !s.opIdx[name] {
		s.opIdx[name] = true
		s.ops = append(s.ops, envOp{name, sig})
	}
	return "E." + name
}

func (s *sq) fresh(base string) string {
	s.tmp++
	return fmt.Sprintf("%s_%d", base, s.tmp)
}

func (s *sq) declare(o types.Object) string {
	if o == nil {
		return "_"
	}
	if n, ok := s.names[o]; ok {
		return n
	}
	base := sanitize(o.Name())
	if base == "" || base == "_" {
		return "_"
	}
	n := base
	for i := 2; leanReserved[n] || s.used[n]; i++ {
		n = fmt.Sprintf("%s_%d", base, i)
		if leanReserved[base] && i == 2 {
			n = base + "_"
		}
	}
	s.used[n] = true
	s.names[o] = n
	return n
}

func (s *sq) nameOf(id *ast.Ident) string {
	if o := s.p.info.Uses[id]; o != nil {
		if n, ok := s.names[o]; ok {
			return n
		}
	}
	if o := s.p.info.Defs[id]; o != nil {
		return s.declare(o)
	}
	s.bad(id, "unknown identifier %s", id.Name)
	return ""
}

// ---------------------------------------------------------------- function

func (s *sq) function(fd *ast.FuncDecl, lean string, out *strings.Builder) {
	var params []string
	if fd.Recv != nil && len(fd.Recv.List) == 1 && len(fd.Recv.List[0].Names) == 1 {
		r := fd.Recv.List[0]
		ro := s.p.info.Defs[r.Names[0]]
		rt := ro.Type()
		if p, ok := rt.(*types.Pointer); ok {
			rt = p.Elem()
		}
		if nm, ok := rt.(*types.Named); ok && worldTypes[nm.Obj().Name()] {
			s.worldRcv = ro
			s.usesW = true
		} else {
			s.valRcv = ro
			params = append(params, fmt.Sprintf("(%s : %s)", s.declare(ro), s.lt(rt, fd)))
		}
	}
	for _, f := range fd.Type.Params.List {
		for _, n := range f.Names {
			o := s.p.info.Defs[n]
			params = append(params, fmt.Sprintf("(%s : %s)", s.declare(o), s.lt(o.Type(), f)))
		}
	}
	if fd.Type.Results != nil {
		for _, r := range fd.Type.Results.List {
			if len(r.Names) > 0 {
				for _, n := range r.Names {
					s.named = append(s.named, s.p.info.Defs[n])
					s.results = append(s.results, s.p.info.Types[r.Type].Type)
				}
				continue
			}
			if len(s.named) > 0 {
				s.bad(r, "mixed named and unnamed results")
			}
			s.results = append(s.results, s.p.info.Types[r.Type].Type)
		}
	}
	// does the function assign through its value-like pointer receiver?
	if s.valRcv != nil {
		if _, isPtr := s.valRcv.Type().(*types.Pointer); isPtr {
			ast.Inspect(fd.Body, func(n ast.Node) bool {
				if as, ok := n.(*ast.AssignStmt); ok {
					for _, l := range as.Lhs {
						if id := rootIdent(l); id != nil && s.p.info.Uses[id] == s.valRcv {
							if _, plain := l.(*ast.Ident); !plain {
								s.rcvMut = true
							}
						}
					}
				}
				return true
			})
		}
	}
	// number the call sites in source order (logging statements are not translated: see isLogStmt)
	ast.Inspect(fd.Body, func(n ast.Node) bool {
		if es, ok := n.(*ast.ExprStmt); ok && s.isLogStmt(es) {
			return false
		}
		if fl, ok := n.(*ast.FuncLit); ok {
			s.counters["closure"]++
			s.litName[fl.Pos()] = s.counters["closure"]
		}
		if sl, ok := n.(*ast.SelectStmt); ok {
			s.counters["select"]++
			s.selName[sl.Pos()] = s.counters["select"]
		}
		if ce, ok := n.(*ast.CallExpr); ok {
			if _, isLit := ce.Fun.(*ast.FuncLit); isLit {
				return true // a deferred function literal: its body is translated in place
			}
			if base, ok := s.calleeBase(ce); ok {
				s.counters[base]++
				s.callName[ce.Lparen] = fmt.Sprintf("%s_%d", base, s.counters[base])
				s.usesW = true
			}
		}
		return true
	})
	// pointers live in the World: taking an address or dereferencing needs it
	ast.Inspect(fd.Body, func(n ast.Node) bool {
		switch x := n.(type) {
		case *ast.UnaryExpr:
			if x.Op == token.AND {
				s.usesW = true
			}
		case *ast.StarExpr:
			if id, ok := x.X.(*ast.Ident); !(ok && s.p.info.Uses[id] == s.valRcv && s.valRcv != nil) {
				s.usesW = true
			}
		case *ast.SelectorExpr:
			if sel, ok := s.p.info.Selections[x]; ok && sel.Indirect() {
				if id, ok := x.X.(*ast.Ident); !(ok && (s.p.info.Uses[id] == s.valRcv || s.p.info.Uses[id] == s.worldRcv)) {
					s.usesW = true
				}
			}
		}
		return true
	})
	ast.Inspect(fd.Body, func(n ast.Node) bool {
		switch x := n.(type) {
		case *ast.FuncLit:
			return false
		case *ast.ForStmt:
			s.hasLoop = true
		case *ast.RangeStmt:
			s.bad(x, "range loop")
		case *ast.SelectStmt, *ast.SendStmt:
			s.usesW = true
		case *ast.IndexExpr:
			s.usesW = true
		case *ast.UnaryExpr:
			if x.Op == token.ARROW {
				s.usesW = true
			}
		case *ast.CallExpr:
			if id, ok := x.Fun.(*ast.Ident); ok && (id.Name == "close" || id.Name == "delete" || id.Name == "panic" || id.Name == "make") {
				if _, ok := s.p.info.Uses[id].(*types.Builtin); ok {
					s.usesW = true
				}
			}
		case *ast.AssignStmt:
			// p.f = v through a pointer-typed local is a World store
			for _, l := range x.Lhs {
				if se, ok := l.(*ast.SelectorExpr); ok {
					if tv, ok := s.p.info.Types[se.X]; ok && tv.Type != nil {
						if _, isPtr := tv.Type.Underlying().(*types.Pointer); isPtr {
							s.usesW = true
						}
					}
				}
			}
		}
		return true
	})
	s.body = fd.Body
	s.lean = lean
	var npre []string
	for _, o := range s.named {
		npre = append(npre, fmt.Sprintf("let %s : %s := %s", s.declare(o), s.lt(o.Type(), fd), s.zero(o.Type(), fd)))
	}
	body := lets(npre, s.stmts(fd.Body.List, nil))
	var rts []string
	if s.usesW {
		rts = append(rts, "§World")
	}
	if s.rcvMut {
		rts = append(rts, s.lt(s.valRcv.Type().(*types.Pointer).Elem(), fd))
	}
	for _, r := range s.results {
		rts = append(rts, s.lt(r, fd))
	}
	if len(rts) == 0 {
		rts = []string{"Unit"}
	}
	env := "Env_" + lean
	fmt.Fprintf(out, "/-- environment of %s (%s): opaque types and the operations / call sites the function uses -/\nstructure %s where\n", s.fn, s.p.pos(fd), env)
	if s.usesW {
		fmt.Fprintf(out, "  World : Type\n")
	}
	for _, t := range s.types {
		fmt.Fprintf(out, "  %s : Type\n", t)
	}
	for _, o := range s.ops {
		fmt.Fprintf(out, "  %s : %s\n", o.name, strings.ReplaceAll(o.sig, "§", ""))
	}
	ws := ""
	if s.usesW {
		ws = " (w : E.World)"
	}
	rt := strings.ReplaceAll(strings.Join(rts, " × "), "§", "E.")
	if s.hasLoop {
		// loops run on fuel: `none` = the fuel ran out before the function returned
		ws = " (fuel : Nat)" + ws
		rt = "Option (" + rt + ")"
	}
	for _, a := range s.aux {
		fmt.Fprintf(out, "\n%s\n", strings.ReplaceAll(strings.ReplaceAll(a, "§RESULT", rt), "§", "E."))
	}
	fmt.Fprintf(out, "\n/-- %s (%s) -/\ndef %s (E : %s)%s %s : %s :=\n  %s\n\n", s.fn, s.p.pos(fd), lean, env, ws,
		strings.ReplaceAll(strings.Join(params, " "), "§", "E."), rt,
		indent(strings.ReplaceAll(body, "§", "E.")))
}

// isLogStmt: a statement that only logs — a call of a method of a logger (a value whose type is named …Logger /
// LoggingClient, such as `c.logger.ReceivedMsg(hdr, c.ver())` or `driver.lc.Debugf(…)`) or of package log — is left out
// of the translation together with the evaluation of its arguments: logging is not part of any modelled behaviour
// (trusted: loggers and the accessors used in their arguments have no effect on the properties).
func (s *sq) isLogStmt(es *ast.ExprStmt) bool {
	ce, ok := es.X.(*ast.CallExpr)
	if !ok {
		return false
	}
	se, ok := ce.Fun.(*ast.SelectorExpr)
	if !ok {
		return false
	}
	if id, ok := se.X.(*ast.Ident); ok {
		if pn, ok := s.p.info.Uses[id].(*types.PkgName); ok {
			return pn.Imported().Path() == "log"
		}
	}
	if tv, ok := s.p.info.Types[se.X]; ok && tv.Type != nil {
		t := tv.Type
		if p, ok := t.(*types.Pointer); ok {
			t = p.Elem()
		}
		if n, ok := t.(*types.Named); ok {
			name := n.Obj().Name()
			return strings.HasSuffix(name, "Logger") || name == "LoggingClient"
		}
	}
	return false
}

func rootIdent(e ast.Expr) *ast.Ident {
	for {
		switch x := e.(type) {
		case *ast.Ident:
			return x
		case *ast.SelectorExpr:
			e = x.X
		case *ast.StarExpr:
			e = x.X
		case *ast.ParenExpr:
			e = x.X
		case *ast.IndexExpr:
			e = x.X
		default:
			return nil
		}
	}
}

// ---------------------------------------------------------------- calls

// calleeBase: the operation base name of a general (World-threaded) call; ok=false for conversions, builtins and the
// natively translated error constructors
func (s *sq) calleeBase(ce *ast.CallExpr) (string, bool) {
	if tv, ok := s.p.info.Types[ce.Fun]; ok && tv.IsType() {
		return "", false
	}
	switch f := ce.Fun.(type) {
	case *ast.Ident:
		if o := s.p.info.Uses[f]; o != nil {
			if _, ok := o.(*types.Builtin); ok {
				return "", false
			}
			if _, ok := o.(*types.Func); ok {
				return sanitize(f.Name), true
			}
			return "call_" + s.anyName(o.Type(), ce), true // a function value held in a variable
		}
	case *ast.SelectorExpr:
		switch types.ExprString(ce.Fun) {
		case "binary.BigEndian.Uint32", "binary.BigEndian.Uint16":
			return "", false
		}
		if id, ok := f.X.(*ast.Ident); ok {
			if pn, ok := s.p.info.Uses[id].(*types.PkgName); ok {
				q := pn.Imported().Name() + "." + f.Sel.Name
				switch q {
				case "errors.New", "fmt.Errorf", "errors.Is":
					return "", false
				}
				return sanitize(q), true
			}
		}
		if sel, ok := s.p.info.Selections[f]; ok && sel.Kind() == types.MethodVal {
			rt := sel.Recv()
			if p, ok := rt.(*types.Pointer); ok {
				rt = p.Elem()
			}
			return s.anyName(rt, ce) + "_" + f.Sel.Name, true
		}
		if sel, ok := s.p.info.Selections[f]; ok && sel.Kind() == types.FieldVal {
			return "call_" + s.anyName(sel.Type(), ce), true
		}
	}
	s.bad(ce, "unsupported callee %s", types.ExprString(ce.Fun))
	return "", false
}

// addressable local path: ident or field selections rooted at a value-typed local / the value-like receiver
func (s *sq) localPath(e ast.Expr) bool {
	switch x := e.(type) {
	case *ast.Ident:
		o := s.p.info.Uses[x]
		if o == nil || o == s.worldRcv {
			return false
		}
		if _, ok := o.(*types.Var); !ok {
			return false
		}
		if o == s.valRcv {
			return true
		}
		_, isPtr := o.Type().Underlying().(*types.Pointer)
		_, isIface := o.Type().Underlying().(*types.Interface)
		return !isPtr && !isIface
	case *ast.SelectorExpr:
		if sel, ok := s.p.info.Selections[x]; ok && sel.Kind() == types.FieldVal && !sel.Indirect() {
			return s.localPath(x.X)
		}
		if sel, ok := s.p.info.Selections[x]; ok && sel.Kind() == types.FieldVal {
			if id, ok := x.X.(*ast.Ident); ok && s.p.info.Uses[id] == s.valRcv {
				return true
			}
		}
	case *ast.ParenExpr:
		return s.localPath(x.X)
	}
	return false
}

// call translates a general call; the bindings go to pre, the result variables are returned
func (s *sq) call(ce *ast.CallExpr, pre *[]string) ([]string, []types.Type) {
	name := s.callName[ce.Lparen]
	if name == "" {
		s.bad(ce, "call site not numbered")
	}
	qual := ""
	var sig *types.Signature
	if tv, ok := s.p.info.Types[ce.Fun]; ok {
		sig, _ = tv.Type.Underlying().(*types.Signature)
	}
	if sig == nil {
		s.bad(ce, "callee %s has no signature (unresolved import?)", types.ExprString(ce.Fun))
	}
	var args, argTs []string
	updRecv := ast.Expr(nil)
	switch f := ce.Fun.(type) {
	case *ast.Ident:
		if _, isFunc := s.p.info.Uses[f].(*types.Func); !isFunc {
			args = append(args, s.nameOf(f))
			argTs = append(argTs, s.lt(s.p.info.Uses[f].Type(), ce))
		}
	case *ast.SelectorExpr:
		if id, ok := f.X.(*ast.Ident); ok {
			if pn, ok := s.p.info.Uses[id].(*types.PkgName); ok {
				qual = pn.Imported().Name() + "." + f.Sel.Name
				break
			}
		}
		sel := s.p.info.Selections[f]
		if sel.Kind() == types.MethodVal {
			if id, ok := f.X.(*ast.Ident); ok && s.p.info.Uses[id] == s.worldRcv {
				break // method of the world-resident receiver
			}
			m := sel.Obj().(*types.Func)
			_, ptrRecv := m.Type().(*types.Signature).Recv().Type().(*types.Pointer)
			rv, rt := s.ex(f.X, pre)
			if id, ok := f.X.(*ast.Ident); ok && s.p.info.Uses[id] == s.valRcv {
				if p, ok := rt.(*types.Pointer); ok {
					rt = p.Elem() // the receiver variable stands for the pointee
				}
			}
			args = append(args, rv)
			argTs = append(argTs, s.lt(rt, ce))
			if ptrRecv && s.localPath(f.X) {
				updRecv = f.X
			}
		} else { // function-valued field
			rv, rt := s.ex(f, pre)
			args = append(args, rv)
			argTs = append(argTs, s.lt(rt, ce))
		}
	}
	if sig.Variadic() {
		s.bad(ce, "variadic call %s", types.ExprString(ce.Fun))
	}
	if sig.Params().Len() != len(ce.Args) {
		s.bad(ce, "argument count of %s", types.ExprString(ce.Fun))
	}
	var outs []int
	for i, a := range ce.Args {
		pt := sig.Params().At(i).Type()
		v, t := s.ex(a, pre)
		args = append(args, s.coerce(v, t, pt, a))
		argTs = append(argTs, s.lt(pt, a))
	}
	for _, i := range outParams[qual] {
		if !s.localPath(ce.Args[i]) {
			s.bad(ce, "out-parameter %d of %s is not a local", i, qual)
		}
		outs = append(outs, i)
	}
	var resTs []string
	var lhs []string
	var rts []types.Type
	lhs = append(lhs, "w")
	resTs = append(resTs, "§World")
	updName := ""
	if updRecv != nil {
		updName = s.fresh("rcv")
		lhs = append(lhs, updName)
		resTs = append(resTs, argTs[0])
	}
	var outNames []string
	for _, i := range outs {
		n := s.fresh("out")
		outNames = append(outNames, n)
		lhs = append(lhs, n)
		resTs = append(resTs, s.lt(sig.Params().At(i).Type(), ce))
	}
	var names []string
	for i := 0; i < sig.Results().Len(); i++ {
		n := s.fresh("r")
		names = append(names, n)
		lhs = append(lhs, n)
		rts = append(rts, sig.Results().At(i).Type())
		resTs = append(resTs, s.lt(sig.Results().At(i).Type(), ce))
	}
	s.op(name, strings.Join(append([]string{"§World"}, argTs...), " → ")+" → "+strings.Join(resTs, " × "))
	bind := "let w"
	if len(lhs) > 1 {
		bind = "let (" + strings.Join(lhs, ", ") + ")"
	}
	*pre = append(*pre, fmt.Sprintf("%s := E.%s w%s", bind, name, prefixEach(args)))
	if updRecv != nil {
		*pre = append(*pre, s.assignPath(updRecv, updName, pre))
	}
	for k, i := range outs {
		*pre = append(*pre, s.assignPath(ce.Args[i], outNames[k], pre))
	}
	return names, rts
}

func prefixEach(a []string) string {
	out := ""
	for _, x := range a {
		out += " " + x
	}
	return out
}

// assignPath: the let-line that stores Lean value v into the Go lvalue e (a local or a field path rooted at a local)
func (s *sq) assignPath(e ast.Expr, v string, pre *[]string) string {
	switch x := e.(type) {
	case *ast.ParenExpr:
		return s.assignPath(x.X, v, pre)
	case *ast.Ident:
		if x.Name == "_" {
			return "let _ := " + v
		}
		o := s.p.info.Uses[x]
		if o == nil {
			o = s.p.info.Defs[x]
		}
		if o == s.worldRcv {
			s.bad(e, "assignment to the world receiver")
		}
		return fmt.Sprintf("let %s := %s", s.declare(o), v)
	case *ast.IndexExpr:
		m, mt := s.ex(x.X, pre)
		mp, ok := mt.Underlying().(*types.Map)
		if !ok {
			s.bad(e, "assignment to an element of a non-map")
		}
		k, kt := s.ex(x.Index, pre)
		return fmt.Sprintf("let w := %s w %s %s %s", s.op("mapset_"+s.anyName(mt, e), "§World → "+s.lt(mt, e)+" → "+s.lt(mp.Key(), e)+" → "+s.lt(mp.Elem(), e)+" → §World"), m, s.coerce(k, kt, mp.Key(), e), v)
	case *ast.SelectorExpr:
		sel, ok := s.p.info.Selections[x]
		if !ok || sel.Kind() != types.FieldVal {
			s.bad(e, "unsupported assignment target")
		}
		if id, ok := x.X.(*ast.Ident); ok && s.p.info.Uses[id] == s.worldRcv {
			// c.f = v on the receiver that lives in the World
			rt := s.worldRcv.Type()
			if p, ok := rt.(*types.Pointer); ok {
				rt = p.Elem()
			}
			st, ok := rt.Underlying().(*types.Struct)
			if !ok || len(sel.Index()) != 1 {
				s.bad(e, "assignment to a nested field of the world receiver")
			}
			f := st.Field(sel.Index()[0])
			return fmt.Sprintf("let w := %s w %s", s.op("set_"+s.anyName(rt, e)+"_"+f.Name(), "§World → "+s.lt(f.Type(), e)+" → §World"), v)
		}
		// walk the (possibly promoted) field path: base.f1.f2…fn := v
		bt := s.p.info.Types[x.X].Type
		if p, ok := bt.Underlying().(*types.Pointer); ok {
			if id, ok2 := x.X.(*ast.Ident); !(ok2 && s.p.info.Uses[id] == s.valRcv) {
				// p.f = v with p a pointer: the pointee lives in the World
				if len(sel.Index()) != 1 {
					s.bad(e, "assignment through a pointer to a nested field")
				}
				st, ok := p.Elem().Underlying().(*types.Struct)
				if !ok {
					s.bad(e, "assignment through a pointer to a non-struct")
				}
				f := st.Field(sel.Index()[0])
				pv, _ := s.ex(x.X, pre)
				return fmt.Sprintf("let w := %s w %s %s", s.op("store_"+s.anyName(p.Elem(), e)+"_"+f.Name(), "§World → "+s.lt(bt, e)+" → "+s.lt(f.Type(), e)+" → §World"), pv, v)
			}
			bt = p.Elem()
		}
		base, _ := s.ex(x.X, pre)
		type step struct {
			owner types.Type
			f     *types.Var
		}
		var steps []step
		cur := bt
		for _, i := range sel.Index() {
			st, ok := cur.Underlying().(*types.Struct)
			if !ok {
				s.bad(e, "assignment through an embedded pointer")
			}
			steps = append(steps, step{cur, st.Field(i)})
			cur = st.Field(i).Type()
		}
		// values of the intermediate structs
		vals := []string{base}
		for k := 0; k < len(steps)-1; k++ {
			vals = append(vals, fmt.Sprintf("(%s %s)", s.getOp(steps[k].owner, steps[k].f, e), vals[k]))
		}
		nv := v
		for k := len(steps) - 1; k >= 0; k-- {
			nv = fmt.Sprintf("(%s %s %s)", s.setOp(steps[k].owner, steps[k].f, e), vals[k], nv)
		}
		return s.assignPath(x.X, nv, pre)
	}
	s.bad(e, "unsupported assignment target %T", e)
	return ""
}

func (s *sq) getOp(owner types.Type, f *types.Var, n ast.Node) string {
	return s.op("get_"+s.anyName(owner, n)+"_"+f.Name(), s.lt(owner, n)+" → "+s.lt(f.Type(), n))
}

func (s *sq) setOp(owner types.Type, f *types.Var, n ast.Node) string {
	return s.op("set_"+s.anyName(owner, n)+"_"+f.Name(), s.lt(owner, n)+" → "+s.lt(f.Type(), n)+" → "+s.lt(owner, n))
}

// coerce converts Lean value v of Go type from to Go type to (implicit interface conversions, nil)
func (s *sq) coerce(v string, from, to types.Type, n ast.Node) string {
	if v == "NIL" {
		if isErrorType(to) {
			return "GoErr.nil"
		}
		if isByteSlice(to) {
			return "([] : List Int)"
		}
		return s.op("nil_"+s.anyName(to, n), s.lt(to, n))
	}
	if from == nil || to == nil {
		return v
	}
	lf, lt := s.lt(from, n), s.lt(to, n)
	if lf == lt {
		return v
	}
	return fmt.Sprintf("(%s %s)", s.op("conv_"+s.anyName(from, n)+"_to_"+s.anyName(to, n), lf+" → "+lt), v)
}

// ---------------------------------------------------------------- expressions

func (s *sq) ex(e ast.Expr, pre *[]string) (string, types.Type) {
	tv, ok := s.p.info.Types[e]
	if ok && tv.Value != nil {
		g := &g2l{p: s.p, fn: s.fn}
		return constLit(tv.Value, e, g), tv.Type
	}
	if ok && tv.IsNil() {
		return "NIL", nil
	}
	switch x := e.(type) {
	case *ast.ParenExpr:
		return s.ex(x.X, pre)
	case *ast.Ident:
		if x.Name == "true" || x.Name == "false" {
			return x.Name, tv.Type
		}
		o := s.p.info.Uses[x]
		if o == s.worldRcv && o != nil {
			s.bad(e, "the world receiver used as a value")
		}
		if v, ok := o.(*types.Var); ok && v.Pkg() != nil && v.Parent() == v.Pkg().Scope() {
			return s.global(v, e), v.Type()
		}
		t := tv.Type
		if o == s.valRcv && o != nil {
			_ = t // the receiver variable stands for the pointee value
		}
		return s.nameOf(x), t
	case *ast.SelectorExpr:
		if id, ok := x.X.(*ast.Ident); ok {
			if _, ok := s.p.info.Uses[id].(*types.PkgName); ok {
				if v, ok := s.p.info.Uses[x.Sel].(*types.Var); ok {
					return s.global(v, e), v.Type()
				}
				s.bad(e, "unsupported package member %s", types.ExprString(e))
			}
		}
		sel, ok := s.p.info.Selections[x]
		if !ok || sel.Kind() != types.FieldVal {
			s.bad(e, "unsupported selector %s", types.ExprString(e))
		}
		var cur string
		var ct types.Type
		if id, ok := x.X.(*ast.Ident); ok && s.p.info.Uses[id] == s.worldRcv && s.worldRcv != nil {
			// first field straight from the World
			rt := s.worldRcv.Type()
			if p, ok := rt.(*types.Pointer); ok {
				rt = p.Elem()
			}
			st := rt.Underlying().(*types.Struct)
			idx := sel.Index()
			f := st.Field(idx[0])
			cur = "(" + s.op(s.anyName(rt, e)+"_"+f.Name(), "§World → "+s.lt(f.Type(), e)) + " w)"
			ct = f.Type()
			for _, i := range idx[1:] {
				cur, ct = s.field(cur, ct, i, e)
			}
			return cur, ct
		}
		cur, ct = s.ex(x.X, pre)
		if id, ok := x.X.(*ast.Ident); ok && s.p.info.Uses[id] == s.valRcv && s.valRcv != nil {
			if p, ok := ct.(*types.Pointer); ok {
				ct = p.Elem()
			}
		}
		for _, i := range sel.Index() {
			cur, ct = s.field(cur, ct, i, e)
		}
		return cur, ct
	case *ast.StarExpr:
		if id, ok := x.X.(*ast.Ident); ok && s.p.info.Uses[id] == s.valRcv && s.valRcv != nil {
			return s.nameOf(id), s.valRcv.Type().(*types.Pointer).Elem()
		}
		v, t := s.ex(x.X, pre)
		p, ok := t.Underlying().(*types.Pointer)
		if !ok {
			s.bad(e, "dereference of a non-pointer")
		}
		return fmt.Sprintf("(%s w %s)", s.op("deref_"+s.anyName(t, e), "§World → "+s.lt(t, e)+" → "+s.lt(p.Elem(), e)), v), p.Elem()
	case *ast.UnaryExpr:
		switch x.Op {
		case token.AND:
			v, t := s.ex(x.X, pre)
			pt := types.NewPointer(t)
			if id, ok := x.X.(*ast.Ident); ok {
				s.escaped(id, x)
			}
			n := s.fresh("p")
			*pre = append(*pre, fmt.Sprintf("let (w, %s) := %s w %s", n, s.op("addr_"+s.anyName(t, e), "§World → "+s.lt(t, e)+" → §World × "+s.lt(pt, e)), v))
			return n, pt
		case token.NOT:
			v, t := s.ex(x.X, pre)
			return "(!" + v + ")", t
		case token.SUB:
			v, t := s.ex(x.X, pre)
			return "(" + wrapFn(s.ity(t, e)) + " (-" + v + "))", t
		case token.XOR:
			v, t := s.ex(x.X, pre)
			it := s.ity(t, e)
			sg := "false"
			if it.signed {
				sg = "true"
			}
			return fmt.Sprintf("(goNot %d %s %s)", it.bits, sg, v), t
		case token.ARROW:
			ch, ct := s.ex(x.X, pre)
			c, ok := ct.Underlying().(*types.Chan)
			if !ok {
				s.bad(e, "receive from a non-channel")
			}
			n, okn := s.fresh("rv"), s.fresh("rok")
			*pre = append(*pre, fmt.Sprintf("let (w, %s, %s) := %s w %s", n, okn, s.op("recv_"+s.anyName(ct, e), "§World → "+s.lt(ct, e)+" → §World × "+s.lt(c.Elem(), e)+" × Bool"), ch))
			return n, c.Elem()
		}
		s.bad(e, "unsupported unary operator %s", x.Op)
	case *ast.BinaryExpr:
		switch x.Op {
		case token.LAND, token.LOR:
			a, _ := s.ex(x.X, pre)
			var pre2 []string
			b, _ := s.ex(x.Y, &pre2)
			if len(pre2) > 0 {
				// short circuit: the calls on the right happen only when the left operand does not decide
				n := s.fresh("sc")
				skip := "false"
				cond := a
				if x.Op == token.LOR {
					skip = "true"
					cond = "(!" + a + ")"
				}
				*pre = append(*pre, fmt.Sprintf("let (w, %s) :=\n  if %s then\n    %s\n  else\n    (w, %s)", n, cond, indent(indent(lets(pre2, "(w, "+b+")"))), skip))
				return n, tv.Type
			}
			op := "&&"
			if x.Op == token.LOR {
				op = "||"
			}
			return "(" + a + " " + op + " " + b + ")", tv.Type
		case token.EQL, token.NEQ, token.LSS, token.LEQ, token.GTR, token.GEQ:
			a, at := s.ex(x.X, pre)
			b, bt := s.ex(x.Y, pre)
			neg := x.Op == token.NEQ
			if a == "NIL" || b == "NIL" {
				if x.Op != token.EQL && x.Op != token.NEQ {
					s.bad(e, "ordering comparison with nil")
				}
				v, t := a, at
				if a == "NIL" {
					v, t = b, bt
				}
				var r string
				switch {
				case isErrorType(t):
					r = "(" + v + " == GoErr.nil)"
				case isByteSlice(t):
					// a nil slice and an empty one are not distinguished: accepted only in the functions listed in
					// nilAsEmpty, where the compared value is nil or non-empty by the callee's contract
					r = "(List.isEmpty " + v + ")"
					if !nilAsEmpty[s.fn] {
						s.bad(e, "nil comparison of a byte slice")
					}
				default:
					r = fmt.Sprintf("(%s %s)", s.op("isNil_"+s.anyName(t, e), s.lt(t, e)+" → Bool"), v)
				}
				if neg {
					return "(!" + r + ")", tv.Type
				}
				return r, tv.Type
			}
			la := s.lt(at, e)
			switch la {
			case "Int", "String":
				op := map[token.Token]string{token.EQL: "=", token.NEQ: "≠", token.LSS: "<", token.LEQ: "≤", token.GTR: ">", token.GEQ: "≥"}[x.Op]
				return "decide (" + a + " " + op + " " + b + ")", tv.Type
			case "Bool", "GoErr":
				if x.Op == token.EQL {
					return "(" + a + " == " + b + ")", tv.Type
				}
				if x.Op == token.NEQ {
					return "(" + a + " != " + b + ")", tv.Type
				}
			}
			s.bad(e, "comparison of %s values", at)
		}
		a, at := s.ex(x.X, pre)
		b, _ := s.ex(x.Y, pre)
		g := &g2l{p: s.p, fn: s.fn}
		return g.binop(x.Op, a, b, s.ity(tv.Type, e), e), at
	case *ast.FuncLit:
		// a function literal used as a value: opaque, built by the environment from the variables it captures
		used := s.usedObjects([]ast.Node{x.Body})
		var caps []types.Object
		for o := range s.names {
			if used[o] && o != s.worldRcv {
				caps = append(caps, o)
			}
		}
		sort.Slice(caps, func(i, j int) bool { return caps[i].Pos() < caps[j].Pos() })
		sig := "§World"
		args := ""
		for _, o := range caps {
			sig += " → " + s.lt(s.varType(o), x)
			args += " " + s.names[o]
		}
		ft := tv.Type
		n := s.fresh("fn")
		*pre = append(*pre, fmt.Sprintf("let (w, %s) := %s w%s", n, s.op(fmt.Sprintf("closure_%d", s.litName[x.Pos()]), sig+" → §World × "+s.lt(ft, x)), args))
		return n, ft
	case *ast.IndexExpr:
		// m[k] of a map (zero value when absent): the first component of the comma-ok lookup
		m, mt := s.ex(x.X, pre)
		mp, ok := mt.Underlying().(*types.Map)
		if !ok {
			s.bad(e, "index of a non-map")
		}
		k, kt := s.ex(x.Index, pre)
		opn := s.op("index_"+s.anyName(mt, x), s.lt(mt, x)+" → "+s.lt(mp.Key(), x)+" → "+s.lt(mp.Elem(), x)+" × Bool")
		return fmt.Sprintf("(%s %s %s).1", opn, m, s.coerce(k, kt, mp.Key(), x)), mp.Elem()
	case *ast.SliceExpr:
		// b[lo:hi] of a byte slice (Go panics when the bounds are out of range; that case is not represented)
		v, t := s.ex(x.X, pre)
		if !isByteSlice(t) || x.Slice3 {
			s.bad(e, "unsupported slice expression")
		}
		lo := "0"
		if x.Low != nil {
			lo, _ = s.ex(x.Low, pre)
		}
		r := fmt.Sprintf("(List.drop (Int.toNat %s) %s)", lo, v)
		if x.High != nil {
			hi, _ := s.ex(x.High, pre)
			r = fmt.Sprintf("(List.take (Int.toNat (%s - %s)) %s)", hi, lo, r)
		}
		return r, t
	case *ast.CompositeLit:
		t := tv.Type
		if isByteSlice(t) {
			var els []string
			for _, el := range x.Elts {
				if _, ok := el.(*ast.KeyValueExpr); ok {
					s.bad(e, "keyed byte slice literal")
				}
				v, _ := s.ex(el, pre)
				els = append(els, v)
			}
			return "([" + strings.Join(els, ", ") + "] : List Int)", t
		}
		st, ok := t.Underlying().(*types.Struct)
		if !ok {
			s.bad(e, "unsupported composite literal of type %s", t)
		}
		cur := s.op("zero_"+s.anyName(t, e), s.lt(t, e))
		for _, el := range x.Elts {
			kv, ok := el.(*ast.KeyValueExpr)
			if !ok {
				s.bad(e, "unkeyed struct literal")
			}
			fname := kv.Key.(*ast.Ident).Name
			var fv *types.Var
			for i := 0; i < st.NumFields(); i++ {
				if st.Field(i).Name() == fname {
					fv = st.Field(i)
				}
			}
			if fv == nil {
				s.bad(e, "field %s not found", fname)
			}
			v, vt := s.ex(kv.Value, pre)
			cur = fmt.Sprintf("(%s %s %s)", s.setOp(t, fv, e), cur, s.coerce(v, vt, fv.Type(), kv.Value))
		}
		return cur, t
	case *ast.CallExpr:
		if ftv, ok := s.p.info.Types[x.Fun]; ok && ftv.IsType() {
			if len(x.Args) != 1 {
				s.bad(e, "conversion with %d arguments", len(x.Args))
			}
			v, ft := s.ex(x.Args[0], pre)
			to := ftv.Type
			lf, lt := s.lt(ft, e), s.lt(to, e)
			if lf == "Int" && lt == "Int" {
				fi, ti := s.ity(ft, e), s.ity(to, e)
				if fi.bits != 0 && fi.bits <= ti.bits && (fi.signed == ti.signed || (!fi.signed && ti.bits > fi.bits)) {
					return v, to
				}
				return "(" + wrapFn(ti) + " " + v + ")", to
			}
			return s.coerce(v, ft, to, e), to
		}
		if id, ok := x.Fun.(*ast.Ident); ok {
			if _, ok := s.p.info.Uses[id].(*types.Builtin); ok {
				switch id.Name {
				case "len":
					v, t := s.ex(x.Args[0], pre)
					if !isByteSlice(t) {
						s.bad(e, "len of %s", t)
					}
					return "(Int.ofNat (List.length " + v + "))", tv.Type
				case "make":
					if isByteSlice(tv.Type) && len(x.Args) == 2 {
						v, _ := s.ex(x.Args[1], pre)
						return "(List.replicate (Int.toNat " + v + ") (0 : Int))", tv.Type
					}
					if _, isChan := tv.Type.Underlying().(*types.Chan); isChan {
						capv := "0"
						if len(x.Args) == 2 {
							capv, _ = s.ex(x.Args[1], pre)
						}
						n := s.fresh("ch")
						*pre = append(*pre, fmt.Sprintf("let (w, %s) := %s w %s", n, s.op("make_"+s.anyName(tv.Type, e), "§World → Int → §World × "+s.lt(tv.Type, e)), capv))
						return n, tv.Type
					}
				}
				s.bad(e, "unsupported builtin %s", id.Name)
			}
		}
		switch types.ExprString(x.Fun) {
		case "binary.BigEndian.Uint32":
			v, _ := s.ex(x.Args[0], pre)
			return "(be32At " + v + " 0)", tv.Type
		case "binary.BigEndian.Uint16":
			v, _ := s.ex(x.Args[0], pre)
			return "(be16At " + v + " 0)", tv.Type
		}
		if se, ok := x.Fun.(*ast.SelectorExpr); ok {
			if id, ok := se.X.(*ast.Ident); ok {
				if pn, ok := s.p.info.Uses[id].(*types.PkgName); ok {
					switch pn.Imported().Name() + "." + se.Sel.Name {
					case "errors.New":
						v, _ := s.ex(x.Args[0], pre)
						return "(GoErr.new " + v + ")", tv.Type
					case "errors.Is":
						a, at := s.ex(x.Args[0], pre)
						b, bt := s.ex(x.Args[1], pre)
						errT := types.Universe.Lookup("error").Type()
						return "(GoErr.is " + s.coerce(a, at, errT, e) + " " + s.coerce(b, bt, errT, e) + ")", tv.Type
					case "fmt.Errorf":
						return s.errorf(x, pre), tv.Type
					}
				}
			}
		}
		names, ts := s.call(x, pre)
		if len(names) != 1 {
			s.bad(e, "call with %d results in a value position", len(names))
		}
		return names[0], ts[0]
	}
	s.bad(e, "unsupported expression %T", e)
	return "", nil
}

func (s *sq) field(cur string, ct types.Type, i int, n ast.Node) (string, types.Type) {
	if p, ok := ct.Underlying().(*types.Pointer); ok {
		cur = fmt.Sprintf("(%s w %s)", s.op("deref_"+s.anyName(ct, n), "§World → "+s.lt(ct, n)+" → "+s.lt(p.Elem(), n)), cur)
		ct = p.Elem()
	}
	st, ok := ct.Underlying().(*types.Struct)
	if !ok {
		s.bad(n, "field of a non-struct %s", ct)
	}
	f := st.Field(i)
	return fmt.Sprintf("(%s %s)", s.getOp(ct, f, n), cur), f.Type()
}

func (s *sq) global(v *types.Var, n ast.Node) string {
	q := v.Name()
	if v.Pkg() != nil && v.Pkg() != s.p.pkg {
		q = v.Pkg().Name() + "." + v.Name()
	}
	if isErrorType(v.Type()) {
		return fmt.Sprintf("(GoErr.global %q)", q)
	}
	return s.op("global_"+sanitize(q), s.lt(v.Type(), n))
}

// fmt.Errorf(format, args…): a new error, wrapping the argument that %w formats
func (s *sq) errorf(x *ast.CallExpr, pre *[]string) string {
	ftv := s.p.info.Types[x.Args[0]]
	if ftv.Value == nil || ftv.Value.Kind() != constant.String {
		s.bad(x, "fmt.Errorf with a non-constant format")
	}
	format := constant.StringVal(ftv.Value)
	wrapArg := -1
	k := 0
	for i := 0; i < len(format); i++ {
		if format[i] != '%' {
			continue
		}
		i++
		for i < len(format) && strings.ContainsRune("+-# 0123456789.[]*", rune(format[i])) {
			i++
		}
		if i >= len(format) {
			break
		}
		if format[i] == '%' {
			continue
		}
		if format[i] == 'w' {
			wrapArg = k
		}
		k++
	}
	var vals []string
	var ts []types.Type
	for _, a := range x.Args[1:] {
		if id := rootIdent(a); id != nil && s.p.info.Uses[id] == s.worldRcv && s.worldRcv != nil {
			if _, plain := a.(*ast.Ident); plain {
				vals, ts = append(vals, ""), append(ts, nil)
				continue
			}
		}
		if id, ok := a.(*ast.Ident); ok && s.p.info.Uses[id] == s.valRcv && s.valRcv != nil {
			vals, ts = append(vals, ""), append(ts, nil) // formatting the receiver itself (%v): no effect
			continue
		}
		v, t := s.ex(a, pre)
		vals, ts = append(vals, v), append(ts, t)
	}
	if wrapArg >= 0 && wrapArg < len(vals) && vals[wrapArg] != "" {
		errT := types.Universe.Lookup("error").Type()
		return fmt.Sprintf("(GoErr.wrap %q %s)", format, s.coerce(vals[wrapArg], ts[wrapArg], errT, x))
	}
	return fmt.Sprintf("(GoErr.new %q)", format)
}

// ---------------------------------------------------------------- statements

func lets(pre []string, body string) string {
	if len(pre) == 0 {
		return body
	}
	return strings.Join(pre, "\n") + "\n" + body
}

func hasReturnOrDefer(list []ast.Stmt) bool {
	found := false
	for _, st := range list {
		ast.Inspect(st, func(n ast.Node) bool {
			switch n.(type) {
			case *ast.ReturnStmt, *ast.DeferStmt, *ast.BranchStmt, *ast.ForStmt, *ast.RangeStmt, *ast.SelectStmt:
				found = true
			case *ast.FuncLit:
				return false
			}
			return true
		})
	}
	return found
}

func fallsThrough(list []ast.Stmt) bool {
	if len(list) == 0 {
		return true
	}
	switch list[len(list)-1].(type) {
	case *ast.ReturnStmt, *ast.BranchStmt:
		return false
	}
	return true
}

// assigned: Lean names of variables (declared outside the statements) that the statements assign, in sorted order
func (s *sq) assigned(list []ast.Stmt) []string {
	set := map[string]bool{}
	inner := map[types.Object]bool{}
	for _, st := range list {
		ast.Inspect(st, func(n ast.Node) bool {
			switch x := n.(type) {
			case *ast.AssignStmt:
				for _, l := range x.Lhs {
					id := rootIdent(l)
					if id == nil || id.Name == "_" {
						continue
					}
					if o := s.p.info.Defs[id]; o != nil {
						inner[o] = true
						continue
					}
					if o := s.p.info.Uses[id]; o != nil && !inner[o] && o != s.worldRcv {
						set[s.declare(o)] = true
					}
				}
			case *ast.ValueSpec:
				for _, id := range x.Names {
					if o := s.p.info.Defs[id]; o != nil {
						inner[o] = true
					}
				}
			case *ast.IncDecStmt:
				if id := rootIdent(x.X); id != nil {
					if o := s.p.info.Uses[id]; o != nil && !inner[o] {
						set[s.declare(o)] = true
					}
				}
			case *ast.CallExpr:
				// pointer-receiver methods on locals and out-parameters assign their target
				if se, ok := x.Fun.(*ast.SelectorExpr); ok {
					if sel, ok := s.p.info.Selections[se]; ok && sel.Kind() == types.MethodVal {
						if _, ptr := sel.Obj().(*types.Func).Type().(*types.Signature).Recv().Type().(*types.Pointer); ptr && s.localPath(se.X) {
							if id := rootIdent(se.X); id != nil {
								if o := s.p.info.Uses[id]; o != nil && !inner[o] {
									set[s.declare(o)] = true
								}
							}
						}
					}
					if id, ok := se.X.(*ast.Ident); ok {
						if pn, ok := s.p.info.Uses[id].(*types.PkgName); ok {
							for _, i := range outParams[pn.Imported().Name()+"."+se.Sel.Name] {
								if i < len(x.Args) {
									if id := rootIdent(x.Args[i]); id != nil {
										if o := s.p.info.Uses[id]; o != nil && !inner[o] {
											set[s.declare(o)] = true
										}
									}
								}
							}
						}
					}
				}
			}
			return true
		})
	}
	var out []string
	for n := range set {
		out = append(out, n)
	}
	sort.Strings(out)
	return out
}

// hasCall: do the statements change (or may they change) the World? — a numbered call site, or any of the World
// operations the translator emits itself: &x, <-ch, ch <- v, close / delete / panic / make(chan), a store through a
// pointer or into a map or into a field of the world receiver, a function literal used as a value
func (s *sq) hasCall(list []ast.Stmt) bool {
	found := false
	lhsTouches := func(l ast.Expr) bool {
		switch x := l.(type) {
		case *ast.StarExpr:
			return true
		case *ast.IndexExpr:
			return true
		case *ast.SelectorExpr:
			if id, ok := x.X.(*ast.Ident); ok && s.worldRcv != nil && s.p.info.Uses[id] == s.worldRcv {
				return true
			}
			if tv, ok := s.p.info.Types[x.X]; ok && tv.Type != nil {
				if _, isPtr := tv.Type.Underlying().(*types.Pointer); isPtr {
					if id, ok := x.X.(*ast.Ident); !(ok && s.valRcv != nil && s.p.info.Uses[id] == s.valRcv) {
						return true
					}
				}
			}
		}
		return false
	}
	for _, st := range list {
		ast.Inspect(st, func(n ast.Node) bool {
			switch x := n.(type) {
			case *ast.CallExpr:
				if s.callName[x.Lparen] != "" {
					found = true
				}
				if id, ok := x.Fun.(*ast.Ident); ok {
					if _, ok := s.p.info.Uses[id].(*types.Builtin); ok {
						switch id.Name {
						case "close", "delete", "panic":
							found = true
						case "make":
							if tv, ok := s.p.info.Types[x]; ok && tv.Type != nil {
								if _, isChan := tv.Type.Underlying().(*types.Chan); isChan {
									found = true
								}
							}
						}
					}
				}
			case *ast.UnaryExpr:
				if x.Op == token.AND || x.Op == token.ARROW {
					found = true
				}
			case *ast.SendStmt, *ast.SelectStmt, *ast.FuncLit:
				found = true
			case *ast.AssignStmt:
				for _, l := range x.Lhs {
					if lhsTouches(l) {
						found = true
					}
				}
			case *ast.IncDecStmt:
				if lhsTouches(x.X) {
					found = true
				}
			}
			return true
		})
	}
	return found
}

func (s *sq) tuple(names []string) string {
	if len(names) == 1 {
		return names[0]
	}
	return "(" + strings.Join(names, ", ") + ")"
}

func (s *sq) ret(vals []string, defers []string) string {
	// with named results the returned values are first stored in the result variables (deferred closures can read and
	// change them); what the function returns is their value after the deferred calls
	var pre []string
	if len(s.named) > 0 && !s.inBranch {
		for i, v := range vals {
			pre = append(pre, fmt.Sprintf("let %s := %s", s.declare(s.named[i]), v))
		}
	}
	final := func() string {
		var parts []string
		if s.usesW {
			parts = append(parts, "w")
		}
		if s.rcvMut {
			parts = append(parts, s.declare(s.valRcv))
		}
		if len(s.named) > 0 && !s.inBranch {
			for _, o := range s.named {
				parts = append(parts, s.declare(o))
			}
		} else {
			parts = append(parts, vals...)
		}
		if len(parts) == 0 {
			parts = []string{"()"}
		}
		if s.hasLoop && !s.inBranch {
			return "some " + s.tuple(parts)
		}
		return s.tuple(parts)
	}
	return lets(pre, s.runDefers(defers, final))
}

// runDefers: the deferred calls in LIFO order, then k; a deferred function literal is translated in place (its body sees
// the variables as they are when the function returns)
func (s *sq) runDefers(defers []string, k func() string) string {
	if len(defers) == 0 {
		return k()
	}
	d, rest := defers[len(defers)-1], defers[:len(defers)-1]
	if strings.HasPrefix(d, "§CLOSURE§") {
		idx := 0
		fmt.Sscan(strings.TrimPrefix(d, "§CLOSURE§"), &idx)
		lit := s.closures[idx]
		s.conts = append(s.conts, func() string { return s.runDefers(rest, k) })
		saveLoops, saveIn := s.loops, s.inBranch
		s.loops, s.inBranch = nil, false
		saved, savedUsed := copyNames(s.names), copyUsed(s.used)
		body := s.stmts(lit.Body.List, nil)
		s.names, s.used = saved, savedUsed
		s.loops, s.inBranch = saveLoops, saveIn
		s.conts = s.conts[:len(s.conts)-1]
		return body
	}
	return d + "\n" + s.runDefers(rest, k)
}

func (s *sq) stmts(list []ast.Stmt, defers []string) string {
	if len(list) == 0 {
		if len(s.conts) > 0 && !s.inBranch && len(s.loops) == 0 {
			k := s.conts[len(s.conts)-1]
			s.conts = s.conts[:len(s.conts)-1]
			r := k()
			s.conts = append(s.conts, k)
			return r
		}
		if len(s.loops) > 0 && !s.inBranch {
			return s.continueLoop()
		}
		if len(s.results) != 0 && !s.inBranch {
			return "MISSING_RETURN"
		}
		return s.ret(nil, defers)
	}
	st, rest := list[0], list[1:]
	switch x := st.(type) {
	case *callCont:
		if s.inCont > 0 {
			return strings.ReplaceAll(x.call, "§REC§", "rec_")
		}
		return strings.ReplaceAll(x.call, "§REC§", x.rec)
	case *popBreak:
		saved := s.breaks
		if len(s.breaks) > 0 {
			s.breaks = s.breaks[:len(s.breaks)-1]
		}
		r := s.stmts(rest, defers)
		s.breaks = saved
		return r
	case *ast.ForStmt:
		return s.forLoop(x, rest, defers)
	case *ast.BranchStmt:
		if x.Label != nil || (len(s.loops) == 0 && !(x.Tok == token.BREAK && len(s.breaks) > 0)) {
			s.bad(x, "unsupported branch statement")
		}
		switch x.Tok {
		case token.CONTINUE:
			return s.continueLoop()
		case token.BREAK:
			if n := len(s.breaks); n > 0 && s.breaks[n-1].isSelect {
				// leaves the select: go on with the statements after it
				top := s.breaks[n-1]
				saved := s.breaks
				s.breaks = s.breaks[:n-1]
				r := s.stmts(top.rest, top.defers)
				s.breaks = saved
				return r
			}
			return s.exitLoop()
		}
		s.bad(x, "unsupported branch statement %s", x.Tok)
	case *ast.SelectStmt:
		return s.selectStmt(x, rest, defers)
	case *ast.SendStmt:
		var pre []string
		ch, ct := s.ex(x.Chan, &pre)
		v, vt := s.ex(x.Value, &pre)
		c, ok := ct.Underlying().(*types.Chan)
		if !ok {
			s.bad(x, "send on a non-channel")
		}
		pre = append(pre, fmt.Sprintf("let w := %s w %s %s", s.op("send_"+s.anyName(ct, x), "§World → "+s.lt(ct, x)+" → "+s.lt(c.Elem(), x)+" → §World"), ch, s.coerce(v, vt, c.Elem(), x)))
		return lets(pre, s.stmts(rest, defers))
	case *ast.ReturnStmt:
		if len(s.conts) > 0 {
			// `return` inside a deferred closure ends the closure
			if len(x.Results) != 0 {
				s.bad(x, "deferred closure returning values")
			}
			k := s.conts[len(s.conts)-1]
			s.conts = s.conts[:len(s.conts)-1]
			r := k()
			s.conts = append(s.conts, k)
			return r
		}
		if len(x.Results) == 0 && len(s.named) > 0 {
			return s.ret(nil, defers)
		}
		if len(x.Results) != len(s.results) {
			s.bad(x, "return with %d values", len(x.Results))
		}
		var pre, vals []string
		for i, r := range x.Results {
			v, t := s.ex(r, &pre)
			vals = append(vals, s.coerce(v, t, s.results[i], r))
		}
		// results are evaluated before the deferred calls run
		var names []string
		for i, v := range vals {
			n := s.fresh("ret")
			pre = append(pre, fmt.Sprintf("let %s : %s := %s", n, s.lt(s.results[i], x), v))
			names = append(names, n)
		}
		return lets(pre, s.ret(names, defers))
	case *ast.BlockStmt:
		return s.stmts(append(append([]ast.Stmt{}, x.List...), rest...), defers)
	case *ast.EmptyStmt:
		return s.stmts(rest, defers)
	case *ast.ExprStmt:
		if s.isLogStmt(x) {
			return s.stmts(rest, defers)
		}
		var pre []string
		if ue, ok := x.X.(*ast.UnaryExpr); ok && ue.Op == token.ARROW {
			s.ex(ue, &pre)
			return lets(pre, s.stmts(rest, defers))
		}
		ce, ok := x.X.(*ast.CallExpr)
		if !ok {
			s.bad(x, "expression statement that is not a call")
		}
		if id, ok := ce.Fun.(*ast.Ident); ok {
			if _, ok := s.p.info.Uses[id].(*types.Builtin); ok {
				switch id.Name {
				case "panic":
					// the function ends here (deferred calls still run); the environment records the panic in the World
					s.counters["panic"]++
					pre = append(pre, fmt.Sprintf("let w := %s w", s.op(fmt.Sprintf("panic_%d", s.counters["panic"]), "§World → §World")))
					var zs []string
					if len(s.named) == 0 {
						for _, r := range s.results {
							zs = append(zs, s.zero(r, x))
						}
					}
					return lets(pre, s.ret(zs, defers))
				case "close":
					ch, ct := s.ex(ce.Args[0], &pre)
					pre = append(pre, fmt.Sprintf("let w := %s w %s", s.op("close_"+s.anyName(ct, x), "§World → "+s.lt(ct, x)+" → §World"), ch))
					return lets(pre, s.stmts(rest, defers))
				case "delete":
					m, mt := s.ex(ce.Args[0], &pre)
					k, kt := s.ex(ce.Args[1], &pre)
					mp, ok := mt.Underlying().(*types.Map)
					if !ok {
						s.bad(x, "delete from a non-map")
					}
					pre = append(pre, fmt.Sprintf("let w := %s w %s %s", s.op("delete_"+s.anyName(mt, x), "§World → "+s.lt(mt, x)+" → "+s.lt(mp.Key(), x)+" → §World"), m, s.coerce(k, kt, mp.Key(), x)))
					return lets(pre, s.stmts(rest, defers))
				}
			}
		}
		if s.callName[ce.Lparen] == "" {
			s.bad(x, "unsupported call statement")
		}
		s.call(ce, &pre)
		return lets(pre, s.stmts(rest, defers))
	case *ast.DeferStmt:
		// the function value and the arguments are evaluated now, the call happens when the function returns
		var dpre []string
		ce := x.Call
		if lit, ok := ce.Fun.(*ast.FuncLit); ok {
			if len(ce.Args) != 0 || lit.Type.Params.NumFields() != 0 || lit.Type.Results.NumFields() != 0 {
				s.bad(x, "deferred function literal with parameters or results")
			}
			ast.Inspect(lit.Body, func(n ast.Node) bool {
				switch n.(type) {
				case *ast.DeferStmt, *ast.ForStmt, *ast.GoStmt:
					s.bad(n, "unsupported statement in a deferred function literal")
				}
				if ce2, ok := n.(*ast.CallExpr); ok {
					if id, ok := ce2.Fun.(*ast.Ident); ok && id.Name == "recover" {
						s.bad(n, "recover")
					}
				}
				return true
			})
			s.closures = append(s.closures, lit)
			nd := append(append([]string{}, defers...), fmt.Sprintf("§CLOSURE§%d", len(s.closures)-1))
			return s.stmts(rest, nd)
		}
		if s.callName[ce.Lparen] == "" {
			s.bad(x, "unsupported deferred call")
		}
		s.call(ce, &dpre)
		k := len(dpre) - 1
		for k >= 0 && !strings.Contains(dpre[k], " := E."+s.callName[ce.Lparen]+" w") {
			k--
		}
		if k < 0 {
			s.bad(x, "deferred call not found")
		}
		// results and write-backs of a deferred call are dropped: nothing can read them
		line := dpre[k]
		if i := strings.Index(line, " := "); i >= 0 {
			lhs := line[:i]
			if strings.HasPrefix(lhs, "let (") {
				lhs = "let (w" + strings.Repeat(", _", strings.Count(lhs, ",")) + ")"
			}
			line = lhs + line[i:]
		}
		nd := append(append([]string{}, defers...), line)
		return lets(dpre[:k], s.stmts(rest, nd))
	case *ast.DeclStmt:
		gd := x.Decl.(*ast.GenDecl)
		if gd.Tok != token.VAR {
			s.bad(x, "unsupported declaration")
		}
		var pre []string
		for _, sp := range gd.Specs {
			vs := sp.(*ast.ValueSpec)
			for i, n := range vs.Names {
				o := s.p.info.Defs[n]
				var v string
				if i < len(vs.Values) {
					ev, et := s.ex(vs.Values[i], &pre)
					v = s.coerce(ev, et, o.Type(), n)
				} else {
					v = s.zero(o.Type(), n)
				}
				pre = append(pre, fmt.Sprintf("let %s : %s := %s", s.declare(o), s.lt(o.Type(), n), v))
			}
		}
		return lets(pre, s.stmts(rest, defers))
	case *ast.IncDecStmt:
		var pre []string
		v, t := s.ex(x.X, &pre)
		op := token.ADD
		if x.Tok == token.DEC {
			op = token.SUB
		}
		g := &g2l{p: s.p, fn: s.fn}
		pre = append(pre, s.assignPath(x.X, g.binop(op, v, "1", s.ity(t, x), x), &pre))
		return lets(pre, s.stmts(rest, defers))
	case *ast.AssignStmt:
		var pre []string
		s.assign(x, &pre)
		return lets(pre, s.stmts(rest, defers))
	case *ast.IfStmt:
		var pre []string
		if x.Init != nil {
			switch in := x.Init.(type) {
			case *ast.AssignStmt:
				s.assign(in, &pre)
			default:
				s.bad(x, "unsupported if-init %T", in)
			}
		}
		c, _ := s.ex(x.Cond, &pre)
		thenL := x.Body.List
		var elseL []ast.Stmt
		switch e := x.Else.(type) {
		case nil:
		case *ast.BlockStmt:
			elseL = e.List
		case *ast.IfStmt:
			elseL = []ast.Stmt{e}
		}
		if !hasReturnOrDefer(thenL) && !hasReturnOrDefer(elseL) {
			// join point
			vars := s.assigned(append(append([]ast.Stmt{}, thenL...), elseL...))
			if s.hasCall(thenL) || s.hasCall(elseL) {
				vars = append([]string{"w"}, vars...)
			}
			if len(vars) == 0 {
				return lets(pre, s.stmts(rest, defers))
			}
			saveRes := s.results
			t := s.branch(thenL, vars)
			e := s.branch(elseL, vars)
			s.results = saveRes
			pre = append(pre, fmt.Sprintf("let %s :=\n  if %s then\n    %s\n  else\n    %s", s.tuple(vars), c, indent(indent(t)), indent(indent(e))))
			return lets(pre, s.stmts(rest, defers))
		}
		thenAll := append([]ast.Stmt{}, thenL...)
		if fallsThrough(thenL) {
			thenAll = append(thenAll, rest...)
		}
		elseAll := append([]ast.Stmt{}, elseL...)
		if fallsThrough(elseL) {
			elseAll = append(elseAll, rest...)
		}
		saved, savedUsed := copyNames(s.names), copyUsed(s.used)
		t := s.stmts(thenAll, defers)
		s.names, s.used = copyNames(saved), copyUsed(savedUsed)
		e := s.stmts(elseAll, defers)
		s.names, s.used = saved, savedUsed
		return lets(pre, fmt.Sprintf("if %s then\n  %s\nelse\n  %s", c, indent(t), indent(e)))
	case *ast.SwitchStmt:
		var pre []string
		if x.Init != nil {
			s.bad(x, "switch with init")
		}
		tag, tagT := "", ""
		if x.Tag != nil {
			v, t := s.ex(x.Tag, &pre)
			tagT = s.lt(t, x)
			if tagT != "Int" && tagT != "GoErr" {
				s.bad(x, "switch on a %s", t)
			}
			tag = s.fresh("tag")
			pre = append(pre, fmt.Sprintf("let %s : %s := %s", tag, tagT, v))
		}
		// rewrite into an if-chain over synthetic conditions; the default arm comes last wherever it stands
		type arm struct {
			cond string
			body []ast.Stmt
		}
		var arms []arm
		var def []ast.Stmt
		hasDef := false
		for _, c := range x.Body.List {
			cc := c.(*ast.CaseClause)
			for _, b := range cc.Body {
				ast.Inspect(b, func(n ast.Node) bool {
					if br, ok := n.(*ast.BranchStmt); ok {
						s.bad(br, "branch statement inside a switch")
					}
					return true
				})
			}
			if cc.List == nil {
				def, hasDef = cc.Body, true
				continue
			}
			var cs []string
			for _, e := range cc.List {
				var p2 []string
				v, _ := s.ex(e, &p2)
				if len(p2) > 0 {
					s.bad(e, "call in a case expression")
				}
				if tag != "" && tagT == "GoErr" {
					// `switch err { case X: }` compares with ==
					if v == "NIL" {
						v = "GoErr.nil"
					}
					cs = append(cs, fmt.Sprintf("(%s == %s)", tag, v))
				} else if tag != "" {
					cs = append(cs, fmt.Sprintf("decide (%s = %s)", tag, v))
				} else {
					cs = append(cs, v)
				}
			}
			arms = append(arms, arm{strings.Join(cs, " || "), cc.Body})
		}
		_ = hasDef
		var build func(i int) string
		build = func(i int) string {
			var body []ast.Stmt
			if i == len(arms) {
				body = def
			} else {
				body = arms[i].body
			}
			all := append([]ast.Stmt{}, body...)
			if fallsThrough(body) {
				all = append(all, rest...)
			}
			saved, savedUsed := copyNames(s.names), copyUsed(s.used)
			t := s.stmts(all, defers)
			s.names, s.used = saved, savedUsed
			if i == len(arms) {
				return t
			}
			return fmt.Sprintf("if %s then\n  %s\nelse\n  %s", arms[i].cond, indent(t), indent(build(i+1)))
		}
		return lets(pre, build(0))
	}
	s.bad(st, "unsupported statement %T", st)
	return ""
}

// branch of a join-point if: the statements, then the tuple of the joined variables
func (s *sq) branch(list []ast.Stmt, vars []string) string {
	saved, savedUsed := copyNames(s.names), copyUsed(s.used)
	saveRes, saveW, saveMut := s.results, s.usesW, s.rcvMut
	// reuse stmts with a continuation that yields the tuple: emulate by a sentinel result list
	s.results = nil
	s.usesW, s.rcvMut = false, false
	saveIn := s.inBranch
	s.inBranch = true
	body := s.stmts(list, nil)
	s.inBranch = saveIn
	s.results, s.usesW, s.rcvMut = saveRes, saveW, saveMut
	s.names, s.used = saved, savedUsed
	// stmts ended with `()` (ret of nothing): replace that final unit by the tuple
	if !strings.HasSuffix(body, "()") {
		s.bad(list[0], "join-point branch did not end in unit")
	}
	return strings.TrimSuffix(body, "()") + s.tuple(vars)
}

func copyNames(m map[types.Object]string) map[types.Object]string {
	c := map[types.Object]string{}
	for k, v := range m {
		c[k] = v
	}
	return c
}

func copyUsed(m map[string]bool) map[string]bool {
	c := map[string]bool{}
	for k, v := range m {
		c[k] = v
	}
	return c
}

func (s *sq) zero(t types.Type, n ast.Node) string {
	switch s.lt(t, n) {
	case "Int":
		return "0"
	case "Bool":
		return "false"
	case "String":
		return "\"\""
	case "GoErr":
		return "GoErr.nil"
	case "(List Int)":
		return "([] : List Int)"
	}
	switch t.Underlying().(type) {
	case *types.Pointer, *types.Interface, *types.Map, *types.Slice, *types.Signature, *types.Chan:
		return s.op("nil_"+s.anyName(t, n), s.lt(t, n))
	}
	return s.op("zero_"+s.anyName(t, n), s.lt(t, n))
}

func (s *sq) assign(x *ast.AssignStmt, pre *[]string) {
	lhsType := func(l ast.Expr) types.Type {
		if id, ok := l.(*ast.Ident); ok {
			if id.Name == "_" {
				return nil
			}
			if o := s.p.info.Defs[id]; o != nil {
				return o.Type()
			}
			if o := s.p.info.Uses[id]; o != nil {
				return o.Type()
			}
		}
		return s.p.info.Types[l].Type
	}
	// op-assignment on integers
	if x.Tok != token.DEFINE && x.Tok != token.ASSIGN {
		op := map[token.Token]token.Token{token.ADD_ASSIGN: token.ADD, token.SUB_ASSIGN: token.SUB, token.MUL_ASSIGN: token.MUL,
			token.QUO_ASSIGN: token.QUO, token.REM_ASSIGN: token.REM, token.AND_ASSIGN: token.AND, token.OR_ASSIGN: token.OR,
			token.XOR_ASSIGN: token.XOR, token.SHL_ASSIGN: token.SHL, token.SHR_ASSIGN: token.SHR}[x.Tok]
		if op == 0 || len(x.Lhs) != 1 {
			s.bad(x, "unsupported assignment operator")
		}
		a, t := s.ex(x.Lhs[0], pre)
		b, _ := s.ex(x.Rhs[0], pre)
		g := &g2l{p: s.p, fn: s.fn}
		*pre = append(*pre, s.assignPath(x.Lhs[0], g.binop(op, a, b, s.ity(t, x), x), pre))
		return
	}
	if len(x.Rhs) == 1 && len(x.Lhs) > 1 {
		var names []string
		var ts []types.Type
		switch r := x.Rhs[0].(type) {
		case *ast.CallExpr:
			if s.callName[r.Lparen] == "" {
				s.bad(x, "multi-value from an unsupported call")
			}
			names, ts = s.call(r, pre)
		case *ast.TypeAssertExpr:
			v, ft := s.ex(r.X, pre)
			to := s.p.info.Types[r.Type].Type
			a, b := s.fresh("as"), s.fresh("ok")
			opn := s.op("assert_"+s.anyName(ft, x)+"_to_"+s.anyName(to, x), s.lt(ft, x)+" → "+s.lt(to, x)+" × Bool")
			*pre = append(*pre, fmt.Sprintf("let (%s, %s) := %s %s", a, b, opn, v))
			names, ts = []string{a, b}, []types.Type{to, types.Typ[types.Bool]}
		case *ast.IndexExpr:
			m, mt := s.ex(r.X, pre)
			mp, ok := mt.Underlying().(*types.Map)
			if !ok {
				s.bad(x, "comma-ok index of a non-map")
			}
			k, kt := s.ex(r.Index, pre)
			a, b := s.fresh("el"), s.fresh("ok")
			opn := s.op("index_"+s.anyName(mt, x), s.lt(mt, x)+" → "+s.lt(mp.Key(), x)+" → "+s.lt(mp.Elem(), x)+" × Bool")
			*pre = append(*pre, fmt.Sprintf("let (%s, %s) := %s %s %s", a, b, opn, m, s.coerce(k, kt, mp.Key(), x)))
			names, ts = []string{a, b}, []types.Type{mp.Elem(), types.Typ[types.Bool]}
		default:
			s.bad(x, "unsupported multi-value right-hand side %T", r)
		}
		if len(names) != len(x.Lhs) {
			s.bad(x, "assignment count mismatch")
		}
		for i, l := range x.Lhs {
			if id, ok := l.(*ast.Ident); ok && id.Name == "_" {
				continue
			}
			*pre = append(*pre, s.assignPath(l, s.coerce(names[i], ts[i], lhsType(l), l), pre))
		}
		return
	}
	if len(x.Lhs) != len(x.Rhs) {
		s.bad(x, "assignment count mismatch")
	}
	var vals []string
	for i, r := range x.Rhs {
		v, t := s.ex(r, pre)
		v = s.coerce(v, t, lhsType(x.Lhs[i]), r)
		if len(x.Rhs) > 1 {
			n := s.fresh("t")
			*pre = append(*pre, fmt.Sprintf("let %s := %s", n, v))
			v = n
		}
		vals = append(vals, v)
	}
	for i, l := range x.Lhs {
		if id, ok := l.(*ast.Ident); ok && id.Name == "_" {
			continue
		}
		*pre = append(*pre, s.assignPath(l, vals[i], pre))
	}
}


// ---------------------------------------------------------------- loops and select

// varType: the Go type a Lean variable stands for (the value-like pointer receiver stands for its pointee)
func (s *sq) varType(o types.Object) types.Type {
	t := o.Type()
	if o == s.valRcv {
		if p, ok := t.(*types.Pointer); ok {
			return p.Elem()
		}
	}
	return t
}

func (s *sq) usedObjects(nodes []ast.Node) map[types.Object]bool {
	set := map[types.Object]bool{}
	for _, nd := range nodes {
		if nd == nil {
			continue
		}
		ast.Inspect(nd, func(n ast.Node) bool {
			if id, ok := n.(*ast.Ident); ok {
				if o := s.p.info.Uses[id]; o != nil {
					set[o] = true
				}
			}
			return true
		})
	}
	return set
}

func (s *sq) forLoop(x *ast.ForStmt, rest []ast.Stmt, defers []string) string {
	var pre []string
	if x.Init != nil {
		switch in := x.Init.(type) {
		case *ast.AssignStmt:
			s.assign(in, &pre)
		default:
			s.bad(x, "unsupported for-init %T", in)
		}
	}
	ast.Inspect(x.Body, func(n ast.Node) bool {
		if d, ok := n.(*ast.DeferStmt); ok {
			s.bad(d, "defer inside a loop")
		}
		_, lit := n.(*ast.FuncLit)
		return !lit
	})
	// parameters: variables in scope that the loop or what follows it uses (plus those of the enclosing loops)
	nodes := []ast.Node{x}
	for _, r := range rest {
		nodes = append(nodes, r)
	}
	used := s.usedObjects(nodes)
	for _, l := range s.loops {
		for _, o := range l.params {
			used[o] = true
		}
	}
	if s.valRcv != nil && s.rcvMut {
		used[s.valRcv] = true
	}
	var params []types.Object
	for o := range s.names {
		if used[o] && o != s.worldRcv {
			params = append(params, o)
		}
	}
	// in declaration order (receiver, parameters, locals): renaming a variable does not reorder them
	sort.Slice(params, func(i, j int) bool { return params[i].Pos() < params[j].Pos() })
	ctx := &loopCtx{name: fmt.Sprintf("%s_loop%d", s.lean, len(s.aux)+len(s.loops)+1), params: params, post: x.Post, exit: rest, defers: defers}
	// the same loop reached through a duplicated continuation (same variables, same deferred calls, same enclosing
	// loops, same statements after it) is the same definition
	key := fmt.Sprint(x.Pos(), "|", len(rest), "|", strings.Join(defers, ";"), "|")
	if len(rest) > 0 {
		key += fmt.Sprint(rest[0].Pos())
	}
	for _, o := range params {
		key += "," + s.names[o]
	}
	for _, l := range s.loops {
		key += "/" + l.name
	}
	if name, ok := s.loopDone[key]; ok {
		ctx.name = name
		return lets(pre, s.loopCall(ctx))
	}
	// the name must be unique also when an inner loop is emitted first
	for taken := true; taken; {
		taken = false
		for _, a := range s.aux {
			if strings.Contains(a, "def "+ctx.name+" ") {
				ctx.name += "x"
				taken = true
			}
		}
		for _, l := range s.loops {
			if l.name == ctx.name {
				ctx.name += "x"
				taken = true
			}
		}
	}
	saved, savedUsed := copyNames(s.names), copyUsed(s.used)
	ctx.breakDepth = len(s.breaks)
	s.loops = append(s.loops, ctx)
	s.breaks = append(append([]breakCtx{}, s.breaks...), breakCtx{})
	var cpre []string
	cond := "true"
	if x.Cond != nil {
		cond, _ = s.ex(x.Cond, &cpre)
	}
	body := s.stmts(x.Body.List, defers)
	s.names, s.used = copyNames(saved), copyUsed(savedUsed)
	exit := ""
	if x.Cond != nil {
		exit = s.exitLoop() // `for { … }` ends only through return or break
	}
	s.loops = s.loops[:len(s.loops)-1]
	s.breaks = s.breaks[:ctx.breakDepth]
	s.names, s.used = saved, savedUsed
	var sig []string
	if s.usesW {
		sig = append(sig, "(w : §World)")
	}
	for _, o := range params {
		sig = append(sig, fmt.Sprintf("(%s : %s)", s.names[o], s.lt(s.varType(o), x)))
	}
	def := fmt.Sprintf("/-- the loop of %s at %s; `fuel` bounds the number of iterations -/\ndef %s (E : Env_%s) (fuel : Nat) %s : §RESULT :=\n  match fuel with\n  | 0 => none\n  | fuel + 1 =>\n    %s",
		s.fn, s.p.pos(x), ctx.name, s.lean, strings.Join(sig, " "),
		indent(indent(func() string {
			if x.Cond == nil {
				return body
			}
			return lets(cpre, fmt.Sprintf("if %s then\n  %s\nelse\n  %s", cond, indent(body), indent(exit)))
		}())))
	s.aux = append(s.aux, def)
	s.loopDone[key] = ctx.name
	return lets(pre, s.loopCall(ctx))
}

func (s *sq) loopCall(ctx *loopCtx) string {
	if s.inCont > 0 && len(s.loops) > 0 && ctx == s.loops[len(s.loops)-1] && ctx.viaRec {
		// inside a continuation definition the loop is reached through its `rec_` parameter
		args := ""
		if s.usesW {
			args += " w"
		}
		for _, o := range ctx.params {
			args += " " + s.names[o]
		}
		return "rec_" + args
	}
	args := ""
	if s.usesW {
		args += " w"
	}
	for _, o := range ctx.params {
		args += " " + s.names[o]
	}
	return ctx.name + " E fuel" + args
}

// continueLoop: the end of the loop body or a `continue`: the post statement, then the next iteration
func (s *sq) continueLoop() string {
	ctx := s.loops[len(s.loops)-1]
	if ctx.post == nil || ctx.inPost {
		return s.loopCall(ctx)
	}
	saveBreaks := s.breaks
	if ctx.breakDepth+1 <= len(s.breaks) {
		s.breaks = s.breaks[:ctx.breakDepth+1]
	}
	defer func() { s.breaks = saveBreaks }()
	ctx.inPost = true
	r := s.stmts([]ast.Stmt{ctx.post}, ctx.defers)
	ctx.inPost = false
	return r
}

// exitLoop: the loop ends (condition false, `break`): the statements after the loop, in the enclosing context
func (s *sq) exitLoop() string {
	ctx := s.loops[len(s.loops)-1]
	saveLoops := s.loops
	s.loops = s.loops[:len(s.loops)-1]
	saveBreaks := s.breaks
	if ctx.breakDepth <= len(s.breaks) {
		s.breaks = s.breaks[:ctx.breakDepth]
	}
	defer func() { s.breaks = saveBreaks }()
	saved, savedUsed := copyNames(s.names), copyUsed(s.used)
	savePost := ctx.inPost
	ctx.inPost = false
	r := s.stmts(ctx.exit, ctx.defers)
	ctx.inPost = savePost
	s.names, s.used = saved, savedUsed
	s.loops = saveLoops
	return r
}

// selectStmt: the channel operands (and send values) are evaluated in source order; the environment then says which
// case proceeds (`select_k` returns its index; the default case, if any, has the index after the last case; an index
// out of range counts as the last alternative); a receive that binds its value gets it from `selrecv_k_i`
func (s *sq) selectStmt(x *ast.SelectStmt, rest []ast.Stmt, defers []string) string {
	k := s.selName[x.Pos()]
	var pre []string
	type arm struct {
		body []ast.Stmt
		bind string
	}
	var arms []arm
	var def []ast.Stmt
	hasDef := false
	var args, argTs []string
	for _, c := range x.Body.List {
		cc := c.(*ast.CommClause)
		if cc.Comm == nil {
			def, hasDef = cc.Body, true
			continue
		}
		i := len(arms)
		switch cm := cc.Comm.(type) {
		case *ast.SendStmt:
			ch, ct := s.ex(cm.Chan, &pre)
			v, vt := s.ex(cm.Value, &pre)
			c, ok := ct.Underlying().(*types.Chan)
			if !ok {
				s.bad(cm, "send on a non-channel")
			}
			args = append(args, ch, s.coerce(v, vt, c.Elem(), cm))
			argTs = append(argTs, s.lt(ct, cm), s.lt(c.Elem(), cm))
			arms = append(arms, arm{body: cc.Body})
		case *ast.ExprStmt:
			ue, ok := cm.X.(*ast.UnaryExpr)
			if !ok || ue.Op != token.ARROW {
				s.bad(cm, "unsupported select case")
			}
			ch, ct := s.ex(ue.X, &pre)
			args = append(args, ch)
			argTs = append(argTs, s.lt(ct, cm))
			arms = append(arms, arm{body: cc.Body})
		case *ast.AssignStmt:
			if len(cm.Rhs) != 1 {
				s.bad(cm, "unsupported select case")
			}
			ue, ok := cm.Rhs[0].(*ast.UnaryExpr)
			if !ok || ue.Op != token.ARROW {
				s.bad(cm, "unsupported select case")
			}
			ch, ct := s.ex(ue.X, &pre)
			c, ok := ct.Underlying().(*types.Chan)
			if !ok {
				s.bad(cm, "receive from a non-channel")
			}
			args = append(args, ch)
			argTs = append(argTs, s.lt(ct, cm))
			rv, rok := s.fresh("rv"), s.fresh("rok")
			opn := s.op(fmt.Sprintf("selrecv_%d_%d", k, i), "§World → "+s.lt(ct, cm)+" → §World × "+s.lt(c.Elem(), cm)+" × Bool")
			var blines []string
			blines = append(blines, fmt.Sprintf("let (w, %s, %s) := %s w %s", rv, rok, opn, ch))
			for j, l := range cm.Lhs {
				if id, ok := l.(*ast.Ident); ok && id.Name == "_" {
					continue
				}
				val := rv
				if j == 1 {
					val = rok
				}
				blines = append(blines, "§ASSIGN§"+fmt.Sprint(j)+"§"+val)
			}
			a := arm{body: cc.Body, bind: strings.Join(blines, "\n")}
			// the assignment lines are produced when the arm is translated (the names then in force)
			arms = append(arms, a)
			_ = cm
		default:
			s.bad(cc, "unsupported select case %T", cm)
		}
	}
	_ = hasDef
	sel := s.fresh("sel")
	pre = append(pre, fmt.Sprintf("let (w, %s) := %s w%s", sel, s.op(fmt.Sprintf("select_%d", k), "§World → "+strings.Join(append(argTs, "§World × Int"), " → ")), prefixEach(args)))
	type alt struct {
		body []ast.Stmt
		bind string
		comm ast.Stmt
	}
	var alts []alt
	ci := 0
	for _, c := range x.Body.List {
		cc := c.(*ast.CommClause)
		if cc.Comm == nil {
			continue
		}
		alts = append(alts, alt{arms[ci].body, arms[ci].bind, cc.Comm})
		ci++
	}
	if hasDef {
		alts = append(alts, alt{def, "", nil})
	}
	if len(alts) == 0 {
		s.bad(x, "empty select")
	}
	// when two or more alternatives go on with the statements after the select, those statements are translated once,
	// as a local continuation whose parameters are the World and the variables the alternatives assign
	falls := 0
	var armStmts []ast.Stmt
	for _, a := range alts {
		if fallsThrough(a.body) {
			falls++
		}
		armStmts = append(armStmts, a.body...)
	}
	realRest := 0
	for _, r := range rest {
		switch r.(type) {
		case *popBreak, *callCont:
		default:
			realRest++
		}
	}
	if falls >= 2 && realRest >= 2 && !s.inBranch {
		// a separate definition: parameters are the variables its statements use, the World, and — when the select is
		// inside a loop — the loop itself (`rec_`), so that no mutual recursion is needed
		nodes := []ast.Node{}
		for _, r := range rest {
			nodes = append(nodes, r)
		}
		used := s.usedObjects(nodes)
		var loop *loopCtx
		if len(s.loops) > 0 {
			loop = s.loops[len(s.loops)-1]
			for _, o := range loop.params {
				used[o] = true
			}
		}
		if s.valRcv != nil && s.rcvMut {
			used[s.valRcv] = true
		}
		var params []types.Object
		for o := range s.names {
			if used[o] && o != s.worldRcv {
				params = append(params, o)
			}
		}
		sort.Slice(params, func(i, j int) bool { return params[i].Pos() < params[j].Pos() })
		kname := fmt.Sprintf("%s_k%d", s.lean, len(s.aux)+1)
		for taken := true; taken; {
			taken = false
			for _, a := range s.aux {
				if strings.Contains(a, "def "+kname+" ") {
					kname += "x"
					taken = true
				}
			}
		}
		var sig []string
		call := kname + " E"
		recStr := ""
		if loop != nil {
			rt := ""
			if s.usesW {
				rt = "§World → "
			}
			for _, o := range loop.params {
				rt += s.lt(s.varType(o), x) + " → "
			}
			sig = append(sig, "(rec_ : "+rt+"§RESULT)")
			call += " §REC§"
			// eta-expanded (a bare partial application of the function being defined makes the equation lemmas of the
			// structural recursion fail an independent kernel replay)
			vars := ""
			if s.usesW {
				vars += " w"
			}
			for _, o := range loop.params {
				vars += " " + s.names[o]
			}
			recStr = "(fun" + vars + " => " + loop.name + " E fuel" + vars + ")"
		}
		if s.usesW {
			sig = append(sig, "(w : §World)")
			call += " w"
		}
		for _, o := range params {
			sig = append(sig, fmt.Sprintf("(%s : %s)", s.names[o], s.lt(s.varType(o), x)))
			call += " " + s.names[o]
		}
		saved, savedUsed := copyNames(s.names), copyUsed(s.used)
		s.inCont++
		if loop != nil {
			loop.viaRec = true
		}
		kbody := s.stmts(rest, defers)
		if loop != nil {
			loop.viaRec = false
		}
		s.inCont--
		s.names, s.used = saved, savedUsed
		s.aux = append(s.aux, fmt.Sprintf("/-- what follows the select of %s at %s (reached from several of its cases) -/\ndef %s (E : Env_%s) %s : §RESULT :=\n  %s",
			s.fn, s.p.pos(x), kname, s.lean, strings.Join(sig, " "), indent(kbody)))
		rest = []ast.Stmt{&callCont{call: call, rec: recStr}}
	}
	var build func(i int) string
	build = func(i int) string {
		a := alts[i]
		all := append([]ast.Stmt{}, a.body...)
		if fallsThrough(a.body) {
			all = append(all, &popBreak{})
			all = append(all, rest...)
		}
		savedBreaks := s.breaks
		s.breaks = append(append([]breakCtx{}, s.breaks...), breakCtx{isSelect: true, rest: rest, defers: defers})
		defer func() { s.breaks = savedBreaks }()
		saved, savedUsed := copyNames(s.names), copyUsed(s.used)
		var bpre []string
		if a.bind != "" {
			as := a.comm.(*ast.AssignStmt)
			for _, line := range strings.Split(a.bind, "\n") {
				if strings.HasPrefix(line, "§ASSIGN§") {
					parts := strings.SplitN(strings.TrimPrefix(line, "§ASSIGN§"), "§", 2)
					j := 0
					fmt.Sscan(parts[0], &j)
					bpre = append(bpre, s.assignPath(as.Lhs[j], parts[1], &bpre))
				} else {
					bpre = append(bpre, line)
				}
			}
		}
		t := lets(bpre, s.stmts(all, defers))
		s.names, s.used = saved, savedUsed
		if i == len(alts)-1 {
			return t
		}
		return fmt.Sprintf("if decide (%s = %d) then\n  %s\nelse\n  %s", sel, i, indent(t), indent(build(i+1)))
	}
	return lets(pre, build(0))
}
