#!/usr/bin/env python3
"""yaml2lean: pkg/llrp/messages.yaml -> Lean `Schema` literal (LLRP.Gen.Schema or LLRP.Pinned.Schema).

Only what the table says is emitted; every derived attribute (min size, fixed size, grouping) is computed
in Lean from this data by the generator's rules.  Anything the translator does not understand is an error.
usage: yaml2lean.py <messages.yaml> <Namespace>   (Lean text on stdout)
"""
import sys, yaml

BUILTIN = {
    'bool': ('bool', 1, 1), 'uint8': ('uint8', 1, 8), 'byte': ('byte', 1, 8), 'uint16': ('uint16', 2, 8),
    'uint32': ('uint32', 4, 8), 'uint64': ('uint64', 8, 8), 'int8': ('int8', 1, 8), 'int16': ('int16', 2, 8),
    'int32': ('int32', 4, 8), 'int64': ('int64', 8, 8),
}

def die(msg):
    sys.stderr.write('yaml2lean: ' + msg + '\n'); sys.exit(2)

def storage_size(st):
    if st.startswith('uint'): return int(st[4:]) // 8
    if st.startswith('int'): return int(st[3:]) // 8
    if st in ('bool', 'byte'): return 1
    die('unknown storage ' + st)

def lstr(s): return '"' + s.replace('\\', '\\\\').replace('"', '\\"') + '"'
def lbool(b): return 'true' if b else 'false'

def main():
    src, ns = sys.argv[1], sys.argv[2]
    jpath = sys.argv[sys.argv.index('--json') + 1] if '--json' in sys.argv else None
    gpath = sys.argv[sys.argv.index('--goreg') + 1] if '--goreg' in sys.argv else None
    jout = []
    y = yaml.safe_load(open(src))
    for k in y:
        if k not in ('parameters', 'types', 'messages'): die('unknown top-level key ' + k)
    types = dict(BUILTIN)
    for t in y['types']:
        for k in t:
            if k not in ('name', 'storage', 'kind', 'values', 'prefix', 'description', 'bits', 'max', 'min', 'size'):
                die('unknown type key %s in %s' % (k, t.get('name')))
        if t['name'] in types: die('duplicate type ' + t['name'])
        st = t['storage']
        types[t['name']] = (st, t.get('size') or storage_size(st), t.get('bits', 8))
    names = set()
    out = []
    jf, js = [], []
    def field(c, f):
        for k in f:
            if k not in ('type', 'name', 'bit', 'partial', 'description', 'min', 'max', 'length', 'padding', 'test_length'):
                die('unknown field key %s in %s' % (k, c['name']))
        ty = f['type']; name = f.get('name', ty)
        is_arr = ty.startswith('[]')
        if is_arr: ty = ty[2:]
        length = f.get('length', 0)
        if ty == 'string':
            if is_arr or length: die('string with length in ' + c['name'])
            kind = '.str'
        elif ty == 'bitArray':
            if is_arr or length: die('bitArray with length in ' + c['name'])
            kind = '.bitArr'
        else:
            if ty not in types: die('unknown type %s in %s' % (ty, c['name']))
            st, size, bits = types[ty]
            signed = st.startswith('int')
            if f.get('padding'):
                if is_arr: die('array padding')
                kind = '.pad %d' % size
            elif is_arr:
                if bits != 8: die('array of sub-byte type')
                if length > 0: kind = '.fixedArr %d %d' % (size, length)
                elif length == -1:
                    if size != 1: die('rest field of multi-byte elements')
                    kind = '.rest'
                elif length == 0:
                    if signed: die('array of signed elements in ' + c['name'])
                    kind = '.arr %d' % size
                else: die('bad length')
            else:
                if length: die('length on a scalar')
                kind = '.scalar %d %d %d %s %s %s' % (size, bits, f.get('bit') or 0, lbool(bool(f.get('partial'))), lbool(signed), lbool(st == 'bool'))
        jf.append(dict(name=name, kind=kind))
        return '⟨%s, %s⟩' % (lstr(name), kind)
    def slot(c, p):
        for k in p:
            if k not in ('type', 'optional', 'repeatable', 'name', 'air_protocol', 'group', 'description', 'version'):
                die('unknown parameter key %s in %s' % (k, c['name']))
        ty = p['type']
        name = p.get('name')
        if name is None:
            name = ty
            if p.get('repeatable') and name != 'Custom':
                if name.endswith('Data') or name[-1] == 's': pass
                elif name.endswith('y'): name = name[:-1] + 'ies'
                else: name += 's'
        g = p.get('group')
        js.append(dict(name=name, ty=ty, optional=bool(p.get('optional')), repeatable=bool(p.get('repeatable')), group=g))
        return '⟨%s, %s, %s, %s, %s⟩' % (lstr(name), lstr(ty), lbool(bool(p.get('optional'))), lbool(bool(p.get('repeatable'))),
                                          'none' if g is None else 'some ' + lstr(g))
    defs = []
    for is_msg, key in ((False, 'parameters'), (True, 'messages')):
        for c in y[key]:
            for k in c:
                if k not in ('name', 'type_id', 'fields', 'parameters', 'response_to', 'description', 'version', 'short'):
                    die('unknown container key %s in %s' % (k, c['name']))
            dn = ('m_' if is_msg else 'p_') + c['name']
            if dn in names: die('duplicate ' + dn)
            names.add(dn)
            jf, js = [], []
            fs = ',\n    '.join(field(c, f) for f in c.get('fields') or [])
            ss = ',\n    '.join(slot(c, p) for p in c.get('parameters') or [])
            rt = c.get('response_to')
            out.append('def %s : Container :=\n  { name := %s, typeId := %d, isMsg := %s,\n    fields := [%s],\n    slots := [%s],\n    responseTo := %s }\n' % (
                dn, lstr(c['name']), c['type_id'], lbool(is_msg), fs, ss, 'none' if rt is None else 'some %d' % rt))
            defs.append(dn)
            jout.append(dict(name=c['name'], typeId=c['type_id'], isMsg=is_msg, fields=jf, slots=js))
    if jpath:
        import json
        json.dump(jout, open(jpath, 'w'), indent=0)
    if gpath:
        with open(gpath, 'w') as g:
            g.write('//go:build verif\n\n// GENERATED from messages.yaml by yaml2lean.py - type registry for the codec harness\npackage llrp\n\nimport "reflect"\n\nvar verifTypes = map[string]reflect.Type{\n')
            for c in jout:
                g.write('\t"%s%s": reflect.TypeOf((*%s)(nil)).Elem(),\n' % ('m:' if c['isMsg'] else 'p:', c['name'], c['name']))
            g.write('}\n')
    print('-- GENERATED by /verif/translators/yaml2lean.py from %s — do not edit' % src)
    print('import LLRP.Model.Schema\nnamespace %s\nopen LLRP\n' % ns)
    print('\n'.join(out))
    print('def schema : Schema := [\n  ' + ',\n  '.join(defs) + ']\n')
    print('end ' + ns)

main()
